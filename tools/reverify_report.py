"""Writes /verif/seeded/REVERIFY.md from the summaries of tools/reverify.sh (/tmp/seed/reverify/summary_*.txt)
and records the outcome in every seed's meta.json (field "reverified")."""
import glob, json, os, re, subprocess, sys
rows = {}
for f in sorted(glob.glob('/tmp/seed/reverify/summary_*.txt')):
    for line in open(f):
        line = line.strip()
        if not line or line == 'DONE': continue
        sid = line.split()[0]
        rows[sid] = line[len(sid):].strip()       # later files / lines win (re-runs)
head = subprocess.check_output(['git', '-C', '/repo', 'rev-parse', '--short', 'HEAD']).decode().strip()
out = ['# Re-verification of every stored seeded change', '',
       'Every directory under `seeded/` was re-verified with `tools/reverify.sh` against the final checks and the final /repo (all seeds at e3558d3 after round 4; the seeds of the properties touched by round 4b - C04 C08 C09 C13 C17 C18 C19 - and the round-4b seeds again at %s):' % head,
       'the patch is applied to a scratch worktree at that commit (reduced context allowed), the',
       'demonstration must pass on the clean tree (0) and fail with the change (non-zero), and the quick tier of',
       'the check(s) recorded in `meta.json` (`caught_by`, else the property\'s own check) must exit 1 with at least',
       'one replay-confirmed VIOLATION line.', '',
       '| seed | demo clean | demo changed | check: exit / VIOLATION lines | verdict |', '|---|---|---|---|---|']
ncaught = nother = 0
for sid in sorted(rows, key=lambda s: (s.split('-')[0], int(s.split('-')[1]))):
    r = rows[sid]
    mp = '/verif/seeded/%s/meta.json' % sid
    meta = json.load(open(mp)) if os.path.exists(mp) else {}
    if 'patch-does-not-apply' in r:
        verdict = 'patch no longer applies'; dc = dx = ''; chk = ''
    else:
        m = re.search(r'demo_clean=(\d+) demo_changed=(\d+)(.*)', r)
        dc, dx, rest = m.group(1), m.group(2), m.group(3).strip()
        chk = ', '.join('%s: %s / %s' % (c, e, v) for c, e, v in re.findall(r'(C\d+):exit(\d+):viol(\d+)', rest))
        caught = any(e == '1' and int(v) > 0 for c, e, v in re.findall(r'(C\d+):exit(\d+):viol(\d+)', rest))
        if dx == '0': verdict = 'NEUTRALISED: with the final /repo the change no longer breaks the property (its demonstration passes)'
        elif caught: verdict = 'caught'
        else: verdict = 'NOT caught'
        if dc != '0': verdict += ' (demo fails on the clean tree: %s)' % dc
    note = meta.get('reverify_note')
    if note: verdict += ' - ' + note
    if verdict.startswith('caught'): ncaught += 1
    else: nother += 1
    out.append('| %s | %s | %s | %s | %s |' % (sid, dc, dx, chk, verdict))
    if meta:
        meta['reverified'] = dict(repo=head, result=verdict)
        json.dump(meta, open(mp, 'w'), indent=1)
out += ['', '%d seeds: %d caught, %d other (see verdict column).' % (len(rows), ncaught, nother), '']
open('/verif/seeded/REVERIFY.md', 'w').write('\n'.join(out))
print('%d seeds: %d caught, %d other' % (len(rows), ncaught, nother))
