"""Validate MANIFEST.json and evidence/*.json against the schemas."""
import json, sys, glob, os
import jsonschema
root = os.path.dirname(os.path.dirname(os.path.abspath(__file__)))
m = json.load(open(os.path.join(root, 'MANIFEST.json')))
jsonschema.validate(m, json.load(open('/root/.vp/MANIFEST.schema.json')))
print('MANIFEST ok: %d checks, %d not_applicable' % (len(m['checks']), len(m.get('not_applicable', []))))
es = json.load(open('/root/.vp/EVIDENCE.schema.json'))
ids = set()
for c in m['checks']:
    ids.add(c['property_id'])
    p = os.path.join(root, c['evidence_file'])
    if not os.path.exists(p): print('  MISSING evidence', p); continue
    try:
        e = json.load(open(p)); jsonschema.validate(e, es)
        cov = e['coverage']
        print('  %s evidence ok tier=%s states=%s obligations=%s distinct=%s wall=%s' % (c['property_id'], e['tier'], cov.get('states'), cov.get('obligations'), cov.get('distinct_nontrivial'), e['wall_s']))
    except Exception as ex:
        print('  INVALID', p, str(ex)[:300])
props = [json.loads(l)['id'] for l in open(os.path.join(root, 'properties.jsonl'))]
na = set(x['property_id'] for x in m.get('not_applicable', []))
for p in props:
    if p not in ids and p not in na: print('  property %s neither claimed nor not_applicable' % p)
