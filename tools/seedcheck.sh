#!/bin/bash
# usage: tools/seedcheck.sh Cnn N [check-ids...]   (verifies seeded change N of property Cnn from /tmp/seed/Cnn.out
#  in the scratch worktree /tmp/seed/Cnn, then runs our check(s) against /repo with the patch applied, then reverts)
P=$1; N=$2; shift 2; CHECKS=${@:-$P}
WT=/tmp/seed/$P; OUT=/tmp/seed/$P.out
set -u
cd $WT && git checkout -q -- . && git checkout -q --detach $(git -C /repo rev-parse HEAD) && git status --short | head -3
echo "worktree at $(git -C $WT rev-parse --short HEAD)"
echo "== clean: demo"; (cd $WT && PYTHONPATH=$WT /venv/bin/python -W ignore $OUT/demo$N.py > /tmp/seed/$P.demo_clean.txt 2>&1; echo "exit $?"; tail -2 /tmp/seed/$P.demo_clean.txt | cut -c1-200)
git -C $WT apply $OUT/change$N.diff || { echo "PATCH DOES NOT APPLY"; exit 2; }
echo "== changed: pinned tests"; (cd $WT && /venv/bin/python -m pytest -q -p no:cacheprovider --timeout=900 2>&1 | tail -1)
echo "== changed: tests from tests/"; (cd $WT/tests && PYTHONPATH=$WT /venv/bin/python -m pytest -q -p no:cacheprovider --timeout=900 2>&1 | tail -1)
echo "== changed: demo"; (cd $WT && PYTHONPATH=$WT /venv/bin/python -W ignore $OUT/demo$N.py > /tmp/seed/$P.demo_changed.txt 2>&1; echo "exit $?"; tail -3 /tmp/seed/$P.demo_changed.txt | cut -c1-300)
# our checks against the scratch worktree with the patch applied (PYTOUGH_REPO); /repo itself is
# not touched while other work is running against it
for C in $CHECKS; do
  echo "== our check $C (quick) with the change applied"
  (cd /verif && PYTOUGH_REPO=$WT VERIF_OUT_DIR=/tmp/seed/out_${P}_${N} timeout 3000 ./check $C --tier quick > /tmp/seed/out_${P}_${N}.$C.txt 2>&1; E=$?; grep "^VIOLATION" /tmp/seed/out_${P}_${N}.$C.txt | head -4 | cut -c1-400; grep -v "^KNOWN\|^VIOLATION" /tmp/seed/out_${P}_${N}.$C.txt | tail -3 | cut -c1-400; echo "check exit $E")
done
git -C $WT checkout -q -- .
