"""Store a verified seeded change under /verif/seeded/<id>/ (patch.diff, demo.py, meta.json).
usage: seedstore.py Cnn N "<what it does>" "<what it needs to manifest>" [check ids that were run]"""
import json, os, re, shutil, sys
P, N, what, needs = sys.argv[1:5]
checks = sys.argv[5:] or [P]
out = '/tmp/seed/%s.out' % P
log = open('/tmp/seed/log_%s_%s.txt' % (P, N)).read()
sid = '%s-%s' % (P, N)
d = os.path.join('/verif/seeded', sid)
os.makedirs(d, exist_ok=True)
shutil.copy(os.path.join(out, 'change%s.diff' % N), os.path.join(d, 'patch.diff'))
shutil.copy(os.path.join(out, 'demo%s.py' % N), os.path.join(d, 'demo.py'))
def grab(header):
    m = re.search(re.escape(header) + r'\n(.*?)(?=\n== |\Z)', log, re.S)
    return m.group(1).strip().split('\n') if m else []
res = {}
for c in checks:
    seg = re.search(r'== our check %s \(quick\) with the change applied\n(.*?)check exit (\d+)' % c, log, re.S)
    if seg:
        lines = seg.group(1).strip().split('\n')
        res[c] = dict(exit=int(seg.group(2)), violation_lines=[l[:300] for l in lines if l.startswith('VIOLATION')][:4],
                      summary=[l for l in lines if ' -> exit ' in l][-1:] )
meta = dict(id=sid, property=P, what=what, needs=needs,
            files_touched=sorted(set(re.findall(r'^\+\+\+ b/(\S+)', open(os.path.join(d, 'patch.diff')).read(), re.M))),
            verified=dict(
                demo_on_clean_tree=grab('== clean: demo'),
                pinned_tests_with_change=grab('== changed: pinned tests'),
                all_tests_from_tests_dir_with_change=grab('== changed: tests from tests/'),
                demo_with_change=[l[:300] for l in grab('== changed: demo')]),
            ran=['git -C <scratch worktree> apply patch.diff',
                 'cd <worktree> && /venv/bin/python -m pytest -q -p no:cacheprovider --timeout=900   (baseline: 37 passed, 68 failed)',
                 'cd <worktree>/tests && /venv/bin/python -m pytest -q -p no:cacheprovider --timeout=900   (baseline: 103 passed, 2 failed)',
                 'cd <worktree> && PYTHONPATH=<worktree> /venv/bin/python demo.py   (exit 0 clean, non-zero changed)'] +
                ['PYTOUGH_REPO=<worktree> ./check %s --tier quick' % c for c in checks],
            our_checks=res,
            caught=any(r['exit'] == 1 and r['violation_lines'] for r in res.values()) if res else None,
            caught_by=[c for c, r in res.items() if r['exit'] == 1 and r['violation_lines']])
if os.environ.get('SEED_NOTE'): meta['history'] = os.environ['SEED_NOTE']
json.dump(meta, open(os.path.join(d, 'meta.json'), 'w'), indent=1)
print(sid, 'caught' if meta['caught'] else 'NOT CAUGHT', {c: r['exit'] for c, r in res.items()})
