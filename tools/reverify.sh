#!/bin/bash
# usage: tools/reverify.sh <stream-tag> <seed-id>...
# Re-verifies stored seeded changes (/verif/seeded/<id>/) against the CURRENT /repo HEAD and the current
# checks: the patch must still apply (reduced context allowed), the demo must pass clean and fail changed,
# and the quick tier of the check(s) recorded in meta.json (caught_by, else the property's own) must exit 1
# with a VIOLATION line.  Results: /tmp/seed/reverify/<id>.txt, one summary line in /tmp/seed/reverify/summary_<tag>.txt.
# Scratch worktree /tmp/seed/rv_<tag> (removed at the end).
TAG=$1; shift
WT=/tmp/seed/rv_$TAG
OUTD=/tmp/seed/reverify; mkdir -p $OUTD
git -C /repo worktree remove --force $WT 2>/dev/null; rm -rf $WT
git -C /repo worktree add -q --detach $WT HEAD || exit 2
for ID in "$@"; do
  D=/verif/seeded/$ID; L=$OUTD/$ID.txt; : > $L
  P=${ID%-*}
  CHECKS=$(python3 -c "import json;m=json.load(open('$D/meta.json'));print(' '.join(m.get('caught_by') or [m['property']]))")
  git -C $WT checkout -q -- . ; git -C $WT clean -fdq
  (cd $WT && PYTHONPATH=$WT timeout 600 /venv/bin/python -W ignore $D/demo.py > $OUTD/$ID.demo_clean.txt 2>&1); DC=$?
  AP=ok
  git -C $WT apply $D/patch.diff 2>/dev/null || git -C $WT apply -C1 $D/patch.diff 2>/dev/null || AP=fail
  if [ $AP = fail ]; then echo "$ID patch-does-not-apply" | tee -a $L >> $OUTD/summary_$TAG.txt; continue; fi
  (cd $WT && PYTHONPATH=$WT timeout 600 /venv/bin/python -W ignore $D/demo.py > $OUTD/$ID.demo_changed.txt 2>&1); DX=$?
  RES=""
  for C in $CHECKS; do
    (cd /verif && PYTOUGH_REPO=$WT VX_NPROC=5 VERIF_OUT_DIR=$OUTD/out_$TAG timeout 3000 ./check $C --tier quick > $OUTD/$ID.$C.txt 2>&1); E=$?
    NV=$(grep -c "^VIOLATION" $OUTD/$ID.$C.txt)
    RES="$RES $C:exit$E:viol$NV"
  done
  echo "$ID demo_clean=$DC demo_changed=$DX$RES" | tee -a $L >> $OUTD/summary_$TAG.txt
done
git -C $WT checkout -q -- . ; git -C /repo worktree remove --force $WT
echo DONE >> $OUTD/summary_$TAG.txt
