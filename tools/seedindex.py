"""Generate seeded/INDEX.md from seeded/*/meta.json"""
import json, glob, os
rows = []
for p in sorted(glob.glob('/verif/seeded/*/meta.json')):
    m = json.load(open(p))
    checks = ', '.join('%s: exit %s' % (c, r['exit']) for c, r in sorted(m.get('our_checks', {}).items()))
    keys = []
    for c, r in sorted(m.get('our_checks', {}).items()):
        for l in r.get('violation_lines', [])[:2]:
            k = l.split('(', 1)[1].split(':', 1)[0] if '(' in l else l
            keys.append(k.strip())
    rows.append((m['id'], m['property'], m['what'], m['needs'], ('caught' if m.get('caught') else 'MISSED') + (' (' + m['history'] + ')' if m.get('history') else ''), checks, '; '.join(keys)[:160]))
with open('/verif/seeded/INDEX.md', 'w') as f:
    f.write('# Seeded changes\n\nEach directory holds `patch.diff` (apply with `git -C /repo apply`), `demo.py` (passes on the clean tree, fails with the change) and `meta.json` (what was run and observed).\n\n')
    f.write('| id | property | change | needs, to manifest | our quick check | result | failure keys (first two) |\n|---|---|---|---|---|---|---|\n')
    for r in rows:
        f.write('| %s | %s | %s | %s | %s | %s | %s |\n' % (r[0], r[1], r[2].replace('|', '/'), r[3].replace('|', '/'), r[5], r[4], r[6].replace('|', '/')))
print(len(rows), 'seeded changes;', sum(1 for r in rows if r[4].startswith('caught')), 'caught')
