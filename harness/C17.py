"""C17 - block, column, layer and node names are unique, well-formed and invertible.

The REAL mulgrids functions (reloaded from /repo) run on symbolic numbers and
symbolic names:

  gen        column/node/layer_name_from_number(i), (j) with i, j symbolic:
             result has the convention's length and i <= capacity, OR
             NamingConventionError was raised and i > capacity; characters are
             alphabet letters / digits with blanks only as padding on the
             justified side; names equal => i == j.
  roundtrip  column_name(block_name(l, c)) == c and layer_name(..) == l for
             l, c produced by the generators from symbolic numbers (and for
             the surface layer / atmosphere column names), block name has 5
             characters.
  addlayers  real add_layers numbering from a symbolic offset: names pairwise
             distinct, never the surface layer name, numbers strictly increase;
             and (abstract) with an uninterpreted injective name function for
             up to 120 layers.
  newkey     new_column_name / new_node_name (new_dict_key) on a dictionary of
             symbolic keys and a symbolic start index.
  fix        fix_blockname / unfix_blockname / valid_blockname on symbolic
             5-character names; fix_block_mapping on symbolic mappings.
  uniq       uniqstring on symbolic strings.
"""
import itertools
import z3
from string import ascii_lowercase, ascii_uppercase
from vx import sym, strs, loader, report
from vx.sym import SInt, SBool
from vx.strs import SStr, SChar, IxStr

PID = 'C17'

ALPHABETS = {
    'lower': ascii_lowercase,
    'upper': ascii_uppercase,
    'letters52': ascii_lowercase + ascii_uppercase,
    'abc': 'abc',
    'atm': 'atm',                                  # surface layer name 'atm' is layer 18 here
    'scrambled': 'qwertyuiopasdfghjklzxcvbnm',      # no two neighbours consecutive: longest ite form
    'dups': 'abracadabra',                          # callers pass it through uniqstring -> 'abrcd'
    'wxyz2': 'wWxXyYzZ',                            # a letter in both cases: case folding creates duplicates
    'one': 'a',                                     # one letter: without spaces only the zeroth name exists
    'oneboth': 'aA',                                # one letter after case folding
}
# An alphabet name 'X^u' / 'X^l' means: the character set that the REAL mulgrid.rectangular
# hands to the name generators when called with chars = ALPHABETS[X], case = 'u' / 'l'
# (captured from a 1x1x1 call), i.e. its case folding + uniqstring prologue is executed.
NMAX = {'quick': 20000, 'thorough': 150000}

_LD = None
def _load():
    global _LD
    if _LD is None:
        _LD = loader.load(['mulgrids'])
    return _LD


# ---------------------------------------------------------------------------
# independent oracles (no code of the repository involved)

def digits_kind(kind, conv):
    """does this generator render the number in decimal digits?"""
    if kind == 'layer': return conv == 0
    return conv in (1, 2)

def name_length(kind, conv):
    col = [3, 2, 3, 3][conv]
    return 5 - col if kind == 'layer' else col

def capacity(kind, conv, nchars, spaces):
    """largest number that has a name of the convention's length."""
    L = name_length(kind, conv)
    if digits_kind(kind, conv): return 10 ** L - 1
    if spaces: return sum(nchars ** k for k in range(1, L + 1))
    return nchars ** L - 1

def in_set(code, chars):
    """z3 Bool: code is the code point of one of chars."""
    cs = sorted(set(ord(ch) for ch in chars))
    runs = []
    for v in cs:
        if runs and v == runs[-1][1] + 1: runs[-1][1] = v
        else: runs.append([v, v])
    return z3.Or(*[(code == a) if a == b else z3.And(code >= a, code <= b) for a, b in runs])

def is_digit(code): return z3.And(code >= 48, code <= 57)

def code_of(cell):
    return z3.IntVal(ord(cell)) if isinstance(cell, str) else cell.code

def cells_of(s):
    return list(s) if isinstance(s, str) else list(s._resolved().cells)

def eq_expr(a, b):
    """z3 Bool for a == b (strings, symbolic or not)."""
    r = (a == b)
    if isinstance(r, SBool): return r.e
    return z3.BoolVal(bool(r))

def well_formed(name, kind, conv, just, chars, spaces, num):
    """z3 Bool: blanks only as padding on the justified side, all other
    characters from the alphabet (or decimal digits), at least one non-blank
    character when num >= 1, no blank at all when spaces are not allowed."""
    cells = cells_of(name)
    codes = [code_of(x) for x in cells]
    L = len(codes)
    dig = digits_kind(kind, conv)
    if dig and kind != 'layer': just = 'r'      # node/column numbers are always right justified
    okchar = [is_digit(e) if dig else in_set(e, chars) for e in codes]
    blank = [e == 32 for e in codes]
    parts = []
    for k in range(L):
        parts.append(z3.Or(blank[k], okchar[k]))
        # a blank is followed (rjust: preceded) only by blanks towards the padded side
        if just == 'r' and k > 0: parts.append(z3.Implies(blank[k], blank[k - 1]))
        if just == 'l' and k < L - 1: parts.append(z3.Implies(blank[k], blank[k + 1]))
    if not dig and not spaces:
        parts += [z3.Not(b) for b in blank]
    if L:
        parts.append(z3.Implies(num >= 1, z3.Not(z3.And(*blank))))
    return z3.And(*parts)

def fix_oracle(codes):
    cond = z3.And(is_digit(codes[2]), is_digit(codes[4]), codes[3] == 32)
    return [codes[0], codes[1], codes[2], z3.If(cond, 48, codes[3]), codes[4]]

def unfix_oracle(codes):
    """(a3, i2): the last two characters, when both are digits, are printed
    as an integer right-justified in two columns."""
    cond = z3.And(is_digit(codes[3]), is_digit(codes[4]), codes[3] == 48)
    return [codes[0], codes[1], codes[2], z3.If(cond, 32, codes[3]), codes[4]]

def print_form(codes):
    """What the simulator prints for a valid block name ([any]x3, digit or
    blank, digit) that it holds as (a3, i2): the integer part loses its
    leading zero."""
    return [codes[0], codes[1], codes[2], z3.If(codes[3] == 48, 32, codes[3]), codes[4]]

def valid_oracle(codes):
    from string import ascii_letters, digits, punctuation
    first = ascii_letters + digits + ' ' + punctuation
    return z3.And(*([in_set(e, first) for e in codes[0:3]] +
                    [z3.Or(is_digit(codes[3]), codes[3] == 32), is_digit(codes[4])]))

def codes_equal(cells, codes):
    cs = cells_of(cells)
    if len(cs) != len(codes): return z3.BoolVal(False)
    return z3.And(*[code_of(a) == b for a, b in zip(cs, codes)])


# ---------------------------------------------------------------------------
# helpers

def sym_name(c, base, n, lo=32, hi=126, chars=None):
    cells = []
    for k in range(n):
        e = z3.Int('%s.%d' % (base, k))
        c.add(in_set(e, chars) if chars is not None else z3.And(e >= lo, e <= hi))
        cells.append(SChar(e))
    return SStr(cells)

def model_text(m, s):
    return ''.join(x if isinstance(x, str) else chr(sym.model_value(m, x.code)) for x in cells_of(s))

def model_codes(m, s):
    return [ord(x) if isinstance(x, str) else sym.model_value(m, x.code) for x in cells_of(s)]

def justfn_of(M, just):
    return M.str.rjust if just == 'r' else M.str.ljust

class limited_recursion(object):
    """Cap the Python recursion depth a little above the current one, so that
    a non-terminating recursion in the code under test surfaces as its
    RecursionError after a few hundred frames instead of 20000 (the engine
    raises the limit for deep but finite recursions)."""
    def __init__(self, extra=500): self.extra = extra
    def __enter__(self):
        import sys
        self.old = sys.getrecursionlimit()
        depth, f = 0, sys._getframe()
        while f is not None: depth += 1; f = f.f_back
        sys.setrecursionlimit(min(self.old, depth + self.extra))
    def __exit__(self, *a):
        import sys
        sys.setrecursionlimit(self.old)
        return False


ONE_LETTER_KEY = 'one-letter-set-no-spaces/explicit-naming-error'


def rectangular_passes_on(M, chars, case, **kw):
    """Run the real mulgrid.rectangular and return (grid or exception, the
    `chars` it passes to node_name_from_number).  The generator method is
    wrapped on the class for the duration of the call only."""
    captured = []
    orig = M.mulgrid.node_name_from_number
    def spy(self, num, justfn, chs, sp):
        captured.append(chs)
        return orig(self, num, justfn, chs, sp)
    M.mulgrid.node_name_from_number = spy
    try:
        try:
            with limited_recursion():
                g = M.mulgrid().rectangular(kw.pop('xblocks', [1.0]), kw.pop('yblocks', [1.0]), kw.pop('zblocks', [1.0]),
                                            chars=chars, case=case, **kw)
        except Exception as ex:
            g = ex
    finally:
        M.mulgrid.node_name_from_number = orig
    return g, (captured[0] if captured else None)


def fold_text(text, case):
    return text.upper() if case == 'u' else text.lower() if case == 'l' else text

def uniq_text(text):
    out = ''
    for ch in text:
        if ch not in out: out += ch
    return out

def expected_chars(alpha):
    """independent definition of the prepared character set"""
    base, _, case = alpha.partition('^')
    return uniq_text(fold_text(ALPHABETS[base], case or None))

def the_chars(M, alpha):
    if '^' in alpha:
        base, _, case = alpha.partition('^')
        g, passed = rectangular_passes_on(M, ALPHABETS[base], case)
        if passed is None: raise RuntimeError('rectangular did not call the node name generator: %r' % (g,))
        return IxStr(passed)
    return IxStr(M.uniqstring(ALPHABETS[alpha]))


class Ob(object):
    """Collects obligations of one task: proves, records failures with a key."""
    def __init__(self, prefix):
        self.prefix = prefix
        self.failures, self.samples, self.distinct = [], [], set()
        self.reached = 0
    def prove(self, c, f, label, replay, what=None):
        if isinstance(f, SBool): f = f.e
        if isinstance(f, bool): f = z3.BoolVal(f)
        self.reached += 1
        sf = z3.simplify(f)
        if not (z3.is_true(sf) or z3.is_false(sf)):
            self.distinct.add((label, sf.hash()))
        r = c.prove(f, label)
        if r == 'sat':
            m = c.failures[-1]['model']
            data = replay(m) if callable(replay) else dict(replay)
            self.failures.append(dict(key='%s/%s' % (self.prefix, label),
                                      what=what or ('%s: obligation "%s" fails' % (self.prefix, label)),
                                      replay=data))
        return r
    def fail(self, c, label, data, what):
        """unconditional failure on a feasible path (e.g. unexpected exception)."""
        self.reached += 1
        c.stats['obligations'] += 1
        r, m = c.reachable()
        if r == 'unsat':
            c.stats['ob_unsat'] += 1; return
        if r != 'sat':
            c.stats['ob_unknown'] += 1; c.unknowns.append(dict(label=label, info=None)); return
        c.stats['ob_sat'] += 1
        self.failures.append(dict(key='%s/%s' % (self.prefix, label), what=what,
                                  replay=data(m) if callable(data) else dict(data)))
    def result(self, name, res, extra=None):
        ex = dict(distinct_obligations=len(self.distinct), obligations_reached=self.reached)
        ex.update(extra or {})
        tr = report.summarize(name, res, self.failures, self.samples[:2], extra=ex)
        if self.reached == 0 and not tr.get('error'):
            tr['error'] = 'vacuous: no path reached an obligation'
        return tr


def _mv(m, x):
    return sym.model_value(m, x.e if hasattr(x, 'e') else x)


# ---------------------------------------------------------------------------
# gen: the three name generators

def task_gen(kind, conv, just, alpha, spaces, N):
    M = _load().mulgrids
    name = 'gen/%s/conv%d/%s/%s/%s' % (kind, conv, just, alpha, 'spaces' if spaces else 'nospaces')
    ob = Ob(name)
    cfg = dict(kind=kind, conv=conv, just=just, alpha=alpha, spaces=spaces)

    def h(c):
        c.exact_int_digits = True
        g = M.mulgrid(convention=conv)
        chars = the_chars(M, alpha)
        want_chars = expected_chars(alpha)
        cap = capacity(kind, conv, len(want_chars), spaces)
        L = name_length(kind, conv)
        f = getattr(g, kind + '_name_from_number')
        i = c.int('i', 0, N); j = c.int('j', 0, N)
        def rp(label):
            return lambda m: dict(cfg, task='gen', label=label, i=_mv(m, i), j=_mv(m, j))
        if '^' in alpha:
            ob.prove(c, str(chars) == want_chars, 'charset-prepared', rp('charset-prepared'),
                     'the character set rectangular() passes to the generators is not the case-folded input without repeats')
        out = []
        for tag, x in (('i', i), ('j', j)):
            try:
                with limited_recursion():
                    nm = f(x, justfn_of(M, just), chars, spaces)
            except M.NamingConventionError:
                ob.prove(c, x.e > cap, 'error-only-when-exhausted', rp('error-only-when-exhausted'),
                         'NamingConventionError raised for a number that has a name of the convention length')
                out.append(None)
                continue
            except Exception as ex:
                lab = ONE_LETTER_KEY if (len(want_chars) < 2 and not spaces and not digits_kind(kind, conv)) else 'unexpected-exception'
                ob.fail(c, lab, rp(lab), 'raised %s instead of a name or NamingConventionError: %s' % (type(ex).__name__, str(ex)[:120]))
                return 'exception'
            if not isinstance(nm, (str, SStr)):
                ob.fail(c, 'not-a-string', rp('length'), 'result is not a string'); return 'bad'
            ob.prove(c, len(nm) == L, 'length', rp('length'),
                     'name returned whose length is not the convention length')
            ob.prove(c, x.e <= cap, 'exhausted-raises', rp('exhausted-raises'),
                     'a name was returned for a number beyond the capacity of the name space')
            ob.prove(c, well_formed(nm, kind, conv, just, want_chars, spaces, x.e), 'well-formed', rp('well-formed'),
                     'name has characters outside the alphabet or blanks away from the padded side')
            out.append(nm)
        if out[0] is None or out[1] is None:
            return 'error' if out[0] is None and out[1] is None else 'one-error'
        if len(ob.samples) < 1 and len(cells_of(out[0])) and not isinstance(out[0], str):
            ob.samples.append(dict(task=name, name_i=repr(out[0])[:160], obligation='name(i) == name(j) => i == j'))
        ob.prove(c, z3.Implies(eq_expr(out[0], out[1]), i.e == j.e), 'injective', rp('injective'),
                 'two different numbers get the same name')
        return 'named'

    res = sym.explore(h, sym.Ctx(timeout_ms=60000), max_paths=4000)
    return ob.result(name, res)


# ---------------------------------------------------------------------------
# roundtrip: block_name / column_name / layer_name

def _surface_and_atm(M, conv, atmos):
    g = M.mulgrid(convention=conv, atmos_type=atmos)
    g.add_layers([1.0])
    return g, g.layerlist[0].name, getattr(g, 'atmosphere_column_name', None)

def task_roundtrip(conv, just, alpha, spaces, atmos, pair, N):
    """pair: 'underground' (l, c from symbolic numbers), 'atm-per-column'
    (surface layer, c symbolic), 'atm-single' (surface layer, atmosphere column)."""
    M = _load().mulgrids
    name = 'roundtrip/conv%d/%s/%s/%s/atm%d/%s' % (conv, just, alpha, 'spaces' if spaces else 'nospaces', atmos, pair)
    ob = Ob(name)
    cfg = dict(task='roundtrip', conv=conv, just=just, alpha=alpha, spaces=spaces, atmos=atmos, pair=pair)

    def h(c):
        c.exact_int_digits = True
        g, surface, atmcol = _surface_and_atm(M, conv, atmos)
        chars = the_chars(M, alpha)
        nl = c.int('nl', 0, N); nc = c.int('nc', 0, N)
        rp = lambda m: dict(cfg, nl=_mv(m, nl), nc=_mv(m, nc))
        try:
            if pair == 'underground':
                l = g.layer_name_from_number(nl, justfn_of(M, just), chars, spaces)
            else:
                l = surface
            if pair == 'atm-single':
                c_ = atmcol
            else:
                c_ = g.column_name_from_number(nc, justfn_of(M, just), chars, spaces)
        except M.NamingConventionError:
            return 'exhausted'
        try:
            blk = g.block_name(l, c_)
            cn, ln = g.column_name(blk), g.layer_name(blk)
        except Exception as ex:
            ob.fail(c, 'unexpected-exception', rp, 'raised %s: %s' % (type(ex).__name__, ex))
            return 'exception'
        if len(ob.samples) < 1:
            ob.samples.append(dict(task=name, layer=repr(l), column=repr(c_), block=repr(blk)[:200]))
        ob.prove(c, isinstance(blk, (str, SStr)) and len(blk) == 5, 'five-characters', rp, 'block name is not five characters long')
        lc, cc = [code_of(x) for x in cells_of(l)], [code_of(x) for x in cells_of(c_)]
        raw = (cc[0:3] + lc[0:2]) if conv in (0, 3) else (lc[0:3] + cc[0:2]) if conv == 1 else (lc[0:2] + cc[0:3])
        if len(raw) == 5:
            ob.prove(c, z3.Not(z3.And(is_digit(raw[2]), raw[3] == 32, is_digit(raw[4]))), 'no-repair-needed', rp,
                     'layer + column name of the generators has a blank between two digits, so fix_blockname alters the block name')
            ob.prove(c, codes_equal(blk, raw), 'is-concatenation', rp, 'block name is not the concatenation of its layer and column name')
        ob.prove(c, eq_expr(cn, c_), 'column-part', rp, 'column_name(block_name(l, c)) != c')
        ob.prove(c, eq_expr(ln, l), 'layer-part', rp, 'layer_name(block_name(l, c)) != l')
        return 'checked'

    res = sym.explore(h, sym.Ctx(timeout_ms=60000), max_paths=4000)
    return ob.result(name, res)


# ---------------------------------------------------------------------------
# inversion: column_name / layer_name of the block names of a geometry whose column and
# layer names are ANY names over letters, digits and blanks (not only generator names)

NAME_CHARS = ascii_lowercase + ascii_uppercase + '0123456789 '

def task_inversion(conv, n):
    """A geometry with n layers and n columns whose names are symbolic over
    letters, digits and blanks (such names come from geometry files, rename_column /
    rename_layer, numeric column names).  For the block of (last layer, last column):
    five characters, and column_name / layer_name give back exactly the column and
    layer it was built from - also when block_name() repaired the name with
    fix_blockname() (digit, blank, digit -> digit, '0', digit).  Precondition for
    n = 2: the blocks of the geometry have pairwise different names (a geometry
    whose layers ' 1' and '01' both meet a column ending in a digit has duplicate
    block names whatever the inversion does)."""
    M = _load().mulgrids
    name = 'inversion/conv%d/n%d' % (conv, n)
    ob = Ob('inversion/conv%d' % conv)          # same failure key whatever the size of the geometry
    cfg = dict(task='inversion', conv=conv)
    LL, CL = name_length('layer', conv), name_length('column', conv)

    def raw_of(l, c_):
        lc, cc = [x.code for x in l.cells], [x.code for x in c_.cells]
        return (cc + lc) if conv in (0, 3) else (lc + cc)

    def h(c):
        g = M.mulgrid(convention=conv, atmos_type=2)
        lays = [sym_name(c, 'l%d' % q, LL, chars=NAME_CHARS) for q in range(n)]
        cols = [sym_name(c, 'c%d' % q, CL, chars=NAME_CHARS) for q in range(n)]
        for a, b in itertools.combinations(lays, 2): c.add(z3.Not(eq_expr(a, b)))
        for a, b in itertools.combinations(cols, 2): c.add(z3.Not(eq_expr(a, b)))
        blocks = [fix_oracle(raw_of(a, b)) for a in lays for b in cols]
        for a, b in itertools.combinations(blocks, 2):
            c.add(z3.Or(*[x != y for x, y in zip(a, b)]))
        rp = lambda m: dict(cfg, layers=[model_text(m, x) for x in lays], columns=[model_text(m, x) for x in cols])
        try:
            for q, x in enumerate(lays): g.add_layer(M.layer(x, -1.0 - q, -0.5 - q, -1.0 * q))
            for q, x in enumerate(cols): g.add_column(M.column(x, [], M.np.array([1.0 * q, 0.0]), 0.0))
            l, col = lays[-1], cols[-1]
            blk = g.block_name(l, col)
            cn, ln = g.column_name(blk), g.layer_name(blk)
        except Exception as ex:
            ob.fail(c, 'unexpected-exception', rp, 'raised %s: %s' % (type(ex).__name__, ex))
            return 'exception'
        raw = raw_of(l, col)
        repaired = z3.And(is_digit(raw[2]), raw[3] == 32, is_digit(raw[4]))
        ob.prove(c, isinstance(blk, (str, SStr)) and len(blk) == 5, 'five-characters', rp, 'block name is not five characters long')
        ob.prove(c, codes_equal(blk, fix_oracle(raw)), 'is-repaired-concatenation', rp,
                 'block name is not fix_blockname(layer and column name joined in the order of the convention)')
        ob.prove(c, z3.Implies(z3.Not(repaired), eq_expr(cn, col)), 'column-part', rp, 'column_name(block_name(l, c)) != c (name needed no repair)')
        ob.prove(c, z3.Implies(z3.Not(repaired), eq_expr(ln, l)), 'layer-part', rp, 'layer_name(block_name(l, c)) != l (name needed no repair)')
        ob.prove(c, z3.Implies(repaired, eq_expr(cn, col)), 'repaired-name/column-part', rp,
                 'column_name(block_name(l, c)) != c for a block name that block_name() repaired (blank between two digits became 0)')
        ob.prove(c, z3.Implies(repaired, eq_expr(ln, l)), 'repaired-name/layer-part', rp,
                 'layer_name(block_name(l, c)) != l for a block name that block_name() repaired (blank between two digits became 0)')
        if c.solve(repaired, full=True)[0] == 'sat': witnesses.append(1)
        if len(ob.samples) < 1:
            ob.samples.append(dict(task=name, layer=repr(l), column=repr(col), block=repr(blk)[:200]))
        return 'checked'

    witnesses = []
    res = sym.explore(h, sym.Ctx(timeout_ms=60000), max_paths=20000)
    tr = ob.result(name, res, extra=dict(repaired_name_witness_paths=len(witnesses)))
    if not witnesses and not tr.get('error'):
        tr['error'] = 'vacuous: no path has a block name that block_name() repairs'
    return tr


# ---------------------------------------------------------------------------
# gmsh: the names of a geometry that from_gmsh() constructs (tiny mesh: 2 quadrilaterals, 6 nodes)

TINY_MSH = """$MeshFormat
2.2 0 8
$EndMeshFormat
$Nodes
6
1 0 0 0
2 10 0 0
3 20 0 0
4 0 10 0
5 10 10 0
6 20 10 0
$EndNodes
$Elements
2
1 3 2 0 1 1 2 5 4
2 3 2 0 1 2 3 6 5
$EndElements
"""

def tiny_msh_path():
    """one shared file in the temp directory (same content for every run; written atomically when missing)"""
    import os, tempfile
    path = os.path.join(tempfile.gettempdir(), 'c17_tiny_mesh.msh')
    try:
        with open(path) as fh: ok = fh.read() == TINY_MSH
    except OSError:
        ok = False
    if not ok:
        tmp = '%s.%d' % (path, os.getpid())
        with open(tmp, 'w') as fh: fh.write(TINY_MSH)
        os.replace(tmp, path)
    return path

class _Rec(object):
    def __init__(self, **kw): self.__dict__.update(kw)

def tiny_layermesh(np):
    """duck-typed Layermesh mesh with the geometry of TINY_MSH and two layers"""
    xy = [(0., 0.), (10., 0.), (20., 0.), (0., 10.), (10., 10.), (20., 10.)]
    nodes = [_Rec(index=k, pos=np.array(list(p))) for k, p in enumerate(xy)]
    cols = [_Rec(index=0, node=[nodes[q] for q in (0, 1, 4, 3)], centre=np.array([5., 5.]), surface=0.0),
            _Rec(index=1, node=[nodes[q] for q in (1, 2, 5, 4)], centre=np.array([15., 5.]), surface=0.0)]
    lays = [_Rec(thickness=1.0, top=0.0), _Rec(thickness=1.0, top=-1.0)]
    return _Rec(node=nodes, column=cols, layer=lays)

def task_layermesh(conv, m, spaces, just):
    return task_gmsh(0, conv, m, spaces, just, source='layermesh')

def task_gmsh(caller, conv, m, spaces, just, source='gmsh'):
    """The REAL from_gmsh, called on a mulgrid object of naming convention `caller`, builds a
    geometry of convention `conv` (2 columns, 6 nodes, 2 layers + surface) with a SYMBOLIC
    custom character set of m letters: node and column names have the length of the NEW
    geometry's convention, block names five characters, all distinct, nothing dropped,
    NamingConventionError only when the name space of the character set is too small."""
    M = _load().mulgrids
    name = 'gmsh/caller%d/conv%d/m%d/%s/%s' % (caller, conv, m, 'spaces' if spaces else 'nospaces', just)
    ob = Ob('gmsh/caller%d/conv%d' % (caller, conv))      # failure keys per (calling object's, new geometry's) convention
    if source == 'layermesh':
        name = 'layermesh/conv%d/m%d/%s/%s' % (conv, m, 'spaces' if spaces else 'nospaces', just)
        ob = Ob('layermesh/conv%d' % conv)
    cfg = dict(task='gmsh', source=source, caller=caller, conv=conv, spaces=spaces, just=just)
    CL = name_length('column', conv)

    def h(c):
        c.exact_int_digits = True
        s = sym_name(c, 'a', m, chars=ascii_lowercase + ascii_uppercase)
        sc = [x.code for x in s.cells]
        rp = lambda mdl: dict(cfg, text=model_text(mdl, s))
        path = tiny_msh_path()
        try:
            with limited_recursion():
                if source == 'layermesh':
                    g = M.mulgrid().from_layermesh(tiny_layermesh(M.np), convention=conv, atmosphere_type=2, justify=just, chars=s, spaces=spaces)
                else:
                    g = M.mulgrid(convention=caller).from_gmsh(path, [1.0, 1.0], convention=conv, atmos_type=2, justify=just, chars=s, spaces=spaces)
        except M.NamingConventionError:
            # number of different letters decides the capacity: fork-free bound with the smallest possible set is not
            # available, so the obligation is stated on the number of distinct letters of the input
            nd = z3.Sum(*[z3.If(z3.And(*[sc[k] != sc[q] for q in range(k)] + [z3.BoolVal(True)]), 1, 0) for k in range(m)])
            def cap(kind):
                L = name_length(kind, conv)
                if digits_kind(kind, conv): return z3.IntVal(10 ** L - 1)
                if spaces: return z3.Sum(*[z3.Product(*([nd] * k)) for k in range(1, L + 1)])
                return z3.Product(*([nd] * L)) - 1
            ob.prove(c, z3.Or(6 > cap('node'), 2 > cap('layer')), 'error-only-when-exhausted', rp,
                     'NamingConventionError although the grid fits the name space of the character set')
            return 'exhausted'
        except Exception as ex:
            ob.fail(c, 'no-geometry/unexpected-exception', rp, 'from_%s raised %s instead of building the geometry: %s' % (source, type(ex).__name__, str(ex)[:120]))
            return 'exception'
        nodes = [x.name for x in g.nodelist]; cols = [x.name for x in g.columnlist]; lays = [x.name for x in g.layerlist]
        ob.prove(c, len(nodes) == 6 and len(cols) == 2 and len(lays) == 3, 'nothing-dropped', rp,
                 'the constructor made %d nodes, %d columns, %d layers instead of 6, 2, 3' % (len(nodes), len(cols), len(lays)))
        ob.prove(c, all(len(x) == CL for x in nodes), 'node-name-length', rp, 'node name whose length is not that of the naming convention of the new geometry')
        ob.prove(c, all(len(x) == CL for x in cols), 'column-name-length', rp, 'column name whose length is not that of the naming convention of the new geometry')
        def chars_ok(nm):
            cs = [code_of(x) for x in cells_of(nm)]
            if digits_kind('column', conv): return z3.And(*[z3.Or(e == 32, is_digit(e)) for e in cs] + [z3.BoolVal(True)])
            return z3.And(*[z3.Or(*([e == 32] + [e == a for a in sc])) for e in cs] + [z3.BoolVal(True)])
        ob.prove(c, z3.And(*[chars_ok(x) for x in nodes + cols] + [z3.BoolVal(True)]), 'name-characters', rp,
                 'node / column name with characters that are not those of the naming convention of the new geometry (digits for conventions 1, 2; the character set otherwise)')
        ob.prove(c, all(len(x) == 5 - CL for x in lays), 'layer-name-length', rp, 'layer name whose length is not that of the naming convention of the new geometry')
        def distinct(xs): return z3.And(*[z3.Not(eq_expr(a, b)) for a, b in itertools.combinations(xs, 2)] + [z3.BoolVal(True)])
        ob.prove(c, distinct(nodes), 'node-names-distinct', rp, 'two nodes of the grid have the same name')
        ob.prove(c, distinct(cols), 'column-names-distinct', rp, 'two columns of the grid have the same name')
        ob.prove(c, distinct(lays), 'layer-names-distinct', rp, 'two layers of the grid have the same name')
        blks = list(g.block_name_list)
        ob.prove(c, len(blks) == 4 and all(len(b) == 5 for b in blks), 'block-count-and-length', rp, 'block names missing or not five characters')
        ob.prove(c, distinct(blks), 'block-names-distinct', rp, 'two blocks of the grid have the same name')
        want = [(l, cn) for l in lays[1:] for cn in cols]
        if len(blks) == len(want):
            ok = z3.And(*[z3.And(eq_expr(g.column_name(b), cn), eq_expr(g.layer_name(b), l)) for b, (l, cn) in zip(blks, want)])
            ob.prove(c, ok, 'block-parts', rp, 'column_name / layer_name of a block of the geometry is not the column / layer it was built from')
        if len(ob.samples) < 1:
            ob.samples.append(dict(task=name, input=repr(s), columns=[repr(x)[:60] for x in cols[:2]], blocks=[repr(x)[:80] for x in blks[:2]]))
        return 'grid'

    res = sym.explore(h, sym.Ctx(timeout_ms=60000), max_paths=20000)
    return ob.result(name, res)


# ---------------------------------------------------------------------------
# rectangular: the character-set preparation and the names of a tiny grid, end to end

def task_rectangular(m, case, spaces, conv, just, nx):
    """The REAL mulgrid.rectangular on an nx x 1 x 2 grid with a SYMBOLIC custom
    character set of m letters (any mix of cases, repeats allowed) and
    case = None / 'u' / 'l'.  Decided: the set it passes on to the generators
    has no repeated character and is exactly the case-folded input; node,
    column, layer and block names of the grid are pairwise distinct and
    nothing is dropped; a naming error only when the name space is too small."""
    M = _load().mulgrids
    name = 'rectangular/m%d/case-%s/%s/conv%d/%s/nx%d' % (m, case, 'spaces' if spaces else 'nospaces', conv, just, nx)
    ob = Ob(name)
    cfg = dict(task='rect', case=case, spaces=spaces, conv=conv, just=just, nx=nx)

    def h(c):
        c.exact_int_digits = True
        s = sym_name(c, 'a', m, chars=ascii_lowercase + ascii_uppercase)
        def fold(e):
            if case == 'u': return z3.If(z3.And(e >= 97, e <= 122), e - 32, e)
            if case == 'l': return z3.If(z3.And(e >= 65, e <= 90), e + 32, e)
            return e
        fc = [fold(x.code) for x in s.cells]
        # (no assumption on the number of different letters: a one-letter set without spaces has no
        #  names beyond the zeroth and must give an explicit NamingConventionError - obligation below)
        rp = lambda mdl: dict(cfg, text=model_text(mdl, s))
        g, passed = rectangular_passes_on(M, s, case, xblocks=[1.0] * nx, zblocks=[1.0, 1.0], convention=conv, atmos_type=1, justify=just, spaces=spaces)
        nnodes = 2 * (nx + 1)
        if passed is not None:
            pc = [code_of(x) for x in cells_of(passed)]
            ob.prove(c, z3.And(*[a != b for a, b in itertools.combinations(pc, 2)] + [z3.BoolVal(True)]), 'charset-distinct', rp,
                     'the character set rectangular() passes to the name generators has a repeated character')
            ob.prove(c, z3.And(*[z3.Or(*[a == b for b in pc]) for a in fc] + [z3.Or(*[a == b for b in fc]) for a in pc]), 'charset-is-folded-input', rp,
                     'the character set passed on is not the case-folded input set')
        if isinstance(g, M.NamingConventionError):
            if passed is None: return 'exhausted-early'
            caps = [capacity('node', conv, len(cells_of(passed)), spaces), capacity('layer', conv, len(cells_of(passed)), spaces)]
            ob.prove(c, nnodes > caps[0] or 2 > caps[1], 'error-only-when-exhausted', rp,
                     'NamingConventionError although the grid fits the name space of the character set')
            return 'exhausted'
        if isinstance(g, Exception):
            one = passed is not None and len(cells_of(passed)) < 2 and not spaces
            ob.fail(c, ONE_LETTER_KEY if one else 'unexpected-exception', rp,
                    'rectangular raised %s instead of NamingConventionError: %s' % (type(g).__name__, str(g)[:120]))
            return 'exception'
        if passed is not None and len(cells_of(passed)) < 2 and not spaces:
            ob.fail(c, ONE_LETTER_KEY, rp, 'a grid was built from a one-letter character set without spaces (no names exist)')
            return 'one-letter-grid'
        nodes = [x.name for x in g.nodelist]; cols = [x.name for x in g.columnlist]; lays = [x.name for x in g.layerlist]
        ob.prove(c, len(nodes) == nnodes and len(cols) == nx and len(lays) == 3, 'nothing-dropped', rp,
                 'rectangular made %d nodes, %d columns, %d layers instead of %d, %d, 3' % (len(nodes), len(cols), len(lays), nnodes, nx))
        def distinct(xs): return z3.And(*[z3.Not(eq_expr(a, b)) for a, b in itertools.combinations(xs, 2)] + [z3.BoolVal(True)])
        ob.prove(c, distinct(nodes), 'node-names-distinct', rp, 'two nodes of the grid have the same name')
        ob.prove(c, distinct(cols), 'column-names-distinct', rp, 'two columns of the grid have the same name')
        ob.prove(c, distinct(lays), 'layer-names-distinct', rp, 'two layers of the grid have the same name')
        blks = list(g.block_name_list)
        ob.prove(c, len(blks) == 3 * nx and all(len(b) == 5 for b in blks), 'block-count-and-length', rp, 'block names missing or not five characters')
        ob.prove(c, distinct(blks), 'block-names-distinct', rp, 'two blocks of the grid have the same name')
        ob.prove(c, len(g.block_name_index) == len(blks), 'block-index-complete', rp, 'the by-name block index lost an entry')
        if len(ob.samples) < 1:
            ob.samples.append(dict(task=name, input=repr(s), passed_on=repr(passed), columns=[repr(x)[:60] for x in cols[:2]]))
        return 'grid:%d letters' % len(cells_of(passed))

    res = sym.explore(h, sym.Ctx(timeout_ms=60000), max_paths=20000)
    return ob.result(name, res)


# ---------------------------------------------------------------------------
# add_layers

def task_addlayers_offset(conv, just, alpha, spaces, n, N):
    """The real add_layers and the real layer_name_from_number; the only
    change is that the number handed to layer_name_from_number is shifted by
    a symbolic offset `base` (base = 0 is the real behaviour), so that the
    window of n layers slides over every capacity limit and over the number
    whose name is the surface layer name."""
    M = _load().mulgrids
    name = 'addlayers-offset/conv%d/%s/%s/%s/n%d' % (conv, just, alpha, 'spaces' if spaces else 'nospaces', n)
    ob = Ob(name)
    cfg = dict(task='addlayers', conv=conv, just=just, alpha=alpha, spaces=spaces, n=n)

    def h(c):
        c.exact_int_digits = True
        g = M.mulgrid(convention=conv)
        chars = the_chars(M, alpha)
        cap = capacity('layer', conv, len(chars), spaces)
        base = c.int('base', 0, N)
        rp = lambda m: dict(cfg, base=_mv(m, base))
        real = g.layer_name_from_number
        calls = []
        def shifted(num, justfn, chs, sp):
            calls.append(num)
            return real(base + num, justfn, IxStr(chs), sp)
        g.layer_name_from_number = shifted
        try:
            g.add_layers([1.0] * n, 0.0, just, chars, spaces)
        except M.NamingConventionError:
            ob.prove(c, base.e + calls[-1] > cap, 'error-only-when-exhausted', rp,
                     'add_layers raised NamingConventionError before the layer name space was exhausted')
            return 'exhausted'
        except Exception as ex:
            ob.fail(c, 'unexpected-exception', rp, 'raised %s: %s' % (type(ex).__name__, ex))
            return 'exception'
        names = [lay.name for lay in g.layerlist]
        surface = names[0]
        ob.prove(c, len(names) == n + 1, 'layer-count', rp, 'add_layers did not create one layer per thickness plus the surface layer')
        ob.prove(c, all(a < b for a, b in zip(calls, calls[1:])) and (not calls or calls[0] >= 1), 'numbers-increase', rp,
                 'layer numbers are not strictly increasing from 1')
        ob.prove(c, z3.And(*[z3.Not(eq_expr(x, surface)) for x in names[1:]] + [z3.BoolVal(True)]), 'never-surface-name', rp,
                 'a layer got the name of the surface layer')
        pairs = [z3.Not(eq_expr(a, b)) for a, b in itertools.combinations(names[1:], 2)]
        ob.prove(c, z3.And(*pairs) if pairs else z3.BoolVal(True), 'distinct', rp, 'two layers got the same name')
        ob.prove(c, z3.And(*[z3.BoolVal(isinstance(x, (str, SStr)) and len(x) == name_length('layer', conv)) for x in names]),
                 'length', rp, 'layer name of the wrong length')
        if len(ob.samples) < 1 and n >= 2:
            ob.samples.append(dict(task=name, layers=[repr(x)[:80] for x in names[:3]]))
        return 'layers:%d skipped:%d' % (n, len(calls) - n)

    res = sym.explore(h, sym.Ctx(timeout_ms=60000), max_paths=20000)
    return ob.result(name, res)


def task_addlayers_abstract(conv, n):
    """The real add_layers over an abstract name generator.  add_layers only
    compares names for equality, so an injective generator is represented
    without loss by distinct constant tokens for every layer number, except
    that ONE number K - symbolic, anywhere or nowhere - carries the surface
    layer name.  (Injectivity and length of the real generator are the lemma
    proved by the gen tasks.)  The solver decides every comparison."""
    M = _load().mulgrids
    name = 'addlayers-abstract/conv%d/n%d' % (conv, n)
    ob = Ob(name)
    cfg = dict(task='addlayers', conv=conv, just='r', alpha='atm', spaces=True, n=n, base=0, abstract=True)
    L = name_length('layer', conv)

    def h(c):
        g0 = M.mulgrid(convention=conv); g0.add_layers([1.0])
        surface = g0.layerlist[0].name
        tokens = [''.join(t) for t in itertools.islice(itertools.product('#$%&()*+<=>?[]^_{|}~!', repeat=L), n + 8)]
        g = M.mulgrid(convention=conv)
        K = c.int('K', 0, n + 2)          # 0: no number has the surface name
        calls = []
        def gen(num, justfn, chs, sp):
            calls.append(num)
            tok = tokens[num]
            return SStr([SChar(z3.If(K.e == num, ord(surface[k]), ord(tok[k]))) for k in range(L)])
        g.layer_name_from_number = gen
        rp = lambda m: dict(cfg, K=_mv(m, K))
        try:
            g.add_layers([1.0] * n)
        except Exception as ex:
            ob.fail(c, 'unexpected-exception', rp, 'raised %s: %s' % (type(ex).__name__, ex))
            return 'exception'
        names = [lay.name for lay in g.layerlist]
        ob.prove(c, len(names) == n + 1, 'layer-count', rp, 'add_layers did not create one layer per thickness plus the surface layer')
        ob.prove(c, all(a < b for a, b in zip(calls, calls[1:])) and calls[0] >= 1, 'numbers-increase', rp,
                 'layer numbers are not strictly increasing from 1')
        ob.prove(c, z3.And(*[z3.Not(eq_expr(x, surface)) for x in names[1:]]), 'never-surface-name', rp,
                 'a layer got the name of the surface layer')
        pairs = [z3.Not(eq_expr(a, b)) for a, b in itertools.combinations(names[1:], 2)]
        ob.prove(c, z3.And(*pairs) if pairs else z3.BoolVal(True), 'distinct', rp, 'two layers got the same name')
        ob.prove(c, len(calls) <= n + 1, 'skips-at-most-one', rp, 'more than one number was skipped although only one carries the surface name')
        return 'layers:%d skipped:%d' % (n, len(calls) - n)

    res = sym.explore(h, sym.Ctx(timeout_ms=60000), max_paths=20000)
    return ob.result(name, res)


# ---------------------------------------------------------------------------
# new_dict_key through new_column_name / new_node_name

def task_newkey(which, conv, just, alpha, spaces, nkeys, N):
    M = _load().mulgrids
    name = 'newkey/%s/conv%d/%s/%s/%s/keys%d' % (which, conv, just, alpha, 'spaces' if spaces else 'nospaces', nkeys)
    ob = Ob(name)
    cfg = dict(task='newkey', which=which, conv=conv, just=just, alpha=alpha, spaces=spaces)

    def h(c):
        c.exact_int_digits = True
        g = M.mulgrid(convention=conv)
        chars = the_chars(M, alpha)
        L = g.colname_length
        # new_dict_key has no digit branch: letters under every convention
        cap = sum(len(chars) ** k for k in range(1, L + 1)) if spaces else len(chars) ** L - 1
        keys = [sym_name(c, 'k%d' % q, L, chars=str(chars) + ' ') for q in range(nkeys)]
        for a, b in itertools.combinations(keys, 2): c.add(z3.Not(eq_expr(a, b)))
        d = {}
        for q, k in enumerate(keys): d[k] = q
        istart = c.int('istart', 0, N)
        rp = lambda m: dict(cfg, keys=[model_text(m, k) for k in keys], istart=_mv(m, istart))
        if which == 'column': g.column = d
        else: g.node = d
        fn = g.new_column_name if which == 'column' else g.new_node_name
        try:
            nm, i = fn(istart, justfn_of(M, just), chars, spaces)
        except M.NamingConventionError:
            # every number from istart+1 up to the capacity must be taken
            ob.prove(c, istart.e + 1 + nkeys > cap, 'error-only-when-exhausted', rp,
                     'naming error although an unused name of the convention length exists after istart')
            return 'exhausted'
        except Exception as ex:
            ob.fail(c, 'unexpected-exception', rp, 'raised %s: %s' % (type(ex).__name__, ex))
            return 'exception'
        ob.prove(c, len(nm) == L, 'length', rp, 'new name has the wrong length')
        ob.prove(c, z3.And(*[z3.Not(eq_expr(nm, k)) for k in keys] + [z3.BoolVal(True)]), 'unused', rp, 'returned key is already in the dictionary')
        ie = i.e if isinstance(i, SInt) else z3.IntVal(i)
        ob.prove(c, z3.And(ie > istart.e, ie <= istart.e + nkeys + 1), 'index-range', rp,
                 'returned index is not in (istart, istart + len(d) + 1]')
        again = justfn_of(M, just)(M.int_to_chars(i, chars=chars, spaces=spaces, length=L), L)
        ob.prove(c, eq_expr(again, nm), 'name-of-returned-index', rp, 'returned name is not the name of the returned index')
        if len(ob.samples) < 1:
            ob.samples.append(dict(task=name, keys=[repr(k) for k in keys], new=repr(nm)[:120]))
        return 'new'

    res = sym.explore(h, sym.Ctx(timeout_ms=60000), max_paths=20000)
    return ob.result(name, res)


# ---------------------------------------------------------------------------
# fix / unfix / valid

def task_fix(check):
    M = _load().mulgrids
    name = 'fix/' + check
    ob = Ob(name)
    witnesses = []

    def h(c):
        c.exact_int_digits = True
        wide = check == 'valid'
        n = sym_name(c, 'n', 5, 0 if wide else 32, 127 if wide else 126)
        nc = [x.code for x in n.cells]
        rp = lambda m: dict(task='fix', check=check, codes=model_codes(m, n))
        try:
            if check == 'fix':
                f1 = M.fix_blockname(n)
                f2 = M.fix_blockname(f1)
                ob.prove(c, eq_expr(f2, f1), 'idempotent', rp, 'fix_blockname(fix_blockname(n)) != fix_blockname(n)')
                ob.prove(c, codes_equal(f1, fix_oracle(nc)), 'definition', rp,
                         'fix_blockname differs from: blank in column 4 between two digits becomes 0, nothing else changes')
                ob.prove(c, len(f1) == 5, 'length', rp, 'fixed name is not five characters')
            elif check == 'unfix':
                u = M.unfix_blockname(n)
                ob.prove(c, codes_equal(u, unfix_oracle(nc)), 'definition', rp,
                         'unfix_blockname differs from the (a3, i2) print form of the name')
                u2 = M.unfix_blockname(u)
                ob.prove(c, eq_expr(u2, u), 'idempotent', rp, 'unfix_blockname is not idempotent')
            elif check == 'print':
                # names the simulator can hold as (a3, i2): gate = independent definition of a valid
                # block name (valid_blockname itself is compared with it in check 'valid')
                u = M.unfix_blockname(M.fix_blockname(n))
                ob.prove(c, z3.Implies(valid_oracle(nc), codes_equal(u, print_form(nc))), 'print-form', rp,
                         'unfix(fix(n)) is not the name as the simulator prints it (a3, i2)')
                if c.solve(valid_oracle(nc), full=True)[0] == 'sat': witnesses.append(1)
            elif check == 'cycle':
                x1 = M.fix_blockname(M.unfix_blockname(n))
                x2 = M.fix_blockname(M.unfix_blockname(x1))
                ob.prove(c, eq_expr(x2, x1), 'stable-after-one-cycle', rp,
                         'a second write-then-read cycle changes the name again')
                ob.prove(c, len(x1) == 5, 'length', rp, 'name is not five characters after a cycle')
            elif check == 'fixunfixfix':
                f1 = M.fix_blockname(n)
                f3 = M.fix_blockname(M.unfix_blockname(f1))
                exc = z3.And(z3.Not(is_digit(nc[2])), nc[3] == 48, is_digit(nc[4]))
                ob.prove(c, eq_expr(f3, f1) == z3.Not(exc), 'fix-unfix-fix', rp,
                         'fix(unfix(fix(n))) == fix(n) fails outside (or holds inside) the class: third character not a digit, "0" in column 4, digit in column 5')
            elif check == 'valid':
                v = M.valid_blockname(n)
                ve = v.e if isinstance(v, SBool) else z3.BoolVal(bool(v))
                ob.prove(c, ve == valid_oracle(nc), 'valid-definition', rp,
                         'valid_blockname differs from: three characters of letters/digits/blank/punctuation, digit or blank, digit')
        except Exception as ex:
            ob.fail(c, 'unexpected-exception', rp, 'raised %s: %s' % (type(ex).__name__, ex))
            return 'exception'
        if len(ob.samples) < 1:
            ob.samples.append(dict(task=name, name=repr(n)))
        return 'checked'

    res = sym.explore(h, sym.Ctx(timeout_ms=60000), max_paths=20000)
    tr = ob.result(name, res, extra=dict(valid_name_witness_paths=len(witnesses)))
    if check == 'print' and not witnesses and not tr.get('error'):
        tr['error'] = 'vacuous: no path admits a valid block name'
    return tr


def task_mapping(m_entries, values='any'):
    """fix_block_mapping on a mapping of symbolic names (keys distinct, and
    distinct after repair - two keys that denote the same block make the
    mapping contradictory).  values='clean': the values need no repair (fewer
    paths, used for the largest mapping)."""
    M = _load().mulgrids
    name = 'mapping/entries%d/values-%s' % (m_entries, values)
    ob = Ob(name)

    def h(c):
        ks = [sym_name(c, 'k%d' % q, 5) for q in range(m_entries)]
        vs = [sym_name(c, 'v%d' % q, 5) for q in range(m_entries)]
        fk = [fix_oracle([x.code for x in k.cells]) for k in ks]
        fv = [fix_oracle([x.code for x in v.cells]) for v in vs]
        if values == 'clean':
            for v in vs:
                vc = [x.code for x in v.cells]
                c.add(z3.Not(z3.And(is_digit(vc[2]), is_digit(vc[4]), vc[3] == 32)))
        for a, b in itertools.combinations(range(m_entries), 2):
            c.add(z3.Not(eq_expr(ks[a], ks[b])))
            c.add(z3.Or(*[x != y for x, y in zip(fk[a], fk[b])]))
        bm = {}
        for k, v in zip(ks, vs): bm[k] = v
        rp = lambda m: dict(task='mapping', items=[[model_text(m, k), model_text(m, v)] for k, v in zip(ks, vs)])
        try:
            M.fix_block_mapping(bm)
        except Exception as ex:
            ob.fail(c, 'unexpected-exception', rp, 'raised %s: %s' % (type(ex).__name__, ex))
            return 'exception'
        items = list(bm.items())
        ob.prove(c, len(items) == m_entries, 'size', rp, 'fix_block_mapping changed the number of entries')
        if len(items) != m_entries: return 'size'
        # every original entry is found under its repaired key with its repaired value
        for q in range(m_entries):
            alts = [z3.And(codes_equal(k2, fk[q]), codes_equal(v2, fv[q])) for k2, v2 in items]
            ob.prove(c, z3.Or(*alts), 'entry-%d-repaired' % q, rp,
                     'an entry (k, v) is not found as (fix(k), fix(v)) afterwards')
        for q, (k2, v2) in enumerate(items):
            kc = [code_of(x) for x in cells_of(k2)]; vc = [code_of(x) for x in cells_of(v2)]
            ob.prove(c, z3.And(codes_equal(k2, fix_oracle(kc)), codes_equal(v2, fix_oracle(vc))), 'all-repaired', rp,
                     'a key or value is still unrepaired afterwards')
        if len(ob.samples) < 1: ob.samples.append(dict(task=name, keys=[repr(k) for k in ks]))
        return 'checked'

    res = sym.explore(h, sym.Ctx(timeout_ms=60000), max_paths=40000)
    return ob.result(name, res)


def task_uniq(n):
    M = _load().mulgrids
    name = 'uniq/len%d' % n
    ob = Ob(name)

    def h(c):
        s = sym_name(c, 's', n, chars=ascii_lowercase + ascii_uppercase)
        sc = [x.code for x in s.cells]
        rp = lambda m: dict(task='uniq', text=model_text(m, s))
        try:
            u = M.uniqstring(s)
        except Exception as ex:
            ob.fail(c, 'unexpected-exception', rp, 'raised %s: %s' % (type(ex).__name__, ex))
            return 'exception'
        uc = [code_of(x) for x in cells_of(u)]
        pairs = [a != b for a, b in itertools.combinations(uc, 2)]
        ob.prove(c, z3.And(*pairs) if pairs else z3.BoolVal(True), 'distinct', rp, 'uniqstring result has a repeated character')
        ob.prove(c, z3.And(*[z3.Or(*[a == b for b in uc]) for a in sc]), 'keeps-every-character', rp, 'uniqstring lost a character')
        ob.prove(c, z3.And(*[z3.Or(*[a == b for b in sc]) for a in uc] + [z3.BoolVal(True)]), 'adds-nothing', rp, 'uniqstring invented a character')
        # order of first occurrence: u[k] is the first character of s not among u[0..k)
        order = []
        for k, a in enumerate(uc):
            # position of first occurrence of a in s is increasing in k
            order.append(a)
        firsts = []
        for a in uc:
            pos = z3.IntVal(n)
            for q in range(n - 1, -1, -1): pos = z3.If(sc[q] == a, q, pos)
            firsts.append(pos)
        ob.prove(c, z3.And(*[x < y for x, y in zip(firsts, firsts[1:])] + [z3.BoolVal(True)]), 'first-occurrence-order', rp,
                 'uniqstring does not keep the order of first occurrence')
        return 'len%d' % len(uc)

    res = sym.explore(h, sym.Ctx(timeout_ms=60000), max_paths=20000)
    return ob.result(name, res)


# ---------------------------------------------------------------------------
# model validation: symbolic names evaluated at concrete numbers == real concrete call

def validate_symbolic_names(rep, N):
    M = _load().mulgrids
    n = bad = 0
    samples = [0, 1, 2, 9, 10, 11, 25, 26, 27, 51, 52, 53, 99, 100, 101, 675, 676, 677, 701, 702, 703, 728, 999, 1000,
               1208, 1209, 1210, 2703, 2704, 2756, 17575, 17576, 17577, 18277, 18278, 18279, 19999, 20000]
    for kind, conv, just, alpha, spaces in [('column', 0, 'r', 'lower', True), ('column', 3, 'l', 'upper', False),
                                            ('column', 1, 'r', 'lower', True), ('node', 2, 'r', 'lower', True),
                                            ('layer', 0, 'l', 'lower', True), ('layer', 1, 'r', 'letters52', True),
                                            ('layer', 2, 'l', 'scrambled', False), ('layer', 3, 'r', 'abc', True)]:
        paths = []
        iv = z3.Int('i')
        def h(c):
            c.exact_int_digits = True
            g = M.mulgrid(convention=conv)
            i = c.int('i', 0, N)
            try: nm = getattr(g, kind + '_name_from_number')(i, justfn_of(M, just), the_chars(M, alpha), spaces)
            except M.NamingConventionError: nm = None
            paths.append((list(c.pc), nm))
        sym.explore(h, sym.Ctx(), max_paths=200, profile_repo=False)
        g = M.mulgrid(convention=conv)
        for v in samples:
            if v > N: continue
            try: want = getattr(g, kind + '_name_from_number')(v, justfn_of(M, just), M.uniqstring(ALPHABETS[alpha]), spaces)
            except M.NamingConventionError: want = None
            got = '<no path>'
            for pc, nm in paths:
                sv = z3.Solver(); sv.add(*pc); sv.add(iv == v)
                if sv.check() == z3.sat:         # the path taken by number v (paths partition the range)
                    if nm is None: got = None
                    else:
                        got = ''.join(x if isinstance(x, str) else
                                      chr(z3.simplify(z3.substitute(x.code, (iv, z3.IntVal(v)))).as_long()) for x in cells_of(nm))
                    break
            n += 1
            if got != want:
                bad += 1
                rep.harness_error('symbolic name model: %s conv %d %s %s spaces=%s number %d: real %r, symbolic %r' % (
                    kind, conv, just, alpha, spaces, v, want, got))
    rep.validated(n)
    return n, bad


# ---------------------------------------------------------------------------

def validate_add_layers_120(rep):
    """Concrete traces (model validation, not a deciding step): the real
    add_layers with 120 thicknesses gives exactly the names of the first
    numbers whose name is not the surface layer name, as the symbolic tasks
    predict."""
    M = _load().mulgrids
    n = 0
    for conv in range(4):
        for alpha in ('lower', 'upper', 'letters52', 'abc', 'atm'):
            for just in ('r', 'l'):
                for spaces in (True, False):
                    chars = M.uniqstring(ALPHABETS[alpha])
                    g = M.mulgrid(convention=conv)
                    ref = M.mulgrid(convention=conv)
                    try:
                        g.add_layers([1.0] * 120, 0.0, just, chars, spaces)
                    except M.NamingConventionError:
                        names = None
                    else:
                        names = [l.name for l in g.layerlist]
                    surface = [' 0', 'atm', 'at', ' 0'][conv]
                    want, k = [surface], 0
                    try:
                        while len(want) < 121:
                            k += 1
                            nm = ref.layer_name_from_number(k, justfn_of(M, just), chars, spaces)
                            if nm != surface: want.append(nm)
                    except M.NamingConventionError:
                        want = None
                    n += 1
                    if names != want or (names is not None and len(set(names)) != 121):
                        rep.harness_error('add_layers(120) conv %d %s %s spaces=%s: real names differ from the prediction / not distinct' % (conv, alpha, just, spaces))
    rep.validated(n)
    return n


def crosshair_start():
    """Second engine (thorough tier): CrossHair on fix_blockname idempotence,
    the one C17 obligation it was measured to confirm over all paths."""
    import os, subprocess, sys
    here = os.path.dirname(os.path.abspath(__file__))
    env = dict(os.environ, PYTHONPATH=os.environ.get('PYTOUGH_REPO', '/repo'))
    try:
        return subprocess.Popen([sys.executable, '-W', 'ignore', '-m', 'crosshair', 'check', '--per_condition_timeout', '240',
                                 '--report_all', os.path.join(here, 'c17_crosshair.py')],
                                stdout=subprocess.PIPE, stderr=subprocess.STDOUT, text=True, env=env, cwd=here)
    except Exception as ex:
        return 'not started: %s' % ex


def crosshair_collect(proc, rep):
    if isinstance(proc, str):
        rep.extra['second_engine'] = dict(engine='CrossHair', result=proc); return
    try:
        out, _ = proc.communicate(timeout=400)
    except Exception:
        proc.kill(); out = 'timeout'
    lines = [l for l in out.splitlines() if 'c17_crosshair.py' in l]
    confirmed = [l for l in lines if 'Confirmed over all paths' in l]
    errors = [l for l in lines if ': error:' in l]
    rep.extra['second_engine'] = dict(engine='CrossHair 0.0.110', contract='fix_blockname(fix_blockname(n)) == fix_blockname(n), len(n) == 5, printable ASCII',
                                      confirmed_over_all_paths=len(confirmed), counterexamples=errors[:3],
                                      not_confirmed=[l for l in lines if 'Not confirmed' in l][:3] or ([] if confirmed or errors else [out[-300:]]))
    symx_found = any(f['key'].startswith('fix/fix/idempotent') for r in rep.results for f in r.get('failures', []))
    if errors and symx_found:
        rep.extra['second_engine']['agreement'] = 'both engines report a counterexample to fix idempotence'
    elif errors:
        rep.harness_error('second engine disagrees (CrossHair counterexample while symx proved the obligation): %s' % errors[0][:300])
    elif confirmed:
        rep.validated(len(confirmed))


def gen_configs(tier):
    alphas = ['lower', 'upper', 'letters52', 'abc'] + (['scrambled', 'dups', 'atm'] if tier == 'thorough' else [])
    out = []
    for kind in ('column', 'node', 'layer'):
        for conv in range(4):
            if digits_kind(kind, conv):
                # alphabet and spaces are not used; justification only by the layer generator
                for just in (('r', 'l') if kind == 'layer' else ('r',)):
                    out.append((kind, conv, just, 'lower', True))
                continue
            for just in ('r', 'l'):
                for alpha in alphas:
                    for spaces in (True, False):
                        out.append((kind, conv, just, alpha, spaces))
    # character sets as the real rectangular() prepares them (case folding + uniqstring)
    for kind, conv, just, alpha, spaces in [('column', 0, 'r', 'letters52^u', True), ('node', 0, 'l', 'letters52^l', False),
                                            ('column', 3, 'r', 'wxyz2^u', True), ('node', 3, 'r', 'wxyz2^l', False)]:
        out.append((kind, conv, just, alpha, spaces))
    # one-letter sets without spaces: only number 0 has a name, explicit naming error otherwise
    # (one letter WITH spaces is left to the rectangular tasks: number i is the letter repeated i times, built with recursion depth i)
    for kind, conv, just, alpha, spaces in [('column', 0, 'r', 'one', False), ('node', 0, 'r', 'oneboth^l', False), ('column', 3, 'l', 'oneboth^u', False),
                                            ('layer', 1, 'r', 'one', False), ('layer', 2, 'l', 'one', False), ('layer', 3, 'r', 'one', False)]:
        out.append((kind, conv, just, alpha, spaces))
    if tier == 'thorough':
        for kind in ('column', 'node'):
            for conv in (0, 3):
                for just in ('r', 'l'):
                    for alpha in ('letters52^u', 'letters52^l', 'wxyz2^u', 'wxyz2^l', 'dups^u'):
                        for spaces in (True, False):
                            if (kind, conv, just, alpha, spaces) not in out: out.append((kind, conv, just, alpha, spaces))
    return out


def run(tier, seed, rep):
    _load()
    N = NMAX[tier]
    tasks = []
    gens = gen_configs(tier)
    if tier == 'quick':
        # node_name_from_number shares its body with column_name_from_number: one alphabet for nodes in the quick tier
        gens = [g for g in gens if not (g[0] == 'node' and g[3] not in ('lower',) and '^' not in g[3])]
    for g in gens:
        tasks.append((task_gen, dict(kind=g[0], conv=g[1], just=g[2], alpha=g[3], spaces=g[4], N=N)))
    rt_alphas = ['lower', 'letters52', 'abc'] if tier == 'quick' else ['lower', 'upper', 'letters52', 'abc', 'scrambled', 'atm']
    for conv in range(4):
        for just in ('r', 'l'):
            for alpha in rt_alphas:
                for spaces in (True, False):
                    tasks.append((task_roundtrip, dict(conv=conv, just=just, alpha=alpha, spaces=spaces, atmos=2, pair='underground', N=N)))
                    tasks.append((task_roundtrip, dict(conv=conv, just=just, alpha=alpha, spaces=spaces, atmos=1, pair='atm-per-column', N=N)))
        tasks.append((task_roundtrip, dict(conv=conv, just='r', alpha='lower', spaces=True, atmos=0, pair='atm-single', N=N)))
    nwin = 6 if tier == 'quick' else 8
    nabs = 12 if tier == 'quick' else 32
    # (with a symbolic offset the lower-case alphabet already meets the surface layer name: 'atm' is
    #  number 1209 / 506, 'at' is 46 / 19; the 3-letter alphabet 'atm' has deep recursion and is thorough only)
    al_alphas = ['lower'] if tier == 'quick' else ['lower', 'letters52', 'abc', 'atm']
    for conv in range(4):
        for alpha in al_alphas:
            for just in ('r', 'l'):
                for spaces in (True, False):
                    if conv == 0 and (alpha != al_alphas[0] or not spaces): continue
                    if alpha == 'letters52' and just == 'l': continue
                    tasks.append((task_addlayers_offset, dict(conv=conv, just=just, alpha=alpha, spaces=spaces,
                                                              n=5 if alpha == 'letters52' else nwin, N=N)))
        tasks.append((task_addlayers_abstract, dict(conv=conv, n=nabs)))
    for which in ('column', 'node'):
        for conv in ((0, 1) if tier == 'quick' else range(4)):
            for just in ('r', 'l'):
                for spaces in (True, False):
                    for alpha in (['lower'] if tier == 'quick' else ['lower', 'abc']):
                        if tier == 'quick' and which == 'node' and (just == 'l' or conv == 1): continue
                        nkeys = 3 if (tier == 'thorough' and alpha == 'lower' and which == 'column') else 2
                        tasks.append((task_newkey, dict(which=which, conv=conv, just=just, alpha=alpha, spaces=spaces, nkeys=nkeys, N=N)))
    for check in ('fix', 'unfix', 'print', 'cycle', 'fixunfixfix', 'valid'):
        tasks.append((task_fix, dict(check=check)))
    for m in ((3,) if tier == 'quick' else (2, 3, 4)):
        for case in (None, 'u', 'l'):
            for spaces in (True, False):
                for conv in range(4):
                    for just in (('r',) if tier == 'quick' else ('r', 'l')):
                        if m == 4 and (just == 'l' or conv in (1, 2)): continue
                        tasks.append((task_rectangular, dict(m=m, case=case, spaces=spaces, conv=conv, just=just, nx=3)))
    for conv in range(4):
        for nl in (1, 2):
            tasks.append((task_inversion, dict(conv=conv, n=nl)))
    for caller in range(4):
        for conv in range(4):
            tasks.append((task_gmsh, dict(caller=caller, conv=conv, m=3, spaces=True, just='r')))
            if caller == conv or tier == 'thorough':
                tasks.append((task_gmsh, dict(caller=caller, conv=conv, m=2, spaces=False, just='l')))
    for conv in range(4):
        tasks.append((task_layermesh, dict(conv=conv, m=3, spaces=True, just='r')))
        tasks.append((task_layermesh, dict(conv=conv, m=2, spaces=False, just='l')))
    for m in (1, 2):
        tasks.append((task_mapping, dict(m_entries=m)))
    if tier == 'thorough':
        tasks.append((task_mapping, dict(m_entries=3, values='clean')))
    for n in ((1, 2, 3, 4) if tier == 'quick' else (1, 2, 3, 4, 5, 6)):
        tasks.append((task_uniq, dict(n=n)))

    nval, bad = validate_symbolic_names(rep, N)
    n120 = validate_add_layers_120(rep)
    import random
    order = list(range(len(tasks)))
    random.Random(seed).shuffle(order)
    # long tasks first (better packing), seed only permutes within equal weight
    weight = lambda t: 0 if t[0] is task_addlayers_abstract else 1 if t[0] in (task_addlayers_offset, task_mapping, task_newkey) else 2
    order.sort(key=lambda k: weight(tasks[k]))
    ch = crosshair_start() if tier == 'thorough' else None
    results = report.run_tasks([tasks[k] for k in order])
    rep.add_results(results)
    if ch is not None: crosshair_collect(ch, rep)

    rep.bounds += [
        'generator numbers i, j symbolic in [0, %d] (every capacity limit is crossed: 99, 999, 26+26^2(+26^3), 26^2-1, 26^3-1, 3+9(+27); 52-letter capacities only in the thorough tier)' % N,
        'conventions 0-3 x column/node/layer generator x right/left justification x alphabets %s x spaces allowed / not allowed' % sorted(set(g[3] for g in gens)),
        'round trip: layer and column numbers symbolic in [0, %d]; atmosphere type 0 (single atmosphere column name), 1 (surface layer x every column), 2' % N,
        'add_layers: window of %d layers (52 letters: 5) with the numbering shifted by a symbolic offset in [0, %d] (offset 0 = real behaviour); abstract injective generator for %d layers' % (nwin, N, nabs),
        'new_column_name / new_node_name: dictionary of 2 %ssymbolic keys over alphabet+blank, start index symbolic in [0, %d]' % ('(new_column_name, lower case: 3) ' if tier == 'thorough' else '', N),
        'fix / unfix / cycle: all five-character names over printable ASCII 32..126 (superset of letters, digits, blank); valid_blockname over codes 0..127',
        'fix_block_mapping: mappings of 1 and 2 entries of such names' + (', 3 entries whose values need no repair' if tier == 'thorough' else ''),
        'uniqstring: strings of up to %d letters' % (4 if tier == 'quick' else 6),
        'rectangular end to end: 3 x 1 x 2 grid, atmosphere type 1, symbolic custom character set of %s letters over a-zA-Z (repeats and both cases allowed), '
        'case None/u/l, spaces allowed or not, conventions 0-3; and the generator tasks on the sets rectangular() really passes on for '
        'ascii_letters / wWxXyYzZ%s with case u / l' % ('3' if tier == 'quick' else '2, 3, 4', '' if tier == 'quick' else ' / abracadabra'),
        'inversion: geometries of 1 x 1 and 2 x 2 layers x columns whose layer and column names are ANY names of the convention length over letters, digits '
        'and blanks (symbolic), conventions 0-3: block name of (last layer, last column) is the repaired concatenation, column_name / layer_name give back '
        'the column and layer it was built from, also when block_name() repaired the name (keys inversion/conv<c>/repaired-name/<layer,column>-part)',
        'from_gmsh end to end: mesh of 2 quadrilaterals / 6 nodes, 2 layers, atmosphere type 2, every pair (convention of the calling object, convention of the '
        'new geometry), symbolic custom character set of 3 letters (spaces, right justified) and 2 letters (no spaces, left justified; quick: equal conventions only)',
        'from_layermesh end to end: duck-typed mesh of the same 2 columns / 6 nodes / 2 layers, conventions 0-3, symbolic custom character set of 3 letters '
        '(spaces, right justified) and 2 letters (no spaces, left justified), repeats and both cases allowed',
        'layer counts beyond the add_layers windows (up to 120) only by composition: numbers strictly increase (decided for the windows) + generator injectivity on [0, N] (decided); '
        '%d concrete 120-layer runs of the real add_layers agree with the prediction (validation, not a deciding step)' % n120,
    ]
    rep.outside += [
        'alphabets containing digits, blanks or punctuation (the quantifier says alphabetic); names read from files',
        'block names of geometries as a whole (mulgrid.rectangular end to end): block-name distinctness follows by composition of the '
        'round trip (names determine layer and column), generator injectivity and add_layers distinctness, each decided separately',
        'non-ASCII characters (str.isdigit is true for some of them)',
        'the print form of names whose last two characters are not [digit or blank][digit] (not printable as (a3, i2))',
        'fix(unfix(fix(n))) == fix(n) as written in DESIGN.md does NOT hold in general and is not what the property text says; '
        'decided instead: it holds exactly outside the class {third char not a digit, "0" in column 4, digit in column 5}, '
        'and write-then-read (fix after unfix) is stable after one cycle for every name',
    ]
    rep.assumptions += [
        'alphabet passed to the generators has distinct characters: decided for rectangular() on symbolic sets (rectangular/*/charset-distinct) and, for the '
        "'X^u'/'X^l' alphabets, taken from an execution of the real rectangular(); for the plain catalogue alphabets the harness applies the real uniqstring itself "
        '(add_layers and from_gmsh call uniqstring directly before use)',

        'chars[k %% n] on a concrete alphabet and a symbolic index is the exact piecewise-linear/ite term over the alphabet (vx.strs.IxStr); '
        "str(i) / '%%2d' %% i of a non-negative symbolic integer are its decimal digits (fork per digit count); both validated against the real functions on "
        '%d boundary numbers at the start of every run' % nval,
        'int() of two cells that are digits on the path is 10*d1+d0',
        'add_layers (offset variant): layer_name_from_number(num) is called as layer_name_from_number(base + num) with base symbolic; base = 0 is the shipped behaviour',
        'add_layers (abstract variant): the name generator returns distinct constant tokens except that one symbolic number K (or none) carries the surface layer name; '
        'this represents every injective generator because add_layers only compares names for equality; injectivity is the lemma proved by the gen tasks',
        'fix_block_mapping: keys are distinct and stay distinct after repair (two keys for the same block make the mapping contradictory)',
        'inversion tasks: layer names pairwise different, column names pairwise different, and the block names of the geometry pairwise different '
        "(layers ' 1' and '01' on a column ending in a digit give one block name twice; no inversion can separate them)",
        'dictionary keys of new_column_name/new_node_name have the convention length and consist of alphabet characters and blanks',
    ]
    rep.functions.update(['mulgrids.py:int_to_chars', 'mulgrids.py:new_dict_key', 'mulgrids.py:uniqstring', 'mulgrids.py:fix_blockname',
                          'mulgrids.py:unfix_blockname', 'mulgrids.py:fix_block_mapping', 'mulgrids.py:valid_blockname',
                          'mulgrids.py:block_name', 'mulgrids.py:column_name', 'mulgrids.py:layer_name',
                          'mulgrids.py:node_col_name_from_number', 'mulgrids.py:column_name_from_number',
                          'mulgrids.py:node_name_from_number', 'mulgrids.py:layer_name_from_number',
                          'mulgrids.py:new_node_name', 'mulgrids.py:new_column_name', 'mulgrids.py:add_layers',
                          'mulgrids.py:set_secondary_variables', 'mulgrids.py:rectangular', 'mulgrids.py:from_gmsh', 'mulgrids.py:from_layermesh'])
    rep.process_failures()
    return rep.finish(rule='one obligation per (task shape, path, label): path condition AND NOT(obligation) must be unsat; '
                      'distinct = non-constant formulas deduplicated by (label, z3 AST hash) per task')
