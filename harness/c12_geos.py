"""Concrete geometry catalogue for C12, shared by the symbolic harness
(harness/C12.py, reloaded modules) and the concrete replay (replay_C12.py,
real modules).  No z3 here.

A *spec* is a plain-python description (floats, strings) of a geometry:
  dict(convention, atmos_type,
       nodes=[(name, x, y)], columns=[(name, [node names], centre|None, surface|None)],
       connections=[(col1, col2)], layers=[(name, bottom, centre)])
`build(mg, spec)` turns a spec into a mulgrid using the classes of module `mg`
(the reloaded/shadowed copy in the harness, the real module in the replay).
`make_spec(mg, name)` produces the spec of a catalogue entry using module `mg`
for the concrete pre-pass (real rectangular()/rotate()/read()/reduce()).
"""
import os

REPO = os.environ.get('PYTOUGH_REPO', '/repo')

# name -> description (kept small: the symbolic point makes every column cost paths)
CATALOGUE = {
    'rect33':  dict(kind='rect', rotate=0.0),
    'rot37':   dict(kind='rect', rotate=37.0),
    'mix5':    dict(kind='mix5'),
    # sub-meshes of shipped geometries: breadth-first neighbourhood of a seed column, cut with the real reduce()
    'g2sub':   dict(kind='file', file='tests/mulgrid/g2.dat', seed='ngr'),   # refinement transition: 5 triangles, areas 1:32, 12 surfaces
    'g5sub':   dict(kind='file', file='tests/mulgrid/g5.dat', seed='aar'),   # rotated quadrilaterals, areas 1:4
    'g7sub':   dict(kind='file', file='tests/mulgrid/g7.dat', seed=' cs'),   # triangles and quadrilaterals
    # piece of the ROUNDED outer boundary of g2: 5 boundary nodes at which the boundary turns by only 1.3 .. 2.2 degrees
    # (1 - cos = 2.7e-4 .. 7.7e-4), chord slivers 15 .. 24 m high on columns of ~1900 m
    'g2arc':   dict(kind='file', file='tests/mulgrid/g2.dat', seed='inb'),
    # tiny grids for column_track
    'rect22':  dict(kind='rectsmall', dx=[1.0, 3.0], dy=[2.0, 1.5]),
    'rect31':  dict(kind='rectsmall', dx=[1.0, 2.5, 0.75], dy=[2.0]),
    # column sizes 1 .. 100 next to each other (integer coordinates) for oblique tracks
    'rect3c':  dict(kind='rectsmall', dx=[1.0, 10.0, 100.0], dy=[2.0, 20.0]),
    # an L-shaped (NON-CONVEX, 6 nodes) column with a square column sitting in its notch and a pentagon beside them
    'notch3':  dict(kind='notch3'),
}

RECT_DX = [1.0, 10.0, 100.0]      # column sizes 2 .. 20000: three orders of magnitude and more
RECT_DY = [2.0, 20.0, 200.0]
RECT_DZ = [10.0, 20.0, 30.0]
# surfaces strictly inside a layer, on a layer boundary, above the top of the model
RECT_SURF = {0: -4.0, 2: -10.0, 4: -17.5, 5: 3.0, 7: -35.0}

MIX_NODES = [('  a', 0.0, 0.0), ('  b', 4.0, 0.0), ('  c', 9.0, 0.5), ('  d', 0.0, 3.0), ('  e', 4.0, 3.5),
             ('  f', 9.5, 4.0), ('  g', 0.5, 7.0), ('  h', 3.0, 8.0), ('  i', 6.5, 7.5), ('  j', 12.0, 1.5)]
# 2 quadrilaterals, 2 triangles, 1 pentagon
MIX_COLS = [('  a', ['  a', '  b', '  e', '  d']),
            ('  b', ['  b', '  c', '  f', '  e']),
            ('  c', ['  d', '  e', '  g']),
            ('  d', ['  c', '  j', '  f']),
            ('  e', ['  e', '  f', '  i', '  h', '  g'])]
MIX_CONS = [('  a', '  b'), ('  a', '  c'), ('  b', '  d'), ('  b', '  e'), ('  c', '  e')]
MIX_SURF = {1: -3.0, 2: -12.5, 4: 2.0}

NOTCH_NODES = [('  a', 0.0, 0.0), ('  b', 4.0, 0.0), ('  c', 7.0, 0.0), ('  d', 4.0, 2.0), ('  e', 2.0, 2.0),
               ('  f', 0.0, 4.0), ('  g', 2.0, 4.0), ('  h', 4.0, 4.0), ('  i', 7.0, 4.0)]
NOTCH_COLS = [('  a', ['  a', '  b', '  d', '  e', '  g', '  f']),     # L-shaped: reflex vertex at node e
              ('  b', ['  e', '  d', '  h', '  g']),                   # the square in the notch
              ('  c', ['  b', '  c', '  i', '  h', '  d'])]            # pentagon (node d lies on its straight left side)
NOTCH_CONS = [('  a', '  b'), ('  a', '  c'), ('  b', '  c')]


def _dump(geo):
    """mulgrid -> spec (concrete numbers)."""
    def f(v): return None if v is None else float(v)
    return dict(
        convention=int(geo.convention), atmos_type=int(geo.atmosphere_type),
        nodes=[(n.name, float(n.pos[0]), float(n.pos[1])) for n in geo.nodelist],
        columns=[(c.name, [n.name for n in c.node],
                  # the centre actually held by the column (rotate() turns centres, it does not recompute them)
                  [float(c.centre[0]), float(c.centre[1])],
                  None if c.default_surface else f(c.surface)) for c in geo.columnlist],
        connections=[(con.column[0].name, con.column[1].name) for con in geo.connectionlist],
        layers=[(l.name, float(l.bottom), float(l.centre)) for l in geo.layerlist])


def bfs_columns(geo, seed, n):
    """n columns around the seed column, by breadth-first search over the
    neighbour relation (deterministic: neighbours visited in name order)."""
    start = geo.column[seed]
    order, seen = [start], {start.name}
    i = 0
    while i < len(order) and len(order) < n:
        for nb in sorted(order[i].neighbour, key=lambda c: c.name):
            if nb.name not in seen and len(order) < n:
                seen.add(nb.name); order.append(nb)
        i += 1
    return order


def make_spec(mg, name, ncols=None):
    d = CATALOGUE[name]
    seed = d.get('seed')
    np = mg.np
    if d['kind'] == 'rect':
        geo = mg.mulgrid().rectangular(RECT_DX, RECT_DY, RECT_DZ, atmos_type=2)
        for i, s in RECT_SURF.items():
            col = geo.columnlist[i]
            col.surface = s
            geo.set_column_num_layers(col)
        if d['rotate']:
            geo.rotate(d['rotate'])
        geo.setup_block_name_index(); geo.setup_block_connection_name_index()
        return _dump(geo)
    if d['kind'] == 'rectsmall':
        geo = mg.mulgrid().rectangular(d['dx'], d['dy'], [1.0], atmos_type=2)
        return _dump(geo)
    if d['kind'] == 'mix5':
        return dict(convention=0, atmos_type=1,
                    nodes=list(MIX_NODES),
                    columns=[(n, list(nn), None, MIX_SURF.get(i)) for i, (n, nn) in enumerate(MIX_COLS)],
                    connections=list(MIX_CONS),
                    layers=[(' 0', 0.0, 0.0), (' 1', -5.0, -2.5), (' 2', -15.0, -10.0), (' 3', -20.0, -17.5)])
    if d['kind'] == 'notch3':
        return dict(convention=0, atmos_type=2,
                    nodes=list(NOTCH_NODES),
                    columns=[(n, list(nn), None, None) for (n, nn) in NOTCH_COLS],
                    connections=list(NOTCH_CONS),
                    layers=[(' 0', 0.0, 0.0), (' 1', -1.0, -0.5)])
    if d['kind'] == 'file':
        geo = mg.mulgrid(os.path.join(REPO, d['file']))
        cols = bfs_columns(geo, seed, ncols)
        geo.reduce(cols)
        return _dump(geo)
    raise KeyError(name)


def build(mg, spec):
    """spec -> mulgrid, built with the classes of module mg the way
    mulgrid.read() assembles a geometry."""
    np = mg.np
    geo = mg.mulgrid(convention=spec['convention'], atmos_type=spec['atmos_type'])
    geo.empty()
    for name, x, y in spec['nodes']:
        geo.add_node(mg.node(name, np.array([x, y])))
    for name, nodenames, centre, surface in spec['columns']:
        nodes = [geo.node[n] for n in nodenames]
        if centre is not None: centre = np.array(list(centre))
        geo.add_column(mg.column(name, nodes, centre))
    for c1, c2 in spec['connections']:
        geo.add_connection(mg.connection([geo.column[c1], geo.column[c2]]))
    geo.identify_neighbours()
    for name, bottom, centre in spec['layers']:
        lay = mg.layer(name, bottom)
        geo.add_layer(lay)
        lay.centre = centre
    geo.identify_layer_tops()
    geo.set_default_surface()
    for name, nodenames, centre, surface in spec['columns']:
        if surface is not None:
            col = geo.column[name]
            col.surface = surface
            geo.set_column_num_layers(col)
    geo.setup_block_name_index()
    geo.setup_block_connection_name_index()
    return geo


def apply_ops(mg, geo, ops):
    """Apply a list of in-place transformations to a live geometry object with the
    REAL methods of module mg: ('rotate', angle[, centre]) / ('translate', [dx, dy, dz])."""
    for op in ops:
        if op[0] == 'rotate':
            geo.rotate(op[1], centre=list(op[2]) if len(op) > 2 and op[2] is not None else None)
        elif op[0] == 'translate':
            geo.translate(mg.np.array([float(v) for v in op[1]]))
        else:
            raise KeyError(op[0])
    return geo


def spec_after(mg, spec, ops):
    """spec of the geometry obtained from `spec` by the ops (concrete; fresh object, never queried)."""
    return _dump(apply_ops(mg, build(mg, spec), ops))


# ---------------------------------------------------------------------------
# independent concrete containment oracle (exact rationals) for the replay

def polygon_of(spec, colname):
    pos = {n: (x, y) for n, x, y in spec['nodes']}
    for name, nodenames, centre, surface in spec['columns']:
        if name == colname: return [pos[n] for n in nodenames]
    raise KeyError(colname)


def winding_contains(poly, x, y):
    """Exact winding-number test (Fractions): True if strictly inside, None on the boundary."""
    from fractions import Fraction as F
    x, y = F(x), F(y)
    wn = 0
    n = len(poly)
    for i in range(n):
        x1, y1 = F(poly[i][0]), F(poly[i][1])
        x2, y2 = F(poly[(i + 1) % n][0]), F(poly[(i + 1) % n][1])
        cross = (x2 - x1) * (y - y1) - (x - x1) * (y2 - y1)
        if cross == 0 and min(x1, x2) <= x <= max(x1, x2) and min(y1, y2) <= y <= max(y1, y2):
            return None
        if y1 <= y:
            if y2 > y and cross > 0: wn += 1
        else:
            if y2 <= y and cross < 0: wn -= 1
    return wn != 0
