"""C01 - TOUGH2 data file write/read round trip.

The REAL t2data.write / t2data.read (reloaded from /repo) run on in-memory
files.  A model is built directly as an object graph whose numeric fields,
option digits and (some) names are symbolic; the shape (which sections, list
lengths, flavour, mesh in file / MESH file, extra precision) is enumerated.
Obligations: the re-read object equals the written one section by section (to
the digits the field carries), the second write equals the first up to
trailing blanks, and a third cycle reproduces the second exactly.
"""
import os
import itertools
import z3
from fractions import Fraction
from vx import sym, strs, loader, report, vfs as vfsmod
from vx.sym import SReal, SInt, SBool
from vx.strs import SStr, SChar

PID = 'C01'
_LD = None
class NormVFS(vfsmod.VFS):
    """one file, however its path is spelled ('Model.dat', './Model.dat')"""
    def open(self, name, mode='r', *a, **kw):
        return vfsmod.VFS.open(self, os.path.normpath(name) if isinstance(name, str) else name, mode, *a, **kw)
    def exists(self, name):
        return vfsmod.VFS.exists(self, os.path.normpath(name) if isinstance(name, str) else name)


def xp_name(fname):
    """oracle: the companion file of data file fname (same directory, same base name, extension
    in the case of the base name's first letter)"""
    d, f = os.path.split(os.path.normpath(fname))
    base = os.path.splitext(f)[0]
    return os.path.join(d, base + ('.PDAT' if base[0].isupper() else '.pdat'))


def _load():
    global _LD
    if _LD is None:
        fs = NormVFS()
        _LD = (loader.load(['t2data'], vfs=fs), fs)
    return _LD

LO, HI = Fraction(1, 10 ** 90), Fraction(10 ** 90)


class B(object):
    """Builder of symbolic field values (all renderings are assumed to fit:
    the quantifier's 'values that fit their fields'; C02 decides the rest)."""
    def __init__(self, c, spec, xspec):
        self.c, self.spec, self.xspec = c, spec, xspec
        self.n = 0
        self.formats = {}
        self.dual = []         # reals printed at two precisions (main file and extra-precision file)

    def real(self, kind, w, p, positive=False, formats=None, nonneg=False, nonzero=False):
        self.n += 1
        v = self.c.real('r%d' % self.n)
        if nonneg: self.c.add(v.e >= 0)
        if nonzero: self.c.add(v.e != 0)
        a = z3.If(v.e >= 0, v.e, -v.e)
        self.c.add(z3.Or(v.e == 0, z3.And(a >= z3.RealVal(LO), a <= z3.RealVal(HI))) if not positive
                   else z3.And(v.e >= z3.RealVal(LO), v.e <= z3.RealVal(HI)))
        if formats and formats[0][0] == kind and formats[0][2] != p:
            lo_, hi_ = sorted([(p, w), (formats[0][2], formats[0][1])])
            self.dual.append((v, kind, lo_[0], hi_[0]))
        for (k, ww, pp) in [(kind, w, p)] + list(formats or []):
            r = strs.rounded_value(k, pp, v.e)
            self.c.add(strs.natural_length(k, pp, v.e, r) <= ww)
            if k == 'f':
                # a negative value that prints as -0.00.. re-reads as IEEE -0.0: outside the real-arithmetic model
                self.c.add(z3.Not(z3.And(v.e < 0, r == 0)))
        return v

    def int(self, w, lo=0, hi=None):
        self.n += 1
        return self.c.int('i%d' % self.n, lo, 10 ** w - 1 if hi is None else hi)

    def record(self, rec, skip=(), xp=False, positive=()):
        """dict of symbolic values for the named fields of record kind rec
        (string fields are left out: the caller sets them)."""
        names, fmts = (self.xspec if xp and rec in self.xspec else self.spec)[rec]
        other = self.spec[rec][1] if (rec in self.xspec) else None
        out = {}
        for i, (nm, f) in enumerate(zip(names, fmts)):
            if not nm or nm in skip or f[-1] in 'sx': continue
            typ = f[-1]
            w, _, p = f[:-1].partition('.')
            w = abs(int(w)); p = int(p) if p else 0
            if typ in 'ef':
                extra = []
                if rec in self.xspec:
                    # the value may be printed in the main file AND in the extra-precision file
                    f2 = (self.spec if xp else self.xspec)[rec][1][i]
                    w2, _, p2 = f2[:-1].partition('.')
                    extra = [(f2[-1], abs(int(w2)), int(p2) if p2 else 0)]
                out[nm] = self.real(typ, w, p, positive=nm in positive, formats=extra)
            elif typ == 'd':
                out[nm] = self.int(w)
        return out

    def digit(self, name):
        return self.c.int(name, 0, 9)

    first_nonzero = True
    def some_nonzero(self, xs):
        # np.any(more_option) looks at the digits one by one: with the first digit
        # non-zero there is nothing to fork on (the general case - any one digit
        # non-zero - is the separate small shape t2-momop)
        if self.first_nonzero: self.c.add(sym.lift_int(xs[0]) != 0)
        else: self.c.add(z3.Or(*[sym.lift_int(m) != 0 for m in xs]))

    def name(self, base, pattern, previous):
        nm = sym_name(self.c, base, pattern)
        if isinstance(nm, SStr) and len(pattern) == 5 and previous is not None:
            for prev in previous:
                self.c.add(z3.Not(z3.And(*[x == y for x, y in zip(fixed_name(codes_of(nm)), fixed_name(codes_of(prev)))])))
        return nm

    def reals(self, n, kind, w, p, formats=None):
        return [self.real(kind, w, p, formats=formats) for _ in range(n)]


def sym_name(c, base, pattern):
    """pattern: string over 'L' (letter), 'U' (upper-case letter), 'V' (upper-case letter or blank),
    'D' (digit), 'B' (digit or blank), or a literal char"""
    cells = []
    for k, ch in enumerate(pattern):
        if ch in 'LDBUV':
            e = z3.Int('%s.%d' % (base, k))
            if ch == 'L': c.add(z3.Or(z3.And(e >= 65, e <= 90), z3.And(e >= 97, e <= 122)))
            elif ch == 'U': c.add(z3.And(e >= 65, e <= 90))
            elif ch == 'V': c.add(z3.Or(z3.And(e >= 65, e <= 90), e == 32))
            elif ch == 'D': c.add(z3.And(e >= 48, e <= 57))
            else: c.add(z3.Or(z3.And(e >= 48, e <= 57), e == 32))
            cells.append(SChar(e))
        else: cells.append(ch)
    return strs._mk(cells)


def codes_of(s):
    return [strs.cell_code(x) for x in (s.cells if isinstance(s, SStr) else list(s))]

def fixed_name(codes):
    """oracle: the form a block name has in memory after one write/read:
    repaired form of what the simulator prints ((A3,I2): '0' in column 4 printed
    as blank when columns 4-5 are digits; blank between digits repaired to '0')."""
    out = list(codes)
    dig = lambda e: z3.And(e >= 48, e <= 57)
    printed3 = z3.If(z3.And(dig(out[3]), dig(out[4]), out[3] == 48), z3.IntVal(32), out[3])
    out[3] = z3.If(z3.And(dig(out[2]), dig(out[4]), printed3 == 32), z3.IntVal(48), printed3)
    return out


class Cmp(object):
    """Collects obligations comparing the written model with the re-read one."""
    def __init__(self, c, ob):
        self.c, self.ob = c, ob

    def is_int(self, x): return isinstance(x, (int, SInt)) and not isinstance(x, bool)
    def is_text(self, x): return isinstance(x, (str, SStr))

    def real(self, a, b, where, exact=False):
        if a is None or b is None:
            self.ob(a is None and b is None, '%s: absent value stays absent' % where); return
        if not isinstance(b, SReal) and not isinstance(b, (int, float)):
            self.ob(False, '%s: real expected, got %s' % (where, type(b).__name__)); return
        if not isinstance(a, (SReal, SInt)):
            ae = sym.lift_real(a)
        else: ae = sym.lift_real(a)
        be = sym.lift_real(b)
        if exact:
            self.ob(be == ae, '%s: identical value' % where); return
        alts = [be == strs.Rfunc(k, p)(ae) for (k, p) in FORMATS] + [be == ae]
        self.ob(z3.Or(*alts), '%s: equals the printed digits' % where)

    def int(self, a, b, where, zero_is_none=False):
        if zero_is_none:
            # the reader turns 0 into None for sequence numbers
            if a is None:
                self.ob(b is None, '%s: absent stays absent' % where); return
            if b is None:
                self.ob(sym.lift_int(a) == 0, '%s: only zero reads as absent' % where); return
        if a is None or b is None:
            self.ob(a is None and b is None, '%s: absent integer stays absent' % where); return
        if isinstance(b, (SReal,)) or isinstance(b, (str, SStr)):
            self.ob(False, '%s: integer expected' % where); return
        self.ob(sym.lift_int(b) == sym.lift_int(a), '%s: same integer' % where)

    def text(self, a, b, where, strip=True, name=False):
        if a is None or b is None:
            self.ob(a is None and b is None, '%s: absent text stays absent' % where); return
        if not isinstance(b, (str, SStr)):
            self.ob(False, '%s: text expected' % where); return
        if name:
            ca, cb = codes_of(a), codes_of(b)
            if len(ca) != 5 or len(cb) != 5:
                self.ob(False, '%s: 5-character name expected' % where); return
            self.ob(z3.And(*[x == y for x, y in zip(cb, fixed_name(ca))]), '%s: same name (repaired form)' % where); return
        if strip == 'both': a2, b2 = a.strip(), b.strip(); r = (a2 == b2)
        elif strip:
            a2, b2 = a.rstrip(), b.rstrip()
            r = (a2 == b2)
        else: r = (a == b)
        self.ob(r, '%s: same text' % where)

    def reals(self, A, B, where, exact=False):
        A = list(A) if A is not None else None
        B = list(B) if B is not None else None
        if A is None or B is None:
            self.ob(A is None and B is None, '%s: absent list stays absent' % where); return
        self.ob(len(A) == len(B), '%s: same number of entries (%d)' % (where, len(A)))
        if len(A) == len(B):
            for i, (a, b) in enumerate(zip(A, B)): self.real(a, b, '%s[%d]' % (where, i), exact)


from harness.c01_model import FORMATS, build as model_build, compare, add_sections, grid_info, fortran_files


class Dig(object):
    """symbolic digit / sign cells for the Fortran-style writer of c01_model"""
    def __call__(self, name, n, first_nonzero):
        return [strs.dom_char('fd.%s.%d' % (name, k), '123456789' if (k == 0 and first_nonzero) else '0123456789') for k in range(n)]
    def sign(self, name):
        return strs.dom_char('fd.%s' % name, ' -')


def fortran_value(spec):
    """oracle (independent of the engine's reader): sign * digits * 10**exp"""
    n = len(spec['digits'])
    M = z3.Sum(*[(strs.cell_code(cc) - 48) * 10 ** (n - 1 - i) for i, cc in enumerate(spec['digits'])]) if n > 1 else strs.cell_code(spec['digits'][0]) - 48
    v = z3.ToReal(M) * z3.RealVal(Fraction(10) ** spec['exp'])
    if spec['sign'] is not None: v = z3.If(strs.cell_code(spec['sign']) == 45, -v, v)
    return v


def same_sections(ob, before, after, where):
    """the sections an object had when it was read are the sections of the object read from the
    file it wrote (before: _sections noted before write() touched them)"""
    for s in sorted(set(before) ^ set(after)):
        ob(False, '%ssections %s: %s by writing and reading' % (where, s, 'lost' if s in before else 'added'))
    ob(list(before) == list(after), '%ssections: same sections in the same order %r vs %r' % (where, before, after))


def rstrip_line(l):
    """python str or SStr -> (cells without trailing blanks / newline)"""
    cells = list(l) if isinstance(l, str) else list(l.cells)
    while cells and isinstance(cells[-1], str) and cells[-1] in ' \n': cells.pop()
    # symbolic trailing cells (token padding never trails: numbers are right justified)
    return cells


def sections_equal(f1, f2, keywords):
    """[(label, formula)]: equality up to trailing blanks of two data files, one obligation per
    section (lines grouped by the keyword lines of the first file)"""
    if len(f1) != len(f2): return [('lines', z3.BoolVal(False))]
    groups, cur = [], ['title', []]
    for a, b in zip(f1, f2):
        if isinstance(a, str) and a[:5].strip() in keywords and not (cur[0] == 'SHORT' and a[:5] in ('ELEME', 'CONNE', 'GENER')):
            groups.append(cur); cur = [a[:5].strip(), []]
        cur[1].append((a, b))
    groups.append(cur)
    return [(k, files_equal([a for a, _ in ls], [b for _, b in ls], True)) for k, ls in groups if ls]


def files_equal(f1, f2, upto_blanks):
    if len(f1) != len(f2): return z3.BoolVal(False)
    parts = []
    for a, b in zip(f1, f2):
        if upto_blanks: ca, cb = rstrip_line(a), rstrip_line(b)
        else: ca, cb = list(a) if isinstance(a, str) else list(a.cells), list(b) if isinstance(b, str) else list(b.cells)
        if len(ca) != len(cb): return z3.BoolVal(False)
        for x, y in zip(ca, cb):
            r = strs.cells_equal(x, y)
            if r is False: return z3.BoolVal(False)
            if r is True: continue
            parts.append(r)
    return z3.And(*parts) if parts else z3.BoolVal(True)


def task_shape(shape, second=0, seed=0):
    ld, fs = _load()
    T = ld.t2data
    failures, samples, distinct = [], [], set()
    tag = shape['tag']

    def h(c):
        fs.files.clear()
        b = B(c, T.t2data_format_specification, T.t2data_extra_precision_format_specification)
        b.first_nonzero = not shape.get('momop_general')
        fortran = shape.get('kind') == 'fortran'
        if fortran: dat, info = None, {}
        else: dat, info = model_build(b, T, ld.t2grids, ld.mulgrids.np, shape)
        info['provider'] = b
        exact_var = None
        if shape.get('xp') and shape.get('echo', True):
            # A value echoed in the main file (7 or fewer decimals) AND written to the
            # extra-precision file (8 decimals) is re-read from the latter, so the main
            # file of the next write holds R_low(R_8(v)): double rounding.  It is decided
            # on one designated value with an exact decimal rounding model (restricted to
            # the decade [1,10) so that it is linear) and assumed away for the others.
            for (v, kind, plo, phi) in b.dual:
                Rlo, Rhi = strs.Rfunc(kind, plo), strs.Rfunc(kind, phi)
                if exact_var is None and kind == 'e' and shape.get('exact_dr'):
                    exact_var = (v, Rlo, Rhi)
                    # exact decimal rounding of one value in [1,10): v = (K + f) / 10^phi with an
                    # integer K and a fraction f kept clear of 0, 1/2 and 1 (a witness within
                    # 1e-100 of a tie would not survive the conversion to a double)
                    K, f = z3.Int('dr.K'), z3.Real('dr.f')
                    D = 10 ** (phi - plo)
                    c.add(z3.And(K >= 10 ** phi, K < 10 ** (phi + 1)))
                    c.add(z3.Or(z3.And(f >= z3.RealVal(Fraction(1, 1000)), f <= z3.RealVal(Fraction(499, 1000))),
                                z3.And(f >= z3.RealVal(Fraction(501, 1000)), f <= z3.RealVal(Fraction(999, 1000)))))
                    c.add(v.e == (z3.ToReal(K) + f) / 10 ** phi)
                    K2 = K + z3.If(f > z3.RealVal(Fraction(1, 2)), 1, 0)
                    c.add(Rhi(v.e) == z3.ToReal(K2) / 10 ** phi)
                    c.add(Rlo(v.e) == z3.ToReal((K + D // 2) / D) / 10 ** plo)
                    c.add(Rlo(Rhi(v.e)) == z3.ToReal((K2 + D // 2) / D) / 10 ** plo)
                else:
                    c.add(Rlo(Rhi(v.e)) == Rlo(v.e))
        r0, _ = c.reachable()
        if r0 != 'sat':
            c.prove(False, 'preconditions satisfiable (vacuity)'); return 'vacuous'
        meshfile = 'MESH' if shape.get('meshfile') else ''
        kw = {}
        if shape.get('xp'): kw = dict(extra_precision=shape.get('xp_sections', True), echo_extra_precision=shape.get('echo', True))

        pending = []
        def ob(f, label):
            """queue an obligation; flush() proves the queue in one query and
            only looks at the obligations one by one if that query is not unsat"""
            if isinstance(f, SBool): f = f.e
            if isinstance(f, bool): f = z3.BoolVal(f)
            f = z3.simplify(f)
            if not (z3.is_true(f) or z3.is_false(f)): distinct.add((label, f.hash()))
            pending.append((f, label))

        def flush():
            n0 = len(c.failures)
            c.prove_all(pending)
            del pending[:]
            for fl in c.failures[n0:]:
                label = fl['label']
                key = '%s/%s' % (tag, label.split(':')[0][:70])
                what = '%s [%s]' % (label, tag)
                if exact_var is not None and label.startswith('rewrite'):
                    v, Rlo, Rhi = exact_var
                    r2, _ = c.solve(z3.And(z3.Not(fl['formula']), Rlo(Rhi(v.e)) == Rlo(v.e)))
                    if r2 == 'unsat':
                        key = 'rewrite/xp-echo-double-rounding'
                        what = 'extra precision echoed: a value is printed with 8 decimals in the .pdat file and fewer in the main file; after a read the main file of the next write can differ in the last digit'
                if label.startswith('sections-listed'): what = '%s [%s]' % (label.split(' (missing')[0], tag)
                failures.append(dict(key=key, what=what, replay=dict(shape=shape, model=model_dump(fl['model']))))

        def model_dump(m):
            out = {}
            for d in m.decls():
                if d.arity() == 0:
                    v = sym.model_value(m, d())
                    out[d.name()] = v
            return out

        class Raised(Exception): pass
        def guarded(what, fn):
            """a write or read that raises on a valid model is a failed obligation"""
            try: return fn()
            except sym.EngineAbort: raise
            except Exception as ex:
                r, m = c.reachable()
                c.prove(False, 'exception: %s raised %s' % (what, type(ex).__name__))
                if r == 'sat': c.failures[-1]['model'] = m
                fl = c.failures[-1]
                failures.append(dict(key='%s/exception-%s-%s' % (tag, what.replace(' ', '-'), type(ex).__name__),
                                     what='%s raised %s: %s [%s]' % (what, type(ex).__name__, str(ex)[:100], tag),
                                     replay=dict(shape=shape, model=model_dump(fl['model']))))
                raise Raised()
        try:
            if fortran: return body_fortran(ob, flush, guarded)
            return body(dat, info, meshfile, kw, ob, flush, guarded, model_dump)
        except Raised:
            return 'checked'

    def body(dat, info, meshfile, kw, ob, flush, guarded, model_dump):
        c = sym.ctx()
        b = info['provider']
        F1 = shape.get('fname', 'm1.dat')          # name the first file is written under
        R1 = shape.get('read_as', F1)              # spelling of the same path it is read under
        ext, ext_when = shape.get('extend'), shape.get('extend_when', 'read')
        def listed(obj, what):
            # every kind of data the object holds is a section of the file just written
            miss = [s for s in obj.present_sections if s not in obj._sections
                    and not (s in obj.extra_precision and not obj.echo_extra_precision)]
            ob(not miss, 'sections-listed: after %s every kind of data held is a listed section (missing %r)' % (what, miss))
        guarded('first write', lambda: dat.write(F1, meshfile, **kw))
        if ext and ext_when == 'write':
            # the object that has been written is given data of further section kinds and written again
            add_sections(b, T, ld.t2grids, ld.mulgrids.np, dat, shape, ext, grid_info(dat))
            guarded('write after extending', lambda: dat.write(F1, meshfile, **kw))
        listed(dat, 'the first write')
        sections_written = list(dat._sections)
        dat2 = guarded('first read', lambda: T.t2data(R1, meshfile))
        cmp = Cmp(c, ob)
        if not samples:
            samples.append(dict(shape=tag, sections=sections_written, file=[repr(l)[:120] for l in fs.files[F1][:6]]))
        compare(cmp, dat, dat2, shape)
        flush()
        # the re-read object is written as it is: which sections are extra precision and whether
        # they are echoed in the main file is state the reader has to recover from the files
        if shape.get('xp'):
            ob(list(dat2.extra_precision) == list(dat.extra_precision), 'xp-state: extra-precision sections recovered on reading')
            ob(bool(dat2.echo_extra_precision) == bool(dat.echo_extra_precision), 'xp-state: echo flag recovered on reading')
            flush()
        extended = bool(ext and ext_when == 'read')
        sec_read = list(dat2._sections)
        if extended:
            # the object that has been read is given data of further section kinds, then written
            add_sections(b, T, ld.t2grids, ld.mulgrids.np, dat2, shape, ext, grid_info(dat2))
        guarded('second write', lambda: dat2.write('m2.dat', 'MESH2' if meshfile else ''))
        listed(dat2, 'the second write')
        if not extended:
            for k, f in sections_equal(fs.files[F1], fs.files['m2.dat'], T.t2data_sections + ['MESHM']):
                ob(f, 'rewrite %s: second data file equals the first up to trailing blanks' % k)
            if meshfile: ob(files_equal(fs.files['MESH'], fs.files['MESH2'], True), 'rewrite-mesh: second MESH file equals the first up to trailing blanks')
            if shape.get('xp'):
                p1 = xp_name(F1)
                ob(p1 in fs.files, 'xp-name: the companion file is named after the base name of the data file')
                if p1 in fs.files: ob(files_equal(fs.files[p1], fs.files['m2.pdat'], True) if 'm2.pdat' in fs.files else False, 'rewrite-xp: second extra-precision file equals the first')
        if shape.get('cycles', 3) >= 3:
            dat3 = guarded('second read', lambda: T.t2data('m2.dat', 'MESH2' if meshfile else ''))
            flush()
            if not extended: same_sections(ob, sec_read, dat3._sections, 'cycle2 ')
            compare(cmp, dat2, dat3, shape, exact=not extended, where='cycle2 ')
            flush()
            guarded('third write', lambda: dat3.write('m3.dat', 'MESH3' if meshfile else ''))
            ob(files_equal(fs.files['m2.dat'], fs.files['m3.dat'], extended), 'cycle: third data file equals the second' + ('' if extended else ' byte for byte'))
            if meshfile: ob(files_equal(fs.files['MESH2'], fs.files['MESH3'], False), 'cycle-mesh: third MESH file equals the second')
        flush()
        return 'checked'

    def body_fortran(ob, flush, guarded):
        """files printed by an independent Fortran-style writer (symbolic digits) are read with the
        Fortran read functions: every number printed is held by the object; then write / read / write"""
        c = sym.ctx()
        files, V, Gt = fortran_files(Dig(), shape)
        for name, lines in files.items(): fs.files[name] = [strs._mk(l) for l in lines]
        mesh = 'FMESH' if shape.get('meshfile') else ''
        if not samples: samples.append(dict(shape=tag, file=[repr(l)[:100] for l in fs.files['f.dat'][:4]]))
        dat2 = guarded('read of fortran-style files', lambda: T.t2data('f.dat', mesh, read_function=T.fortran_read_function))
        ob(list(dat2._sections) == shape['sections'], 'fortran sections: %r read as %r' % (shape['sections'], dat2._sections))
        for name in V:
            try: got = Gt[name](dat2)
            except Exception: got = None
            if got is None or isinstance(got, (str, SStr)):
                ob(False, 'fortran %s: the number printed is held by the object' % name); continue
            ob(sym.lift_real(got) == fortran_value(V[name]), 'fortran %s: the number printed is held by the object' % name)
        flush()
        cmp = Cmp(c, ob)
        sec_read = list(dat2._sections)
        guarded('write', lambda: dat2.write('m2.dat', 'MESH2' if mesh else ''))
        dat3 = guarded('read', lambda: T.t2data('m2.dat', 'MESH2' if mesh else ''))
        same_sections(ob, sec_read, dat3._sections, 'rewritten ')
        compare(cmp, dat2, dat3, shape, where='rewritten ')
        flush()
        guarded('second write', lambda: dat3.write('m3.dat', 'MESH3' if mesh else ''))
        ob(files_equal(fs.files['m2.dat'], fs.files['m3.dat'], True), 'rewrite: second data file equals the first up to trailing blanks')
        if mesh: ob(files_equal(fs.files['MESH2'], fs.files['MESH3'], True), 'rewrite-mesh: second MESH file equals the first up to trailing blanks')
        flush()
        return 'checked'

    cx = sym.Ctx(timeout_ms=300000)
    cx.second_every, cx.second_offset = second, seed
    res = sym.explore(h, cx, max_paths=600, wall_s=1500)
    tr = report.summarize('shape ' + tag, res, failures, samples, extra=dict(distinct_obligations=len(distinct)))
    if not any(p.outcome == 'checked' for p in res['paths']):
        tr['error'] = 'vacuity: no path reached the obligations: %s' % tr['outcomes']
    return tr


ALL_T2 = ['ROCKS', 'PARAM', 'MOMOP', 'START', 'NOVER', 'RPCAP', 'SOLVR', 'MULTI', 'TIMES', 'SELEC', 'DIFFU',
          'ELEME', 'CONNE', 'MESHM', 'GENER', 'FOFT', 'COFT', 'GOFT', 'INCON', 'INDOM']
ALL_AUT = ['SIMUL', 'ROCKS', 'PARAM', 'START', 'RPCAP', 'LINEQ', 'MULTI', 'TIMES', 'ELEME', 'CONNE', 'GENER', 'SHORT', 'INCON', 'INDOM']


def shapes(tier):
    S = []
    def add(tag, **kw):
        kw['tag'] = tag; S.append(kw)
    # (the DELV well with |LTAB| = 5 has no table lines and is followed by another generator)
    gens3 = [dict(ltab=1), dict(ltab=5, type='DELV', hg=True), dict(ltab=3, enthalpy=True, seq=True)]
    add('t2-whole', sections=ALL_T2, nrock=2, nad=[2, 0], nblocks=3, nincons=5, ntimes=9, nselec_lines=2, nselec=12,
        generators=gens3, meshmaker='xyz', print_block='block2', nincon_vars=3)   # block2 = 'AB1 7', held as 'AB107'
    add('aut-whole', autough2=True, sections=ALL_AUT, nrock=2, nad=[1, 2], nblocks=3, nincons=2, ntimes=8, generators=gens3, nincon_vars=4)
    add('t2-param-timesteps9', sections=['PARAM'], ntimesteps=9, nincons=4)
    add('t2-diffu-3comp-2phase', sections=['PARAM', 'MULTI', 'DIFFU'], ncomp=3, nphase=2)
    add('t2-diffu-2comp-3phase', sections=['PARAM', 'MULTI', 'DIFFU'], ncomp=2, nphase=3)
    add('t2-param-incons-with-gaps', sections=['PARAM'], nincons=6, incon_nones=[1, 3, 4])
    add('t2-meshfile', sections=['ROCKS', 'PARAM', 'ELEME', 'CONNE', 'GENER', 'INCON'], nblocks=3, meshfile=True, generators=[dict(ltab=4, enthalpy=False)])
    add('aut-xp-echo', autough2=True, xp=True, echo=True, sections=['SIMUL', 'ROCKS', 'PARAM', 'RPCAP', 'ELEME', 'CONNE', 'GENER'], nrock=1, nad=[2], nblocks=2,
        generators=[dict(ltab=2, enthalpy=True)])
    add('aut-xp-echo-dr', autough2=True, xp=True, xp_sections=['ROCKS'], echo=True, exact_dr=True, sections=['SIMUL', 'ROCKS'], nrock=1, nad=[0], cycles=2)
    add('aut-xp-noecho', autough2=True, xp=True, echo=False, sections=['SIMUL', 'ROCKS', 'PARAM', 'RPCAP', 'ELEME', 'CONNE', 'GENER'], nrock=1, nad=[1], nblocks=2,
        generators=[dict(ltab=1)])
    add('t2-rz2d', sections=['PARAM', 'MESHM'], meshmaker='rz2d', nradii=3, nlayers=9)
    add('t2-minc', sections=['PARAM', 'MESHM'], meshmaker='minc', nvol=4)
    add('t2-nogrid-history', sections=['PARAM', 'FOFT', 'COFT', 'GOFT'])
    add('t2-momop', sections=['MOMOP'], momop_general=True, cycles=2)
    # round 4 ---------------------------------------------------------------------------------
    # an object that has been read (or written once) is given data of further section kinds
    add('t2-extend-read', sections=['ROCKS', 'PARAM', 'ELEME', 'CONNE'], nblocks=2, ntimes=2, nselec_lines=1, nselec=3, nincon_vars=2,
        generators=[dict(ltab=2, enthalpy=True)], extend=['MOMOP', 'START', 'SOLVR', 'TIMES', 'SELEC', 'GENER', 'FOFT', 'COFT', 'GOFT', 'INCON'])
    add('aut-extend-write', autough2=True, sections=['SIMUL', 'ROCKS', 'PARAM', 'ELEME', 'CONNE'], nblocks=2, ntimes=2, nincon_vars=2,
        generators=[dict(ltab=1)], extend=['LINEQ', 'MULTI', 'TIMES', 'GENER', 'SHORT', 'INCON', 'INDOM'], extend_when='write', short_freq_lo=0)
    # files printed by an independent Fortran-style writer, read with the Fortran read functions
    add('fortran-meshfile', kind='fortran', meshfile=True, sections=['ROCKS', 'PARAM', 'ELEME', 'CONNE'])
    add('fortran-infile', kind='fortran', sections=['ROCKS', 'PARAM', 'ELEME', 'CONNE'])
    add('fortran-momop-nomesh', kind='fortran', momop=True, no_mesh=True, sections=['ROCKS', 'PARAM', 'MOMOP'])
    # None / blank in every optional field (two complementary masks)
    for m in ('even', 'odd'):
        add('t2-nones-' + m, nones=m, sections=['ROCKS', 'PARAM', 'SOLVR', 'MULTI', 'TIMES', 'ELEME', 'CONNE', 'MESHM', 'GENER'], nrock=1, nad=[1], nblocks=2,
            ntimes=2, generators=[dict(ltab=1, hg=True)], meshmaker='xyz', nxyz=2, cycles=2)
        add('aut-nones-' + m, nones=m, autough2=True, sections=['SIMUL', 'ROCKS', 'PARAM', 'LINEQ', 'MULTI', 'ELEME', 'CONNE', 'GENER'], nrock=1, nad=[1], nblocks=2,
            generators=[dict(ltab=1, hg=True)], cycles=2)
    add('t2-none-const-timestep', sections=['PARAM'], const_timestep_none=True, cycles=2)
    add('t2-none-selec-count', sections=['PARAM', 'SELEC'], selec_count_none=True, nselec=0, cycles=2)
    add('t2-xyz-del-blank', sections=['PARAM', 'MESHM'], meshmaker='xyz', nxyz=9, xyz_del_none=True, cycles=2)
    # initial conditions by block name without blocks in the object (mesh from MESHMAKER)
    add('t2-incon-nogrid', sections=['PARAM', 'MESHM', 'INCON'], meshmaker='xyz', nxyz=2, nincon_vars=2)
    # extra precision for a subset of the sections / in another order
    add('aut-xp-eleme-conne', autough2=True, xp=True, xp_sections=['ELEME', 'CONNE'], echo=False, sections=['SIMUL', 'ROCKS', 'PARAM', 'ELEME', 'CONNE'], nrock=1, nad=[0], nblocks=2, cycles=2)
    add('aut-xp-eleme-rocks', autough2=True, xp=True, xp_sections=['ELEME', 'ROCKS'], echo=False, sections=['SIMUL', 'ROCKS', 'PARAM', 'ELEME', 'CONNE'], nrock=1, nad=[0], nblocks=2, cycles=2)
    add('aut-xp-gener', autough2=True, xp=True, xp_sections=['GENER'], echo=True, sections=['SIMUL', 'ROCKS', 'PARAM', 'ELEME', 'CONNE', 'GENER'], nrock=1, nad=[0], nblocks=2,
        generators=[dict(ltab=1)], cycles=2)
    # the companion file is found however the path of the data file is spelled
    add('aut-xp-noecho-Name', autough2=True, xp=True, xp_sections=['ROCKS'], echo=False, sections=['SIMUL', 'ROCKS', 'PARAM'], nrock=1, nad=[0], fname='Model.dat', read_as='./Model.dat', cycles=2)
    # MINC: the text fields with symbolic characters
    add('t2-minc-dual', sections=['PARAM', 'MESHM'], meshmaker='minc', nvol=2, dual_pattern='UUUUV')
    # rock names shorter than the field
    add('t2-short-rockname', sections=['ROCKS', 'PARAM', 'ELEME', 'INDOM'], nrock=1, nad=[0], nblocks=1, rock_names=['SAND'], nindom=2)
    # lists held in numpy arrays
    add('t2-times-array', sections=['PARAM', 'TIMES'], ntimes=3, ntimesteps=3, arrays=True, cycles=2)
    if tier == 'thorough':
        add('t2-extend-write', sections=['ROCKS', 'PARAM', 'ELEME', 'CONNE'], nblocks=2, ntimes=9, nselec_lines=1, nselec=3, nincon_vars=3, extend_when='write',
            generators=[dict(ltab=5, enthalpy=True)], extend=['NOVER', 'RPCAP', 'MULTI', 'DIFFU', 'TIMES', 'SELEC', 'MESHM', 'GENER', 'FOFT', 'INCON', 'INDOM'], meshmaker='rz2d')
        add('aut-extend-read', autough2=True, sections=['SIMUL', 'ROCKS', 'PARAM', 'ELEME', 'CONNE'], nblocks=3, ntimes=2, nincon_vars=2,
            generators=[dict(ltab=1), dict(ltab=3)], extend=['START', 'RPCAP', 'LINEQ', 'MULTI', 'TIMES', 'GENER', 'SHORT', 'INCON', 'INDOM'])
        for n in (0, 1, 3, 4, 5, 7, 8, 9, 12, 13):
            add('t2-lists-%d' % n, sections=['PARAM', 'TIMES', 'MULTI', 'SELEC'], nincons=min(n, 12), ntimes=max(n, 1), ntimesteps=n,
                nselec_lines=max(1, (n + 7) // 8), nselec=max(n, 1))
        for lt in range(1, 13):
            for enth in (False, True):
                add('t2-gener-%d%s' % (lt, 'h' if enth else ''), sections=['PARAM', 'ROCKS', 'ELEME', 'GENER'], nblocks=1,
                    generators=[dict(ltab=lt, enthalpy=enth), dict(ltab=-lt if lt > 1 else 1, enthalpy=enth, seq=True)], cycles=2)
        for sec in ALL_T2:
            if sec in ('PARAM',): continue
            need = ['PARAM', sec]
            if sec in ('ELEME', 'CONNE', 'GENER', 'INCON', 'FOFT', 'COFT', 'GOFT'): need = ['PARAM', 'ROCKS', 'ELEME', 'CONNE', sec]
            if sec == 'DIFFU': need = ['PARAM', 'MULTI', 'DIFFU']
            add('t2-alone-' + sec, sections=sorted(set(need), key=ALL_T2.index), nblocks=2, meshmaker='xyz', nxyz=9)
        add('aut-meshfile-short', autough2=True, sections=['SIMUL', 'ROCKS', 'PARAM', 'ELEME', 'CONNE', 'GENER', 'INCON'], nblocks=2, meshfile=True)
        add('t2-names', sections=['ROCKS', 'PARAM', 'ELEME', 'CONNE', 'INCON', 'FOFT'], nblocks=3, name_patterns=['LLDBD', 'LDDBD', 'LLLDD'], print_block='block0')
        for nad in (0, 1, 2):
            add('aut-xp-rocks-nad%d' % nad, autough2=True, xp=True, xp_sections=['ROCKS'], echo=False, sections=['SIMUL', 'ROCKS', 'PARAM'], nrock=2, nad=[nad, 0])
    return S


def run(tier, seed, rep):
    _load()
    sh = shapes(tier)
    if os.environ.get('C01_ONLY'): sh = [s for s in sh if os.environ['C01_ONLY'] in s['tag']]   # development aid
    tasks = [(task_shape, dict(shape=s, second=40 if tier == 'thorough' else 0, seed=seed)) for s in sh]
    rep.add_results(report.run_tasks(tasks))
    rep.bounds += ['%d shapes (see per_task): whole TOUGH2 / AUTOUGH2 models, mesh in file / in a MESH file, extra precision echoed / not echoed, meshmaker xyz / rz2d / minc, history requests with and without a grid%s' % (
        len(sh), '; thorough: list lengths 0..13 for every 4- and 8-per-line list, table generators with 1..12 times with / without enthalpy, every section alone' if tier == 'thorough' else ''),
        'every real field, MOP digit, integer field symbolic; <=3 blocks, <=2 rock types, <=3 generators; up to 3 block names with symbolic characters',
        'extra precision echoed: double rounding between the two renderings of one value is decided on one designated value in [1,10) with an exact decimal rounding model and assumed away for the others', 'reals: 0 or 1e-90 <= |v| <= 1e90, renderings assumed to fit their fields (in every format the value is printed with)',
        'round 4: objects read / written once and then given data of 10 (TOUGH2) / 7 (AUTOUGH2) further section kinds; None in every optional field of the records built from the format tables (two complementary masks, other fields symbolic), blank DELTEN, blank SELEC line count, blank XYZ DEL with increments; INCON by name without blocks; extra precision for [ELEME, CONNE], [ELEME, ROCKS], [GENER]; data file written as Model.dat and read as ./Model.dat; MINC dual with symbolic characters; a 4-character rock name with INDOM; times / time steps in numpy arrays',
        'round 4: files of an independent Fortran-style writer (0.ddddD+ee / E / F fields with symbolic mantissa digits, one symbolic sign, concrete exponents; mesh in file / in a MESH file; MOMOP with 21 symbolic digits and no ELEME / CONNE) read with fortran_read_function, then written, read and written']
    rep.outside += ['values in %f fields that print as -0.00.. (IEEE negative zero)', 'binary MESHA/MESHB pair (struct / numpy record arrays: C boundary)', 'shipped data files and an independent Fortran-style writer as inputs (concrete)',
                    'IEEE rounding of %e; -0.0', 'names with punctuation', 'ordered pairs of sections beyond those in the listed shapes',
                    'block centres with only some of the three coordinates given', 'a companion .pdat file left on disk by an earlier write of another model; reading into an object that already holds data',
                    'exponent digits of Fortran-style numbers (concrete), Fortran-style .pdat files']
    rep.assumptions += ['printf contract and token-read model of vx/strs.py', 'in-memory file stub replaces open()/os.path.exists()',
                        'a re-read real equals R_fmt(v) for one of the formats used in the tables (which field carries which precision is decided per record by C02)',
                        'oracle: a field left None whose default in the object is 0.0 (PARAM tstart, const_timestep, gravity; ROCKS compressibility, expansivity, dry_conductivity, tortuosity) reads back as 0.0; any other None reads back as None; SHORT frequency / sequence numbers 0 read back as None; names shorter than their field are equal up to padding']
    rep.process_failures()
    return rep.finish(rule='one obligation per (shape, path, compared field) plus file equalities; distinct by z3 AST hash')
