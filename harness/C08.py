"""C08 - TOUGH2 grid stays internally consistent under any sequence of edits.

Inductive step (DESIGN.md 3 "State is constructed directly", 4/C08): for every
*shape* of pre-state (<=4 blocks in list order, any set of oriented block
pairs as connections, <=2 registered rock types, any rock assignment in the
catalogue) a t2grid satisfying the consistency invariant I is built directly
from the real classes with SYMBOLIC, pairwise distinct block and rock-type
names; ONE real edit operation runs with symbolic arguments (free names: the
solver decides whether they alias an existing name - real dict/set lookups
fork on ==); then every clause of I is handed to z3 on that path.

I:  dict and list hold the same objects, names unique, every object filed
    under its current name; every connection joins two blocks of the grid and
    is filed under the pair of their current names; blk.connection_name is
    exactly the set of keys of the connections that mention blk; every
    block's rock type is an object registered in the grid.
"""
import contextlib
import io
import os
import itertools
import z3
from fractions import Fraction
from vx import sym, strs, loader, report
from vx.sym import SReal, SInt, SBool
from vx.strs import SStr, SChar
from harness import gridsym as G
from harness.gridsym import eqf, zb, z_and, z_or, z_not, name_value, num_value

PID = 'C08'

_LD = None
def _load():
    global _LD
    if _LD is None:
        _LD = loader.load(['t2grids', 't2data'])
    return _LD


# ---------------------------------------------------------------------------
# helpers

def _alias_index(m, q, names):
    """index of the pre-state name that q equals in model m, else None."""
    qv = name_value(m, q)
    for i, n in enumerate(names):
        if name_value(m, n) == qv: return i
    return None


def _connected(sh, i):
    return any(i in pr for pr in sh['cons'])


def fixed_form(s):
    """symbolic fix_blockname(s) without forking (used only to STATE the
    precondition on rename maps when fix_blocknames=True)."""
    if isinstance(s, str):
        if s[2].isdigit() and s[4].isdigit() and s[3] == ' ': return s[:3] + '0' + s[4:]
        return s
    code = [strs.cell_code(x) for x in s.cells]
    dig = lambda e: z3.And(e >= 48, e <= 57)
    cond = z3.And(dig(code[2]), dig(code[4]), code[3] == 32)
    cells = list(s.cells)
    cells[3] = SChar(z3.If(cond, z3.IntVal(48), code[3]))
    return SStr(cells)


# ---------------------------------------------------------------------------
# operations.  Each creates its symbolic arguments and returns
#   dict(run=callable doing the ONE real edit, klass=fn(model, group)->input-class string,
#        args=fn(model)->jsonable concrete arguments for the replay,
#        [grids=callable->[(tag, grid)] if the grid to check is not the pre-state object],
#        [extra=callable->[(group, label, value)] additional obligations], [outcome=callable->str])

def op_add_block(c, T, p, o):
    q = G.mkname(c, 'q', o['alpha']); qv = c.real('qv')
    rk = o.get('rock', 0); qr = None
    if rk == 'fresh':        # a rock type object the grid has never seen; its name is free (may alias a registered name)
        qr = G.mkname(c, 'qr', o['alpha'])
        blk = T.t2block(q, qv, T.rocktype(qr))
    elif rk == 'default':    # t2block(name, volume): the constructor's own default rock type object ('dfalt')
        blk = T.t2block(q, qv)
        # a concrete str does not meet the constant-hash symbolic keys in a real dict: the aliasing case
        # (registered name == new rock's name) is covered by rock='fresh', here it is assumed away
        for n in p.rnames: G.assume_distinct(c, n, 'dfalt')
    else:
        blk = T.t2block(q, qv, p.rocks[rk])
    def klass(m, group=None):
        i = _alias_index(m, q, p.bnames)
        kl = 'new-name' if i is None else ('name-exists-connected' if _connected(p.shape, i) else 'name-exists-unconnected')
        if rk in ('fresh', 'default'):
            rn = name_value(m, qr) if qr is not None else 'dfalt'
            kl += ',rock-unregistered-%s' % ('name-registered' if rn in [name_value(m, n) for n in p.rnames] else 'name-new')
        return kl
    return dict(run=lambda: p.g.add_block(blk), klass=klass,
                args=lambda m: dict(name=name_value(m, q), volume=num_value(m, qv), rock=rk,
                                    rockname=None if qr is None else name_value(m, qr)))


def op_delete_block(c, T, p, o):
    q = G.mkname(c, 'q', o['alpha'])
    def klass(m, group=None):
        i = _alias_index(m, q, p.bnames)
        if i is None: return 'absent'
        return 'existing-self-connected' if [i, i] in [list(x) for x in p.shape['cons']] else 'existing'
    return dict(run=lambda: p.g.delete_block(q), klass=klass,
                args=lambda m: dict(name=name_value(m, q)))


def op_delete_readd_block(c, T, p, o):
    """Two steps: delete a block, then add the SAME block object again (the object
    keeps whatever records delete_block left on it)."""
    q = G.mkname(c, 'q', o['alpha'])
    def run():
        blk = p.g.block[q] if q in p.g.block else None
        p.g.delete_block(q)
        if blk is not None: p.g.add_block(blk)
    def klass(m, group=None):
        i = _alias_index(m, q, p.bnames)
        if i is None: return 'absent'
        return 'existing-self-connected' if [i, i] in [list(x) for x in p.shape['cons']] else 'existing'
    return dict(run=run, klass=klass,
                args=lambda m: dict(name=name_value(m, q)))


def op_add_connection(c, T, p, o):
    i, j = o['pair']
    if o.get('foreign'):
        # second block: a block object that is NOT in the grid; its name is free (it may be the name of a
        # grid block - a same-named copy - or a name the grid does not have)
        qf = G.mkname(c, 'qf', o['alpha'])
        fb = T.t2block(qf, c.real('qfv'), p.rocks[0])
        blks = [p.blocks[i], fb] if o['foreign'] == 2 else [fb, p.blocks[i]]
        con = T.t2connection(blks)
        def klass(m, group=None):
            k_ = _alias_index(m, qf, p.bnames)
            return 'block-not-in-grid,' + ('name-new' if k_ is None else 'name-of-grid-block')
        return dict(run=lambda: p.g.add_connection(con), klass=klass,
                    args=lambda m: dict(pair=[i, j], foreign=o['foreign'], fname=name_value(m, qf)))
    con = T.t2connection([p.blocks[i], p.blocks[j]])
    cons = [tuple(x) for x in p.shape['cons']]
    k = 'same-orientation-exists' if (i, j) in cons else ('reverse-exists' if (j, i) in cons else 'new-pair')
    if i == j: k += ',self-connection'
    return dict(run=lambda: p.g.add_connection(con), klass=lambda m, group=None: k, args=lambda m: dict(pair=[i, j]))


def op_delete_connection(c, T, p, o):
    q1 = G.mkname(c, 'q1', o['alpha']); q2 = G.mkname(c, 'q2', o['alpha'])
    def klass(m, group=None):
        a, b = _alias_index(m, q1, p.bnames), _alias_index(m, q2, p.bnames)
        cons = [tuple(x) for x in p.shape['cons']]
        if (a, b) in cons: return 'existing-self-connection' if a == b else 'existing'
        if (b, a) in cons: return 'reverse-of-existing'
        return 'absent'
    return dict(run=lambda: p.g.delete_connection((q1, q2)), klass=klass,
                args=lambda m: dict(names=[name_value(m, q1), name_value(m, q2)]))


def _rock_used(p, i):
    return i in p.shape['brock'][:p.shape['nb']]


def op_add_rocktype(c, T, p, o):
    q = G.mkname(c, 'q', o['alpha'])
    rt = T.rocktype(q)
    def klass(m, group=None):
        i = _alias_index(m, q, p.rnames)
        if i is None: return 'new-name'
        return 'name-exists-used' if _rock_used(p, i) else 'name-exists-unused'
    return dict(run=lambda: p.g.add_rocktype(rt), klass=klass, args=lambda m: dict(name=name_value(m, q)))


def op_delete_rocktype(c, T, p, o):
    q = G.mkname(c, 'q', o['alpha'])
    def klass(m, group=None):
        i = _alias_index(m, q, p.rnames)
        if i is None: return 'absent'
        return 'used' if _rock_used(p, i) else 'unused'
    return dict(run=lambda: p.g.delete_rocktype(q), klass=klass, args=lambda m: dict(name=name_value(m, q)))


def op_rename_rocktype(c, T, p, o):
    q1 = G.mkname(c, 'q1', o['alpha']); q2 = G.mkname(c, 'q2', o['alpha'])
    def klass(m, group=None):
        a, b = _alias_index(m, q1, p.rnames), _alias_index(m, q2, p.rnames)
        return ('source-absent' if a is None else 'source-exists') + ',' + \
               ('target-new' if b is None else ('target-is-source' if a == b else 'target-exists'))
    return dict(run=lambda: p.g.rename_rocktype(q1, q2), klass=klass,
                args=lambda m: dict(names=[name_value(m, q1), name_value(m, q2)]))


def op_clean_rocktypes(c, T, p, o):
    return dict(run=lambda: p.g.clean_rocktypes(), klass=lambda m, group=None: 'any', args=lambda m: dict())


def op_demote_block(c, T, p, o):
    if o.get('mode', 'single') == 'single':
        qs = [G.mkname(c, 'q', o['alpha'])]
        run = lambda: p.g.demote_block(qs[0])
    else:
        qs = [G.mkname(c, 'q1', o['alpha']), G.mkname(c, 'q2', o['alpha'])]
        run = lambda: p.g.demote_block(list(qs))
    def klass(m, group=None):
        return ','.join('absent' if _alias_index(m, q, p.bnames) is None else 'existing' for q in qs)
    return dict(run=run, klass=klass,
                args=lambda m: dict(names=[name_value(m, q) for q in qs], mode=o.get('mode', 'single')))


def op_reorder(c, T, p, o):
    bn = None if o.get('perm') is None else [p.bnames[i] for i in o['perm']]
    cn = None
    if o.get('cons') is not None:
        cn = []
        for k, rev in o['cons']:
            i, j = p.shape['cons'][k]
            cn.append((p.bnames[j], p.bnames[i]) if rev else (p.bnames[i], p.bnames[j]))
    def listclass(idx, n):
        if len(set(idx)) < len(idx): return 'repeated'
        return 'subset' if len(idx) < n else None
    kl = 'blocks-%s,connections-%s' % (
        'unchanged' if not bn else (listclass(o['perm'], p.shape['nb']) or 'permuted'),
        'unchanged' if not cn else (listclass([k for k, _ in o['cons']], len(p.shape['cons'])) or
                                    ('some-reversed' if any(r for _, r in o['cons']) else 'permuted')))
    return dict(run=lambda: p.g.reorder(bn, cn), klass=lambda m, group=None: kl,
                args=lambda m: dict(perm=o.get('perm'), cons=o.get('cons')))


def _rename_map(c, p, o, names):
    """symbolic one-to-one rename map not colliding with an unrenamed block."""
    m_ = o['m']
    keys = [G.mkname(c, 'k%d' % i, o['alpha']) for i in range(m_)]
    vals = [G.mkname(c, 'w%d' % i, o['alpha']) for i in range(m_)]
    fixpre = bool(o.get('fix_precondition'))
    fx = fixed_form if fixpre else (lambda s: s)
    fk, fv = [fx(k) for k in keys], [fx(v) for v in vals]
    if fixpre:
        for n in names: c.add(zb(eqf(fx(n), n)))      # names in the grid are in fixed form
    for i in range(m_):
        for j in range(i):
            G.assume_distinct(c, keys[i], keys[j])
            if fixpre: c.add(zb(z_not(eqf(fk[i], fk[j]))))
            if fixpre: c.add(zb(z_not(eqf(fv[i], fv[j]))))
            else: G.assume_distinct(c, vals[i], vals[j])
    for v in fv:
        for n in names:
            c.add(zb(z_or([z_not(eqf(v, n))] + [eqf(k, n) for k in fk])))
    bm = {}
    for k, v in zip(keys, vals): bm[k] = v
    return keys, vals, bm


def _rename_klass(p, keys, vals, names, fix=False):
    def klass(m, group=None):
        fx = fixed_form if fix else (lambda s: s)
        kv = [fx(name_value(m, k)) for k in keys]; vv = [fx(name_value(m, v)) for v in vals]
        bn = [name_value(m, n) for n in names]
        src = [k for k in kv if k in bn]
        if not src: return 'no-source-in-grid'
        for i, k in enumerate(kv):
            if k in bn and any(vv[i] == k2 for k2 in src if k2 != k):
                return 'target-aliases-other-source'
        if any(vv[i] == k for i, k in enumerate(kv) if k in bn): return 'target-is-own-source'
        return 'fresh-targets'
    return klass


def op_rename_blocks(c, T, p, o):
    keys, vals, bm = _rename_map(c, p, o, p.bnames)
    nlist = len(p.g.blocklist)
    def extra():
        return [('blocks', 'renaming loses no block: len(block) == len(blocklist) == %d' % nlist,
                 len(p.g.block) == nlist and len(p.g.blocklist) == nlist)]
    return dict(run=lambda: p.g.rename_blocks(bm, fix_blocknames=o.get('fix', True)),
                klass=_rename_klass(p, keys, vals, p.bnames, o.get('fix', True)), extra=extra,
                args=lambda m: dict(map=[[name_value(m, k), name_value(m, v)] for k, v in zip(keys, vals)],
                                    fix=o.get('fix', True)))


def op_t2data_rename_blocks(c, T, p, o):
    ld = _load()
    D = ld.t2data
    dat = D.t2data()
    dat.grid = p.g
    if p.bnames:
        dat.add_generator(D.t2generator(name='gen 1', block=p.bnames[0]))
    if o.get('data'):
        # a generator of the same name in the second block and initial conditions for every block
        # (incon: plain dict name -> [porosity, values], as t2data.read_incons fills it)
        dat.add_generator(D.t2generator(name='gen 1', block=p.bnames[1]))
        for i, n in enumerate(p.bnames): dat.incon[n] = [None, [float(i + 1)]]
    ngen, ninc = len(dat.generatorlist), len(dat.incon)
    keys, vals, bm = _rename_map(c, p, o, p.bnames)
    if o.get('invert'):
        # the preconditions are stated on the map that is APPLIED (keys -> vals); hand over its inverse
        bm = {}
        for k, v in zip(keys, vals): bm[v] = k
    nlist = len(p.g.blocklist)
    def extra():
        out = [('blocks', 'renaming loses no block: len(block) == len(blocklist) == %d' % nlist,
                len(dat.grid.block) == nlist and len(dat.grid.blocklist) == nlist)]
        if o.get('data'):
            # what t2data.rename_blocks says it renames along with the grid: nothing lost, everything under a block of the grid
            gl, gd = dat.generatorlist, dat.generator
            out.append(('data', 'generator dict and list hold the same %d objects' % ngen,
                        len(gl) == ngen and G._same_objects(gd, gl)))
            out.append(('data', 'every generator is filed under (its block, its name)',
                        z_and([G.tup_eq(k, (gen.block, gen.name)) for k, gen in gd.items()])))
            bl = dat.grid.blocklist
            out.append(('data', 'every generator sits in a block of the grid',
                        z_and([z_or([eqf(gen.block, b.name) for b in bl]) for gen in gl])))
            out.append(('data', 'initial conditions: still %d entries' % ninc, len(dat.incon) == ninc))
            # block i's initial conditions (tagged i+1) are found under block i's new name
            out.append(('data', 'each block finds its own initial conditions under its new name',
                        z_and([z_or([z_and([eqf(k, b.name), v[1][0] == float(i + 1)]) for k, v in dat.incon.items()])
                               for i, b in enumerate(p.blocks)])))
        return out
    return dict(run=lambda: dat.rename_blocks(bm, invert=bool(o.get('invert')), fix_blocknames=o.get('fix', True)),
                grids=lambda: [('grid', dat.grid)],
                klass=_rename_klass(p, keys, vals, p.bnames, o.get('fix', True)), extra=extra,
                args=lambda m: dict(map=[[name_value(m, k), name_value(m, v)] for k, v in zip(keys, vals)],
                                    fix=o.get('fix', True), invert=bool(o.get('invert')), data=bool(o.get('data'))))


def op_minc(c, T, p, o):
    blocks = None if o.get('blocks') is None else [(p.blocks[i] if o.get('as_objects') else p.bnames[i]) for i in o['blocks']]
    return dict(run=lambda: p.g.minc(list(o['fractions']), spacing=o.get('spacing', 50.),
                                     num_fracture_planes=o.get('nfp', 1), blocks=blocks),
                klass=lambda m, group=None: 'fractions-%d' % len(o['fractions']),
                args=lambda m: dict(fractions=list(o['fractions']), spacing=o.get('spacing', 50.),
                                    nfp=o.get('nfp', 1), blocks=o.get('blocks'), as_objects=bool(o.get('as_objects'))))


def _cross_klass(p, p2):
    def klass(m, group=None):
        b1 = set(name_value(m, n) for n in p.bnames); b2 = set(name_value(m, n) for n in p2.bnames)
        r1 = set(name_value(m, n) for n in p.rnames); r2 = set(name_value(m, n) for n in p2.rnames)
        if group == 'rocktypes':
            return 'rock-names-overlap' if r1 & r2 else 'rock-names-disjoint'
        return 'block-names-overlap' if b1 & b2 else 'block-names-disjoint'
    return klass


def op_add(c, T, p, o):
    p2 = G.build(c, T, o['other'], tag='s', alpha=o['alpha'])
    st = {}
    def run(): st['res'] = p.g + p2.g
    # the operands are grids too: `g1 + g2` must leave g1 and g2 as consistent as they were
    return dict(run=run, grids=lambda: ([('result', st['res'])] if 'res' in st else []) + [('operand-self', p.g), ('operand-other', p2.g)],
                klass=_cross_klass(p, p2),
                args=lambda m: dict(other=G.concrete_pre(m, p2)))


def op_embed(c, T, p, o):
    p2 = G.build(c, T, o['other'], tag='s', alpha=o['alpha'])
    con = T.t2connection([p.blocks[o['host']], p2.blocks[o['sub']]])
    st = {}
    def run():
        with contextlib.redirect_stdout(io.StringIO()):
            st['res'] = p.g.embed(p2.g, con)
    return dict(run=run, grids=lambda: ([('result', st['res'])] if st.get('res') is not None else []) + [('operand-self', p.g), ('operand-other', p2.g)],
                outcome=lambda: 'embedded' if st.get('res') is not None else 'refused',
                klass=_cross_klass(p, p2),
                args=lambda m: dict(other=G.concrete_pre(m, p2), host=o['host'], sub=o['sub']))


def op_sort_rocktypes(c, T, p, o):
    return dict(run=lambda: p.g.sort_rocktypes(), klass=lambda m, group=None: 'any', args=lambda m: dict())


def op_fromgeo(c, T, p, o):
    """grid built by the real rectangular()+fromgeo() with symbolic spacings (names concrete)."""
    ld = _load()
    nx, ny, nz = o['dims']
    dx = [c.real('dx%d' % i, 0, strict_lo=True) for i in range(nx)]
    dy = [c.real('dy%d' % i, 0, strict_lo=True) for i in range(ny)]
    dz = [c.real('dz%d' % i, 0, strict_lo=True) for i in range(nz)]
    st = {}
    def run():
        geo = ld.mulgrids.mulgrid().rectangular(dx, dy, dz, atmos_type=o['atmos_type'])
        st['g'] = T.t2grid().fromgeo(geo)
        if o.get('then') == 'reorder':
            g = st['g']
            g.reorder([b.name for b in g.blocklist][::-1],
                      [tuple(b.name for b in con.block)[::-1] for con in g.connectionlist][::-1])
    return dict(run=run, grids=lambda: [('grid', st['g'])] if 'g' in st else [], klass=lambda m, group=None: 'atmos-%d' % o['atmos_type'],
                args=lambda m: dict(dims=o['dims'], atmos_type=o['atmos_type'], then=o.get('then'),
                                    dx=[num_value(m, x) for x in dx], dy=[num_value(m, x) for x in dy], dz=[num_value(m, x) for x in dz]))


def op_check_fix(c, T, p, o):
    return dict(run=lambda: p.g.check(fix=True, silent=True), klass=lambda m, group=None: 'any', args=lambda m: dict())


OPS = dict(add_block=op_add_block, delete_block=op_delete_block, delete_readd_block=op_delete_readd_block, add_connection=op_add_connection,
           delete_connection=op_delete_connection, add_rocktype=op_add_rocktype,
           delete_rocktype=op_delete_rocktype, rename_rocktype=op_rename_rocktype,
           clean_rocktypes=op_clean_rocktypes, demote_block=op_demote_block, reorder=op_reorder,
           rename_blocks=op_rename_blocks, t2data_rename_blocks=op_t2data_rename_blocks,
           minc=op_minc, add=op_add, embed=op_embed, check_fix=op_check_fix,
           sort_rocktypes=op_sort_rocktypes, fromgeo=op_fromgeo)


# ---------------------------------------------------------------------------

def _opt_id(o):
    parts = []
    for k in sorted(o):
        v = o[k]
        if k == 'other': v = G.shape_id(v)
        elif isinstance(v, (list, tuple)): v = repr(v).replace(' ', '')
        parts.append('%s=%s' % (k, v))
    return ','.join(parts)


def task_step(op, sh, opt, max_paths=6000):
    ld = _load()
    T = ld.t2grids
    failures, samples, distinct = [], [], set()
    reached = [0]; vacuous = []; perkey = {}
    o = dict(opt); o.setdefault('alpha', 'lower')

    def h(c):
        p = G.build(c, T, sh, alpha=o['alpha'])
        info = OPS[op](c, T, p, o)
        outcome = 'ok'
        raised = None
        try:
            info['run']()
        except Exception as ex:
            # the edit refused / failed: the grid it leaves behind must still be consistent
            outcome = 'raised:%s' % type(ex).__name__
            raised = '%s: %s' % (type(ex).__name__, repr(ex.args[0])[:80] if ex.args else '')
        if info.get('outcome') and not raised: outcome = info['outcome']()
        grids = info['grids']() if info.get('grids') else [('grid', p.g)]
        rw, _ = c.reachable()          # reachability witness: the whole path condition is satisfiable
        if rw == 'sat': reached[0] += 1
        else: vacuous.append('%s path condition is %s' % (outcome, rw))
        checks = []
        for tag, g in grids:
            for group, label, val in G.invariant(g):
                checks.append((group, '%s: %s' % (tag, label), val, tag))
        if info.get('extra') and not raised:
            checks.extend(tuple(x) + ('grid',) * (4 - len(x)) for x in info['extra']())
        if len(samples) < 1 and checks:
            nontriv = [(gr, lab, str(z3.simplify(v))[:160]) for gr, lab, v, _ in checks if not isinstance(v, bool)]
            samples.append(dict(op=op, shape=G.shape_id(sh), outcome=outcome,
                                example_obligation=nontriv[-1] if nontriv else list(checks[0][:2])))
        seen_groups = set()
        for group, label, val, tag in checks:
            if not isinstance(val, bool): distinct.add((label, z3.simplify(val).hash()))
            r = c.prove(val, label)
            if r == 'sat' and (group, tag) not in seen_groups:
                seen_groups.add((group, tag))
                m = c.failures[-1]['model']
                kl = info['klass'](m, group)
                if tag.startswith('operand'): kl += ',' + tag      # the grid that is broken is an operand, not the result
                if raised: kl += ',raised'
                kk = '%s/%s/%s' % (op, kl, group)
                perkey[kk] = perkey.get(kk, 0) + 1
                if perkey[kk] > 2: continue          # two witnesses per key and task are enough for the replay
                failures.append(dict(
                    key='%s/%s/%s' % (op, kl, group),
                    what='%s [%s] on %s: after the edit NOT(%s)%s' % (op, kl, G.shape_id(sh), label,
                                                                      ' (the edit raised %s)' % raised if raised else ''),
                    replay=dict(op=op, opt={k: v for k, v in o.items()}, pre=G.concrete_pre(m, p),
                                args=info['args'](m), group=group, label=label, tag=tag)))
        return outcome

    # the sys.setprofile pass that records which repo functions ran is slow: one task per operation does it
    res = sym.explore(h, G.FastCtx(timeout_ms=30000), max_paths=max_paths, profile_repo=bool(o.get('profile')))
    tr = report.summarize('%s/%s/%s' % (op, G.shape_id(sh), _opt_id(opt)), res, failures, samples,
                          extra=dict(distinct_obligations=len(distinct), reached=reached[0]))
    if not reached[0]:
        tr['error'] = 'vacuous: no path reached the obligations'
    if vacuous:
        tr['error'] = 'vacuous path(s): %s' % vacuous[:3]
    return tr


# ---------------------------------------------------------------------------
# catalogue

def topo(nb, mode):
    """connection lists (oriented, in list order) for nb blocks.
    mode 'subsets': every subset of the unordered pairs, alternating orientation,
                    rotated list order;
         'oriented': every subset x every orientation;
         'double':  additionally both orientations of one pair at once."""
    prs = G.pairs(nb)
    out = []
    for r in range(len(prs) + 1):
        for sub in itertools.combinations(prs, r):
            if mode == 'subsets':
                out.append(G.orient(sub, 'alt'))
            else:
                for flips in itertools.product((0, 1), repeat=len(sub)):
                    out.append([(j, i) if f else (i, j) for (i, j), f in zip(sub, flips)])
    if mode == 'double' or mode == 'oriented':
        if nb >= 2:
            out.append([(0, 1), (1, 0)])
        if nb >= 3:
            out.append([(1, 2), (0, 1), (2, 1)])
    return out


def rock_assignments(nb, nr):
    if nr == 0: return [[]] if nb == 0 else []
    return [list(a) for a in itertools.product(range(nr), repeat=nb)]


ISO4 = [  # one representative per isomorphism class of simple graphs on 4 vertices
    [], [(0, 1)], [(0, 1), (2, 3)], [(0, 1), (1, 2)], [(0, 1), (0, 2), (0, 3)], [(0, 1), (1, 2), (2, 3)],
    [(0, 1), (1, 2), (0, 2)], [(0, 1), (1, 2), (2, 3), (0, 3)], [(0, 1), (1, 2), (0, 2), (2, 3)],
    [(0, 1), (1, 2), (2, 3), (0, 3), (0, 2)], [(0, 1), (0, 2), (0, 3), (1, 2), (1, 3), (2, 3)]]


def catalogue(tier):
    tasks = []
    def add(op, sh, **opt): tasks.append((task_step, dict(op=op, sh=sh, opt=opt)))
    A = 'alnumsp'
    sizes = [0, 1, 2, 3] if tier == 'quick' else [0, 1, 2, 3, 4]
    seen_nk = set()
    for nb in sizes:
        if nb <= 2 or (nb == 3 and tier != 'quick'): topos = topo(nb, 'oriented')
        elif nb == 3:     # quick: every subset once + all-forward / all-reversed triangle + a doubled pair
            topos = topo(3, 'subsets') + [[(0, 1), (1, 2), (0, 2)], [(1, 0), (2, 1), (2, 0)], [(1, 2), (0, 1), (2, 1)]]
        else: topos = topo(nb, 'subsets')
        for cons in topos:
            sh = G.shape(nb, cons, nr=2, brock=[(i + 1) % 2 if i < 3 else 0 for i in range(nb)])
            add('add_block', sh, alpha=A, rock=1)
            add('delete_block', sh, alpha=A)
            if cons: add('delete_readd_block', sh, alpha=A)
            add('delete_connection', sh, alpha=A)
            add('demote_block', sh, alpha=A, mode='single')
            add('check_fix', sh, alpha=A)
            for i in range(nb):
                for j in range(nb):
                    if i != j: add('add_connection', sh, pair=[i, j])
            # reorder: every block permutation (quick: <=3 blocks) / every reversal subset
            k = len(cons)
            if nb <= 3 or len(cons) <= 2:
                full = nb <= 3 or (nb, k) not in seen_nk      # first 4-block shape with 0, 1, 2 connections
                seen_nk.add((nb, k))
                for perm in itertools.permutations(range(nb)):
                    if not full and list(perm) not in ([3, 2, 1, 0], [1, 2, 3, 0], [1, 0, 2, 3]): continue
                    if nb and list(perm) != list(range(nb)) or nb <= 1:
                        add('reorder', sh, perm=list(perm), cons=None)
            if k:
                cset = set(tuple(x) for x in cons)
                allflips = list(itertools.product((0, 1), repeat=k))
                if k > 4:      # 5 or 6 connections: none, all, each single one, alternating
                    allflips = [f for f in allflips if sum(f) in (0, 1, k) or f == tuple(q % 2 for q in range(k))]
                for flips in allflips:
                    # "listed reversed" has no meaning for a pair whose reverse is itself a connection
                    if any(f and (cons[q][1], cons[q][0]) in cset for q, f in enumerate(flips)): continue
                    order = list(range(k))[1:] + [0]
                    add('reorder', sh, perm=list(range(nb))[::-1], cons=[[q, flips[q]] for q in order])
            add('rename_blocks', sh, alpha='lower', m=1, fix=True)
            add('rename_blocks', sh, alpha='lower', m=2, fix=True)
    # rename maps with 3 entries
    if tier == 'quick':
        for cons in ([], [(0, 1), (2, 1)], [(0, 1), (1, 2), (2, 0)]):
            add('rename_blocks', G.shape(3, cons, nr=1), alpha='lower', m=3, fix=False)
    else:
        for cons in topo(3, 'subsets'):
            add('rename_blocks', G.shape(3, cons, nr=1), alpha='lower', m=3, fix=False)
        for cons in ISO4:
            add('rename_blocks', G.shape(4, G.orient(cons, 'alt'), nr=1), alpha='lower', m=3, fix=True)
    # fix_blocknames on names with digits / blanks (fix_block_mapping really rewrites keys and targets)
    for nb, cons, m_ in ((1, [], 1), (2, [(0, 1)], 1)) + (() if tier == 'quick' else ((2, [(1, 0)], 2),)):
        add('rename_blocks', G.shape(nb, cons, nr=1), alpha=A, m=m_, fix=True, fix_precondition=True)
    # t2data.rename_blocks
    for nb, cons in ((2, [(0, 1)]), (3, [(0, 1), (2, 1)])) + (() if tier == 'quick' else ((4, [(0, 1), (2, 1), (2, 3)]), (3, [(0, 1), (1, 2), (0, 2)]))):
        for m_ in (1, 2):
            add('t2data_rename_blocks', G.shape(nb, cons, nr=1), alpha='lower', m=m_, fix=True)
    add('t2data_rename_blocks', G.shape(3, [(1, 0), (1, 2)], nr=1), alpha='lower', m=2, fix=False, invert=True)
    # rock types: every assignment
    for nb in ([0, 1, 2, 3] if tier == 'quick' else [0, 1, 2, 3, 4]):
        for nr in (0, 1, 2):
            for br in rock_assignments(nb, nr):
                sh = G.shape(nb, [(0, 1)] if nb >= 2 else [], nr=nr, brock=br)
                add('add_rocktype', sh, alpha=A)
                add('delete_rocktype', sh, alpha=A)
                add('rename_rocktype', sh, alpha=A)
                add('clean_rocktypes', sh)
                if nr == 2 and nb <= 2: add('sort_rocktypes', sh, alpha=A)
                if nr == 2 and nb:
                    add('add_block', sh, alpha=A, rock=0)
                if nb >= 2 and nr:
                    add('check_fix', sh, alpha=A)
    # demote with a list of two names
    for nb in (2, 3) if tier == 'quick' else (2, 3, 4):
        add('demote_block', G.shape(nb, G.orient(G.pairs(nb)[:nb - 1]), nr=1), alpha=A, mode='list2')
    # MINC
    mincs = [([0.2, 0.8], 50., 1), ([0.1, 0.3, 0.6], 30., 2)]
    for nb, cons in ((1, []), (2, [(0, 1)]), (2, [])) + (() if tier == 'quick' else ((3, [(0, 1), (2, 1)]), (3, [(0, 1), (1, 2), (0, 2)]))):
        for fr, sp, nfp in mincs:
            sh = G.shape(nb, cons, nr=2, brock=[i % 2 for i in range(nb)])
            if nb < 3 or len(fr) == 2 or len(cons) == 2:     # 3 levels on 3 blocks: one topology (hundreds of aliasing paths)
                add('minc', sh, alpha=A, fractions=fr, spacing=sp, nfp=nfp, blocks=None)
            if nb >= 2:
                add('minc', sh, alpha=A, fractions=fr, spacing=sp, nfp=nfp, blocks=[nb - 1])
    if tier != 'quick':
        add('minc', G.shape(4, [(0, 1), (2, 1), (2, 3)], nr=2), alpha=A, fractions=[0.2, 0.8], spacing=50., nfp=3, blocks=[0, 2, 3])
        add('minc', G.shape(2, [(0, 1)], nr=1), alpha=A, fractions=[0.05, 0.1, 0.15, 0.2, 0.2, 0.3], spacing=50., nfp=3, blocks=None)
    add('minc', G.shape(2, [(1, 0)], nr=1), alpha=A, fractions=[0.2, 0.8], spacing=50., nfp=1, blocks=[0, 1], as_objects=True)
    # grids built from geometries (concrete names, symbolic spacings), optionally reordered with reversals
    for at in (0, 1, 2):
        add('fromgeo', G.shape(0, [], nr=0), dims=[2, 1, 2], atmos_type=at, then='reorder')
    if tier != 'quick':
        add('fromgeo', G.shape(0, [], nr=0), dims=[2, 2, 2], atmos_type=0, then=None)
        add('fromgeo', G.shape(0, [], nr=0), dims=[3, 1, 2], atmos_type=2, then='reorder')
    # adding / embedding grids
    others = [G.shape(1, [], nr=1), G.shape(2, [(0, 1)], nr=1)]
    firsts = [G.shape(1, [], nr=1), G.shape(2, [(1, 0)], nr=2)] + ([] if tier == 'quick' else [G.shape(3, [(0, 1), (2, 1)], nr=2), G.shape(4, [(0, 1), (2, 1), (3, 0)], nr=2)])
    for sh in firsts:
        for other in others:
            if tier == 'quick' and sh['nb'] + other['nb'] > 3: continue
            add('add', sh, alpha=A, other=other)
            add('embed', sh, alpha=A, other=other, host=sh['nb'] - 1, sub=0)
    # ---- round 4 -------------------------------------------------------------------------------
    thorough = tier != 'quick'
    # add_block of a block whose rock type OBJECT the grid has never seen (free rock name, may alias a
    # registered name) and of t2block(name, volume) with the constructor's default rock type
    for nb, cons, nr, br in ((0, [], 0, []), (1, [], 1, [0]), (2, [(0, 1)], 2, [0, 1])) + \
            (((3, [(0, 1), (2, 1)], 2, [0, 1, 1]), (2, [(1, 0)], 1, [0, 0])) if thorough else ()):
        sh = G.shape(nb, cons, nr=nr, brock=br)
        add('add_block', sh, alpha=A, rock='fresh')
        add('add_block', sh, alpha=A, rock='default')
    # pre-states holding a connection of a block with itself (add_connection accepts one)
    for nb, cons in ((1, [(0, 0)]), (2, [(0, 0), (0, 1)]), (2, [(1, 0), (1, 1)])) + \
            (((3, [(0, 1), (1, 1), (2, 1)]), (2, [(0, 0), (1, 1), (0, 1)])) if thorough else ()):
        sh = G.shape(nb, cons, nr=1)
        for op_ in ('delete_connection', 'delete_block', 'delete_readd_block', 'check_fix'):
            add(op_, sh, alpha=A)
        add('add_block', sh, alpha=A, rock=0)
        add('demote_block', sh, alpha=A, mode='single')
        add('reorder', sh, perm=list(range(nb))[::-1], cons=[[q, 0] for q in list(range(len(cons)))[1:] + [0]])
        add('rename_blocks', sh, alpha='lower', m=1, fix=True)
        add('rename_blocks', sh, alpha='lower', m=2, fix=True)
        for i in range(nb): add('add_connection', sh, pair=[i, i])
    for nb, cons in ((1, []), (2, [(0, 1)])):
        for i in range(nb): add('add_connection', G.shape(nb, cons, nr=1), pair=[i, i])
    # add_connection of a connection to a block object that is not in the grid
    for nb, cons in ((1, []), (2, [(0, 1)])) + (((3, [(0, 1), (2, 1)]),) if thorough else ()):
        for f_ in (1, 2):
            add('add_connection', G.shape(nb, cons, nr=1), alpha=A, pair=[0, 0], foreign=f_)
    # reorder with lists that are not permutations: a subset of the names, a name twice, a connection
    # left out, a connection named twice (same / both orientations)
    sh3 = G.shape(3, [(0, 1), (2, 1)], nr=1)
    for perm in ([1, 0], [2], [0, 0, 1, 2], [1, 2, 1]):
        add('reorder', sh3, perm=perm, cons=None)
    for cn in ([[0, 1]], [[1, 0]], [[0, 0], [0, 1], [1, 0]], [[0, 0], [0, 0], [1, 1]], [[1, 1], [0, 0], [1, 0]]):
        add('reorder', sh3, perm=None, cons=cn)
    add('reorder', sh3, perm=[2, 0], cons=[[1, 1]])
    add('reorder', G.shape(2, [(0, 1)], nr=1), perm=None, cons=[[0, 0], [0, 1]])
    if thorough:
        sh4 = G.shape(4, [(0, 1), (2, 1), (2, 3)], nr=1)
        for perm in ([1, 0], [3, 1, 2], [0, 1, 2, 3, 0]): add('reorder', sh4, perm=perm, cons=None)
        for cn in ([[2, 1]], [[0, 0], [2, 0]], [[0, 1], [1, 0], [2, 0], [0, 0]]): add('reorder', sh4, perm=None, cons=cn)
    # t2data.rename_blocks with generators in two blocks and initial conditions for every block
    for nb, cons, m_ in ((2, [(0, 1)], 2), (3, [(0, 1), (2, 1)], 2)) + (((3, [(0, 1), (1, 2), (0, 2)], 3),) if thorough else ()):
        add('t2data_rename_blocks', G.shape(nb, cons, nr=1), alpha='lower', m=m_, fix=m_ < 3, data=True)
    return schedule(mark_profiled(tasks))


def mark_profiled(tasks):
    seen = set()
    for f, kw in tasks:
        if kw['op'] not in seen and kw['sh']['nb'] >= 2 or kw['op'] == 'fromgeo' and kw['op'] not in seen:
            seen.add(kw['op']); kw['opt']['profile'] = True
    return tasks


def schedule(tasks):
    """longest tasks first (the pool takes tasks in list order; avoids one long
    task running alone at the end).  Stable, so a seed-shuffled order survives among equals."""
    def weight(t):
        kw = t[1]; o = kw['opt']; nb = kw['sh']['nb']
        if o.get('fix_precondition'): return 4 ** (2 * o['m'])
        if kw['op'] == 'minc': return 3 ** nb * len(o['fractions'])
        if kw['op'] in ('rename_blocks', 't2data_rename_blocks'): return (nb + 1) ** o['m'] / 2.0
        if kw['op'] in ('add', 'embed'): return nb * 3
        return 1
    return sorted(tasks, key=lambda t: -weight(t))


def run(tier, seed, rep):
    _load()
    tasks = catalogue(tier)
    flt = os.environ.get('VX_TASK_FILTER')
    if flt:
        # development aid (mutation testing of one operation): a filtered run can never exit 0
        tasks = [t for t in tasks if any(f in (t[1].get('op') or t[0].__name__) for f in flt.split(','))]
        rep.harness_error('VX_TASK_FILTER=%s active: partial run of %d tasks, not a verdict' % (flt, len(tasks)))
    if seed:
        import random
        random.Random(seed).shuffle(tasks)
        tasks = schedule(tasks)
    rep.add_results(report.run_tasks(tasks))
    nreached = sum(r.get('extra', {}).get('reached', 0) for r in rep.results)
    rep.extra['paths_reaching_obligations'] = nreached
    per_op = {}
    for r in rep.results:
        a = per_op.setdefault(r['name'].split('/')[0], dict(tasks=0, paths=0, obligations=0, wall_s=0.0))
        a['tasks'] += 1; a['paths'] += r.get('stats', {}).get('paths', 0)
        a['obligations'] += r.get('stats', {}).get('obligations', 0); a['wall_s'] = round(a['wall_s'] + r.get('wall_s', 0), 1)
    rep.extra['per_operation'] = per_op
    rep.bounds += [
        'pre-states: %s blocks, <=2 registered rock types, connections = every subset of the block pairs '
        '(%s: every orientation of every subset plus shapes holding both orientations of a pair; %s'
        'every subset with a fixed alternating orientation and rotated list order)' % (
            ('<=3', '<=2 blocks', '3 blocks: ') if tier == 'quick' else ('<=4', '<=3 blocks', '4 blocks: ')),
        'block / rock-type names: 5 symbolic characters over [a-zA-Z0-9 ] (rename_blocks tasks: [a-z]; '
        'fix_blocknames with digits and blanks only on <=2 blocks, maps of <=%d entries)' % (1 if tier == 'quick' else 2),
        'one edit per pre-state with free symbolic name arguments; rename maps of 1, 2 and 3 entries '
        '(1 and 2 entries: every shape; 3 entries: %s)' % (
            'three 3-block topologies' if tier == 'quick' else
            'all 3-block connection subsets and one 4-block graph per isomorphism class'),
        'reorder: every block permutation (<=3 blocks, and 4 blocks on three shapes with 0..2 connections; reverse / rotation / one transposition on the other 4-block shapes with <=2 connections), every subset of connections listed reversed (grids with 5 or 6 connections: none / all / each single one / alternating)',
        'MINC with concrete fraction lists [0.2,0.8], [0.1,0.3,0.6] (thorough also 6 fractions), 1..3 fracture-plane sets, whole grid or one block',
        '__add__/embed with a second symbolic grid of 1..2 blocks whose names may alias the first grid\'s',
        'block volumes: any real (symbolic)',
    ]
    rep.outside += [
        'grids with more than 4 blocks / 2 rock types in the pre-state (the inductive step covers histories of any length that stay within these sizes)',
        'the "random sequences up to length 60 on 200 blocks" half of the quantifier',
        'print_block / history specifications of t2data.rename_blocks (round 4: generators and initial conditions are checked, group data)',
    ]
    rep.assumptions += [
        'pre-state satisfies I and its block names / rock names are pairwise distinct',
        'add_block: the new block carries a rock type (registered in the grid, or an object the grid has never seen with a free name, or the t2block constructor default); add_block() without a block is not run',
        'add_block with the constructor default rock type: no registered rock type is named dfalt (that aliasing case is covered with a free symbolic rock name)',
        'add_connection: the new connection joins two block objects of the grid (round 4: also the same block twice, and one block object that is not in the grid under a free name)',
        'reorder: block_names / connection_names are lists of names of the grid\'s blocks / connections in either orientation (round 4: also proper subsets and lists with repeats)',
        'rename_blocks: the map is one-to-one and no target equals the name of a block that is not itself renamed (stated on the fix_blockname form of the names when fix_blocknames=True); block names in the grid are in fix_blockname form in those tasks',
        'minc: default naming functions; blocks given by name; scipy.optimize.bisect runs concretely (fractions and spacings are concrete)',
        'embed: the connection joins a block of the host grid (first) and a block of the sub-grid (second)',
        'an edit that raises must leave a consistent grid behind (checked, not assumed)',
    ]
    rep.process_failures()
    return rep.finish(rule='one obligation = one clause of invariant I after one real edit on one path (aliasing pattern) of one pre-state shape: '
                           'pc AND NOT(clause) must be unsat; distinct = distinct non-constant clause formulas by z3 AST hash')
