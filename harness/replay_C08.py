"""Replay for C08 on the REAL t2grids / t2data (no z3, no rewriting): build
the concrete pre-state grid directly, check that it is consistent, run the one
edit with the solver's concrete arguments, evaluate the consistency invariant
with plain Python.  reproduced = the same clause group is broken."""
import contextlib
import io
from fractions import Fraction


def num(x):
    if isinstance(x, dict) and 'frac' in x:
        return float(Fraction(int(x['frac'][0]), int(x['frac'][1])))
    if isinstance(x, str):
        try: return float(Fraction(x))
        except Exception: return x
    return x


def build(T, pre):
    sh = pre['shape']
    g = T.t2grid()
    rocks = []
    for n in pre['rnames']:
        rt = T.rocktype(n); rocks.append(rt); g.rocktypelist.append(rt); g.rocktype[n] = rt
    blocks = []
    for i, n in enumerate(pre['bnames']):
        import numpy as np
        ctr = pre['centre'][i] if pre.get('centre') else None
        if ctr is not None: ctr = np.array([float(num(x)) for x in ctr])
        b = T.t2block(n, float(num(pre['vol'][i])), rocks[sh['brock'][i]], centre=ctr)
        blocks.append(b); g.blocklist.append(b); g.block[n] = b
    cons = []
    for k, (i, j) in enumerate(sh['cons']):
        ph = pre['phys'][k] if pre.get('phys') else None
        if ph:
            con = T.t2connection([blocks[i], blocks[j]], int(num(ph['direction'])),
                                 [float(num(ph['d'][0])), float(num(ph['d'][1]))], float(num(ph['area'])),
                                 float(num(ph['dircos'])), nad1=int(num(ph['nad'][0])), nad2=int(num(ph['nad'][1])))
        else:
            con = T.t2connection([blocks[i], blocks[j]])
        key = (pre['bnames'][i], pre['bnames'][j])
        cons.append(con); g.connectionlist.append(con); g.connection[key] = con
        blocks[i].connection_name.add(key); blocks[j].connection_name.add(key)
    return g, blocks, rocks, cons


def broken(g):
    """list of (group, message) for every clause of the invariant that fails."""
    bad = []
    def same(d, l):
        return len(set(map(id, l))) == len(l) and set(map(id, l)) == set(map(id, d.values())) and len(d) == len(l)
    if not same(g.block, g.blocklist):
        bad.append(('blocks', 'block dict (%d: %s) and block list (%d: %s) differ' % (
            len(g.block), sorted(g.block), len(g.blocklist), [b.name for b in g.blocklist])))
    if any(k != v.name for k, v in g.block.items()):
        bad.append(('blocks', 'a block is filed under a name that is not its own: %r' % ({k: v.name for k, v in g.block.items()},)))
    names = [b.name for b in g.blocklist]
    if len(set(names)) != len(names): bad.append(('blocks', 'duplicate block names %r' % names))
    if not same(g.connection, g.connectionlist):
        bad.append(('connections', 'connection dict (%s) and list (%s) differ' % (sorted(g.connection), g.connectionlist)))
    inl = set(map(id, g.blocklist))
    for con in g.connectionlist:
        if len(con.block) != 2 or any(id(b) not in inl for b in con.block):
            bad.append(('connections', 'connection %r joins a block object that is not in the grid' % (con,)))
    for k, con in g.connection.items():
        if k != tuple(b.name for b in con.block):
            bad.append(('connections', 'connection filed under %r joins %r' % (k, tuple(b.name for b in con.block))))
    keys = [tuple(b.name for b in con.block) for con in g.connectionlist]
    if len(set(keys)) != len(keys): bad.append(('connections', 'duplicate connection keys %r' % keys))
    for blk in g.blocklist:
        mention = set(k for k, con in g.connection.items() if any(b is blk for b in con.block))
        if set(blk.connection_name) != mention:
            bad.append(('backrefs', 'block %r records %r but is mentioned by %r' % (blk.name, sorted(blk.connection_name), sorted(mention))))
    if not same(g.rocktype, g.rocktypelist):
        bad.append(('rocktypes', 'rocktype dict %r and list %r differ' % (sorted(g.rocktype), g.rocktypelist)))
    rn = [r.name for r in g.rocktypelist]
    if any(k != v.name for k, v in g.rocktype.items()) or len(set(rn)) != len(rn):
        bad.append(('rocktypes', 'rocktype filed under a wrong name / duplicate names %r' % rn))
    rids = set(map(id, g.rocktypelist))
    for blk in g.blocklist:
        if id(blk.rocktype) not in rids:
            bad.append(('rocktypes', 'block %r has rock type object %r which is not registered in the grid (registered: %r)' % (
                blk.name, blk.rocktype.name, rn)))
    return bad


def replay(d):
    import t2grids as T
    op, o, a = d['op'], d['opt'], d['args']
    g, blocks, rocks, cons = build(T, d['pre'])
    pre_bad = broken(g)
    if pre_bad:
        return False, 'pre-state is not consistent (harness bug): %r' % (pre_bad,)
    nlist = len(g.blocklist)
    res = g
    raised = None
    extra_bad = []
    try:
        with contextlib.redirect_stdout(io.StringIO()):
            if op == 'add_block':
                if a['rock'] == 'fresh': nb_ = T.t2block(a['name'], float(num(a['volume'])), T.rocktype(a['rockname']))
                elif a['rock'] == 'default': nb_ = T.t2block(a['name'], float(num(a['volume'])))
                else: nb_ = T.t2block(a['name'], float(num(a['volume'])), rocks[a['rock']])
                g.add_block(nb_)
            elif op == 'delete_block': g.delete_block(a['name'])
            elif op == 'delete_readd_block':
                blk = g.block.get(a['name'])
                g.delete_block(a['name'])
                if blk is not None: g.add_block(blk)
            elif op == 'add_connection':
                if a.get('foreign'):
                    fb = T.t2block(a['fname'], 1.0, rocks[0])
                    g.add_connection(T.t2connection([blocks[a['pair'][0]], fb] if a['foreign'] == 2 else [fb, blocks[a['pair'][0]]]))
                else:
                    g.add_connection(T.t2connection([blocks[a['pair'][0]], blocks[a['pair'][1]]]))
            elif op == 'delete_connection': g.delete_connection(tuple(a['names']))
            elif op == 'add_rocktype': g.add_rocktype(T.rocktype(a['name']))
            elif op == 'delete_rocktype': g.delete_rocktype(a['name'])
            elif op == 'rename_rocktype': g.rename_rocktype(a['names'][0], a['names'][1])
            elif op == 'clean_rocktypes': g.clean_rocktypes()
            elif op == 'demote_block':
                g.demote_block(a['names'][0] if a['mode'] == 'single' else list(a['names']))
            elif op == 'reorder':
                bn = None if a['perm'] is None else [d['pre']['bnames'][i] for i in a['perm']]
                cn = None
                if a['cons'] is not None:
                    cn = []
                    for k, rev in a['cons']:
                        i, j = d['pre']['shape']['cons'][k]
                        n = d['pre']['bnames']
                        cn.append((n[j], n[i]) if rev else (n[i], n[j]))
                g.reorder(bn, cn)
            elif op == 'rename_blocks':
                g.rename_blocks(dict((k, v) for k, v in a['map']), fix_blocknames=a['fix'])
                if not (len(g.block) == nlist and len(g.blocklist) == nlist):
                    extra_bad.append(('blocks', 'renaming lost a block: %d names in the lookup, %d blocks in the list, %d before' % (
                        len(g.block), len(g.blocklist), nlist)))
            elif op == 't2data_rename_blocks':
                import t2data as D
                dat = D.t2data(); dat.grid = g
                if d['pre']['bnames']:
                    dat.add_generator(D.t2generator(name='gen 1', block=d['pre']['bnames'][0]))
                if a.get('data'):
                    dat.add_generator(D.t2generator(name='gen 1', block=d['pre']['bnames'][1]))
                    for i, n in enumerate(d['pre']['bnames']): dat.incon[n] = [None, [float(i + 1)]]
                ngen, ninc = len(dat.generatorlist), len(dat.incon)
                mp = dict((v, k) for k, v in a['map']) if a.get('invert') else dict((k, v) for k, v in a['map'])
                dat.rename_blocks(mp, invert=a.get('invert', False), fix_blocknames=a['fix'])
                res = dat.grid
                if not (len(res.block) == nlist and len(res.blocklist) == nlist):
                    extra_bad.append(('blocks', 'renaming lost a block: %d names in the lookup, %d blocks in the list' % (len(res.block), len(res.blocklist))))
                if a.get('data'):
                    gl, gd = dat.generatorlist, dat.generator
                    if len(gl) != ngen or len(gd) != len(gl) or set(map(id, gl)) != set(map(id, gd.values())) \
                            or any(k != (gen.block, gen.name) for k, gen in gd.items()):
                        extra_bad.append(('data', 'generators: list %r, dict keys %r' % ([(x.block, x.name) for x in gl], sorted(gd))))
                    if any(gen.block not in res.block for gen in gl):
                        extra_bad.append(('data', 'a generator sits in a block that is not in the grid: %r' % ([(x.block, x.name) for x in gl],)))
                    own = [dat.incon.get(b.name, [None, [None]])[1][0] == float(i + 1) for i, b in enumerate(blocks)]
                    if len(dat.incon) != ninc or not all(own):
                        extra_bad.append(('data', 'initial conditions: %d entries before, now %r (block i carried value i+1; blocks now %r)' % (
                            ninc, dict((k, v[1][0]) for k, v in dat.incon.items()), [b.name for b in blocks])))
            elif op == 'minc':
                blks = None if a['blocks'] is None else [(blocks[i] if a.get('as_objects') else d['pre']['bnames'][i]) for i in a['blocks']]
                g.minc(list(a['fractions']), spacing=a['spacing'], num_fracture_planes=a['nfp'], blocks=blks)
            elif op in ('add', 'embed'):
                g2, blocks2, rocks2, cons2 = build(T, a['other'])
                pb = broken(g2)
                if pb: return False, 'second grid is not consistent (harness bug): %r' % (pb,)
                if op == 'add': res = g + g2
                else:
                    res = g.embed(g2, T.t2connection([blocks[a['host']], blocks2[a['sub']]]))
                    if res is None and not str(d.get('tag', '')).startswith('operand'):
                        return False, 'embed refused (returned None)'
                # round 4: the operands must stay consistent too
                if d.get('tag') == 'operand-self': res = g
                elif d.get('tag') == 'operand-other': res = g2
            elif op == 'check_fix': g.check(fix=True, silent=True)
            elif op == 'sort_rocktypes': g.sort_rocktypes()
            elif op == 'fromgeo':
                import mulgrids
                geo = mulgrids.mulgrid().rectangular([float(num(x)) for x in a['dx']], [float(num(x)) for x in a['dy']],
                                                     [float(num(x)) for x in a['dz']], atmos_type=a['atmos_type'])
                res = T.t2grid().fromgeo(geo)
                if a.get('then') == 'reorder':
                    res.reorder([b.name for b in res.blocklist][::-1],
                                [tuple(b.name for b in con.block)[::-1] for con in res.connectionlist][::-1])
            else:
                return False, 'unknown op %r' % op
    except Exception as ex:
        raised = '%s: %s' % (type(ex).__name__, ex)
    bad = broken(res) + extra_bad
    hit = [b for b in bad if b[0] == d['group']]
    head = '%s%s on blocks %r rocks %r cons %r args %r' % (op, ' (raised %s)' % raised if raised else '',
                                                       d['pre']['bnames'], d['pre']['rnames'], d['pre']['shape']['cons'], a)
    if hit:
        return True, '%s: grid inconsistent afterwards: %s' % (head, '; '.join(m for _, m in hit[:3]))
    return False, '%s: clause group %r holds afterwards (other broken: %r)' % (head, d['group'], bad)
