"""Replay for C16 on the real fortran_float / fortran_int with an independent
oracle written with Python's re and float()."""
import math
import re

FREAL = re.compile(r'^[+-]?(\d+(\.\d*)?|\.\d+)(([eEdD][+-]?\d+)|([+-]\d+))?$')
FINT = re.compile(r'^[+-]?\d+$')
POSSIBLE = set('0123456789+-.eEdD_ \t\n\x0b\x0c\r') | set('infatyINFATY')


def fortran_value(t):
    """value Fortran reads from a number it wrote (blanks ignored)."""
    u = t.replace(' ', '')
    if not FREAL.match(u): return None
    u = u.lower().replace('d', 'e')
    m = re.match(r'^([+-]?[0-9.]+)([+-]\d+)$', u)
    if m: u = m.group(1) + 'e' + m.group(2)
    return float(u)


def same(a, b):
    if isinstance(a, float) and isinstance(b, float):
        return (math.isnan(a) and math.isnan(b)) or a == b
    return a == b and type(a) == type(b)


def replay(d):
    import fixed_format_file as fff
    t = d['text']
    which = d['which']
    blank = object()
    fn = fff.fortran_float if which == 'float' else fff.fortran_int
    if d.get('via_table'):
        # the reader as handed to the file parsers by the library's own table
        tfn = fff.fortran_read_function['e' if which == 'float' else 'd']
        def fn(s, blank_value, tfn=tfn):
            r = tfn(s)
            if r is None and (which == 'float' or s.strip() == ''): return blank_value
            return r
    blank1 = object()
    pre = ''
    if d.get('prior_text') is not None:
        # an earlier call in the same process, on another text with another blank value
        pre = 'after %s(%r, <other blank value>): ' % (getattr(fn, '__name__', 'fn'), d['prior_text'])
        try: fn(d['prior_text'], blank1)
        except BaseException as ex:
            return True, '%s(%r) raised %s: %s' % (fn.__name__, d['prior_text'], type(ex).__name__, ex)
    try:
        got = fn(t, blank)
    except BaseException as ex:
        return True, '%s%s(%r) raised %s: %s' % (pre, fn.__name__, t, type(ex).__name__, ex)
    problems = []
    if got is blank1: problems.append('the blank value of the EARLIER call was returned')
    py = float if which == 'float' else int
    try:
        pv = py(t); pyacc = True
    except ValueError:
        pyacc = False
    if pyacc and not same(got, pv): problems.append('python accepts: expected %r' % (pv,))
    if which == 'float':
        fv = fortran_value(t)
        if fv is not None and not same(got, fv): problems.append('Fortran meaning: expected %r' % (fv,))
    else:
        u = t.replace(' ', '')
        if FINT.match(u) and not same(got, int(u)): problems.append('Fortran meaning: expected %r' % int(u))
    if t.strip() == '' and not pyacc and got is not blank: problems.append('blank field should give the blank value')
    if got is blank and t.strip() != '': problems.append('non-blank field gave the blank value')
    if any(ch not in POSSIBLE for ch in t):
        bad = (got is not None) if which == 'int' else not (isinstance(got, float) and math.isnan(got))
        if bad: problems.append('impossible character should give nan/None')
    if problems:
        return True, '%s%s(%r) -> %r: %s' % (pre, fn.__name__, t, got, '; '.join(problems))
    return False, '%s%s(%r) -> %r as expected' % (pre, fn.__name__, t, got)
