"""C10 - geometry stays internally consistent under sequences of edits (WEAK claim).

What the solver decides, for ALL values of the symbolic coordinates / spacings /
surfaces / layer thicknesses / shift / snap threshold, after every step of an
edit sequence executed by the REAL mulgrids code:
  ccw-area          every column polygon is counter-clockwise with positive area
                    and its stored .area is positive
  edge-length       every connection's two nodes are distinct points
  num_layers        column.num_layers == number of layers whose bottom is below
                    the column's (symbolic) surface
  block-membership  a (layer, column) block is in block_name_list  <=>  the
                    column's surface is above the layer's bottom
What is merely EVALUATED on each path (names and incidence are concrete there):
  dict-list         by-name dictionaries and ordered lists hold the same objects
                    under their current names (nodes, columns, layers,
                    connections, wells)
  node-columns      node.column == the set of columns using the node
  column-connections  column.connection == the connections that mention it
  neighbours        column.neighbour == the other ends of its connections
                    (hence symmetric)
  connection-edge   each connection's two nodes are consecutive in both columns
  name-lists        block_name_list / block_connection_name_list and their index
                    dictionaries equal what the real setup_* functions recompute
  valid-mesh        (after operations that promise a valid mesh) no orphan
                    nodes, no missing and no extra connections
The "for all histories" quantifier is covered ONLY by bounded enumeration of
edit sequences (length <= 2 quick, <= 3 thorough) over a fixed alphabet of
operation instances on RECT(2x2), RECT(3x2) and a small mixed mesh; that part
is enumeration, not a solver verdict.

A clause is reported for the step at which it turns from holding to failing
(key = operation kind + clause); steps starting from a state in which a clause
is already broken do not re-report it.

Round 4: a history may involve a SECOND geometry (the "companion", created by
copy_layers_from(companion=True) / give_layers and kept on the primary geometry
as _vx_companion); every clause is evaluated on both geometries after every
step (keys <op>/companion:<clause> and companion.<op>/<clause>).  Steps marked
setup=True prepare a state and are not reported themselves.
"""
import itertools
import os
import sys
import time
import z3
from fractions import Fraction
from vx import sym, loader, report
from vx.sym import SReal, SInt, SBool
from harness import c11_common as CC
from harness import C11 as G          # shared oracles, symbolic environment, canonical order

PID = 'C10'
E, P = G.E, G.P

# loud failures of the unchanged tree from a fully consistent state (outside the property, see notes)
EXPECTED_RAISES = {('snap', 'IndexError'), ('snap_nearest', 'IndexError')}

CONCRETE_CLAUSES = ('dict-list', 'node-columns', 'column-connections', 'neighbours', 'connection-edge', 'name-lists', 'valid-mesh')
SOLVER_CLAUSES = ('ccw-area', 'edge-length', 'num_layers', 'block-membership')


# ---------------------------------------------------------------------------
# concrete structure (evaluated per path)

def structure_defects(geo, promises_valid):
    """clause -> list of defect strings (concrete: names and incidence)."""
    D = {k: [] for k in CONCRETE_CLAUSES}
    # dict-list
    for what, dct, lst in (('node', geo.node, geo.nodelist), ('column', geo.column, geo.columnlist),
                           ('layer', geo.layer, geo.layerlist), ('well', geo.well, geo.welllist)):
        if len(dct) != len(lst): D['dict-list'].append('%s: dict has %d entries, list %d' % (what, len(dct), len(lst)))
        for o in lst:
            if dct.get(o.name) is not o: D['dict-list'].append('%s %r of the list is not filed under its name' % (what, o.name))
        for nm, o in dct.items():
            if o.name != nm: D['dict-list'].append('%s dict key %r holds object named %r' % (what, nm, o.name))
            if not any(o is x for x in lst): D['dict-list'].append('%s dict entry %r is not in the list' % (what, nm))
        if len(set(o.name for o in lst)) != len(lst): D['dict-list'].append('%s names not unique' % what)
    if len(geo.connection) != len(geo.connectionlist):
        D['dict-list'].append('connection: dict has %d entries, list %d' % (len(geo.connection), len(geo.connectionlist)))
    for con in geo.connectionlist:
        key = tuple(cl.name for cl in con.column)
        if geo.connection.get(key) is not con: D['dict-list'].append('connection %s:%s is not filed under its columns\' names' % key)
        for cl in con.column:
            if not any(cl is x for x in geo.columnlist): D['dict-list'].append('connection %s:%s refers to a column not in the geometry' % key)
    for key, con in geo.connection.items():
        if not any(con is x for x in geo.connectionlist): D['dict-list'].append('connection dict entry %s is not in the list' % (key,))
    # node-columns
    cols = geo.columnlist
    for nd in geo.nodelist:
        using = [cl for cl in cols if any(n is nd for n in cl.node)]
        have = list(nd.column)
        if len(have) != len(using) or any(not any(h is u for u in using) for h in have):
            D['node-columns'].append('node %r knows columns %s, used by %s' % (nd.name, sorted(h.name for h in have), sorted(u.name for u in using)))
    for cl in cols:
        for n in cl.node:
            if not any(n is x for x in geo.nodelist): D['node-columns'].append('column %r uses node %r which is not in the geometry' % (cl.name, n.name))
    # column-connections / neighbours
    for cl in cols:
        mine = [con for con in geo.connectionlist if any(cl is x for x in con.column)]
        have = list(cl.connection)
        if len(have) != len(mine) or any(not any(h is m for m in mine) for h in have):
            D['column-connections'].append('column %r knows connections %s, geometry has %s' % (cl.name, sorted(repr(h) for h in have), sorted(repr(m) for m in mine)))
        others = []
        for con in mine:
            for x in con.column:
                if x is not cl and not any(x is o for o in others): others.append(x)
        nb = list(cl.neighbour)
        if len(nb) != len(others) or any(not any(h is o for o in others) for h in nb):
            D['neighbours'].append('column %r has neighbours %s, connected to %s' % (cl.name, sorted(h.name for h in nb), sorted(o.name for o in others)))
        for h in nb:
            if not any(cl is x for x in h.neighbour): D['neighbours'].append('neighbour relation %r -> %r is not symmetric' % (cl.name, h.name))
    # connection-edge
    def sides(col):
        n = len(col.node)
        return [(col.node[i], col.node[(i + 1) % n]) for i in range(n)]
    for con in geo.connectionlist:
        key = '%s:%s' % tuple(cl.name for cl in con.column)
        if con.node is None or len(con.node) != 2:
            D['connection-edge'].append('connection %s has no node pair' % key); continue
        for cl in con.column:
            if not any((a is con.node[0] and b is con.node[1]) or (a is con.node[1] and b is con.node[0]) for a, b in sides(cl)):
                D['connection-edge'].append('nodes %s-%s of connection %s are not a side of column %r' % (con.node[0].name, con.node[1].name, key, cl.name))
    # name-lists: compare with what the real setup functions produce now
    saved = (geo.block_name_list, geo.block_name_index, geo.block_connection_name_list, geo.block_connection_name_index)
    try:
        geo.setup_block_name_index()
        geo.setup_block_connection_name_index()
        fresh = (geo.block_name_list, geo.block_name_index, geo.block_connection_name_list, geo.block_connection_name_index)
    except Exception as ex:
        fresh = None
        D['name-lists'].append('recomputation raises %s: %s' % (type(ex).__name__, ex))
    finally:
        geo.block_name_list, geo.block_name_index, geo.block_connection_name_list, geo.block_connection_name_index = saved
    if fresh is not None:
        if list(saved[0]) != list(fresh[0]):
            D['name-lists'].append('block_name_list is stale: %d names, fresh recomputation gives %d (first difference %r)' % (
                len(saved[0]), len(fresh[0]), next(((a, b) for a, b in zip(list(saved[0]) + [None] * 99, list(fresh[0]) + [None] * 99) if a != b), None)))
        if dict(saved[1]) != dict(fresh[1]): D['name-lists'].append('block_name_index is stale')
        if list(saved[2]) != list(fresh[2]): D['name-lists'].append('block_connection_name_list is stale: %d entries, fresh %d' % (len(saved[2]), len(fresh[2])))
        if dict(saved[3]) != dict(fresh[3]): D['name-lists'].append('block_connection_name_index is stale')
    # valid-mesh (always evaluated; only REPORTED after operations that promise it)
    if True:
        orphans = [nd.name for nd in geo.nodelist if not any(any(n is nd for n in cl.node) for cl in cols)]
        if orphans: D['valid-mesh'].append('orphan nodes %s' % orphans)
        bad = G.connection_defects(geo)
        if bad: D['valid-mesh'].append('; '.join(bad[:4]))
        try:
            if len(geo.missing_connections) or len(geo.extra_connections) or len(geo.orphans):
                D['valid-mesh'].append('real missing_connections/extra_connections/orphans not empty')
        except Exception as ex:
            D['valid-mesh'].append('missing/extra_connections raises %s' % type(ex).__name__)
    return D


# ---------------------------------------------------------------------------
# solver-decided clauses

def solver_formulas(geo):
    """clause -> (z3 formula that must hold for all values, description)."""
    F = {}
    ccw = []
    for cl in geo.columnlist:
        poly = [P(n) for n in cl.node]
        ccw.append(z3.And(G.shoelace(poly) > 0, E(cl.area) > 0) if len(poly) >= 3 else z3.BoolVal(False))
    F['ccw-area'] = z3.And(*ccw) if ccw else z3.BoolVal(True)
    el = []
    for con in geo.connectionlist:
        if con.node is None or len(con.node) != 2: continue
        a, b = P(con.node[0]), P(con.node[1])
        el.append(z3.Or(a[0] != b[0], a[1] != b[1]))
    F['edge-length'] = z3.And(*el) if el else z3.BoolVal(True)
    nl, mem = [], []
    lays = geo.layerlist[1:]
    natm = 0
    if geo.layerlist:
        natm = [1, len(geo.columnlist), 0][geo.atmosphere_type]
    listed = set(list(geo.block_name_list)[natm:]) if len(geo.block_name_list) >= natm else set()
    for cl in geo.columnlist:
        if cl.surface is None:
            nl.append(z3.BoolVal(cl.num_layers == len(lays)))
            continue
        s = E(cl.surface)
        cnt = z3.Sum(*[z3.If(E(l.bottom) < s, 1, 0) for l in lays]) if lays else z3.IntVal(0)
        nl.append(cnt == (cl.num_layers if isinstance(cl.num_layers, int) else cl.num_layers.e))
        for l in lays:
            above = s > E(l.bottom)
            mem.append(above if geo.block_name(l.name, cl.name) in listed else z3.Not(above))
    F['num_layers'] = z3.And(*nl) if nl else z3.BoolVal(True)
    F['block-membership'] = z3.And(*mem) if mem else z3.BoolVal(True)
    return F


# ---------------------------------------------------------------------------
# the alphabet of operation instances.  Arguments are abstract (canonical
# column indices, 'first'/'last') and are resolved against the current state.

def _col(order, i):
    if not order: return None
    if i == 'last': return order[-1]
    if i == 'first': return order[0]
    return order[i] if 0 <= i < len(order) else None


def resolve(step, geo, env, si):
    """-> (common step with names or None if not applicable, model -> replay step)."""
    op = step['op']
    order = G.canonical_columns(geo, env)
    pv = G.poly_value
    def ref(cl): return pv([P(n) for n in cl.node])
    if op in ('refine', 'reduce', 'decompose', 'snap', 'snap_nearest'):
        sel = step.get('sel', [])
        if sel == 'all': cols = list(order) if op in ('refine', 'reduce') else []
        elif sel == 'quads': cols = [cl for cl in order if cl.num_nodes == 4]
        elif sel == 'big': cols = [cl for cl in order if cl.num_nodes > 4]
        else: cols = [c_ for c_ in (_col(order, i) for i in sel) if c_ is not None]
        if sel not in ('all',) and not cols and op != 'decompose': return None, None
        if op == 'decompose' and geo_has_symbolic_oblique(geo): return None, None
        if op == 'refine' and any(cl.num_nodes > 4 for cl in cols): return None, None
        edge = [c_ for c_ in (_col(order, i) for i in step.get('edge', [])) if c_ is not None]
        refs, erefs = [ref(cl) for cl in cols], [ref(cl) for cl in edge]
        extra = {}
        if op == 'refine': extra = dict(bisect=step.get('bisect', False), edge=[cl.name for cl in edge])
        if op == 'snap':
            tau = env.pos('tau%d' % si); extra = dict(min_thickness=tau)
        cs = dict(op=op, cols=[cl.name for cl in cols], **extra)
        def rs(m):
            d = dict(op=op, cols=[r(m) for r in refs])
            if op == 'refine': d.update(bisect=step.get('bisect', False), edge=[r(m) for r in erefs])
            if op == 'snap': d.update(min_thickness=sym.model_value(m, tau.e))
            return d
        return cs, rs
    if op == 'rename_column' and 'cols' in step:
        # list form: the new names are a permutation / chain of the old ones (all final names distinct)
        cols = [_col(order, i) for i in step['cols']]
        if any(c_ is None for c_ in cols) or len(set(id(c_) for c_ in cols)) != len(cols): return None, None
        refs = [ref(c_) for c_ in cols]
        olds = [c_.name for c_ in cols]
        return dict(op=op, col=olds, name=CC.perm_names(olds, step['perm'])), lambda m: dict(op=op, cols=[r(m) for r in refs], perm=step['perm'])
    if op == 'rename_layer' and 'layers' in step:
        idxs = list(step['layers'])
        if any(i >= len(geo.layerlist) for i in idxs): return None, None
        olds = [geo.layerlist[i].name for i in idxs]
        return dict(op=op, layer=olds, name=CC.perm_names(olds, step['perm'], 'zq')), lambda m: dict(op=op, layers=idxs, perm=step['perm'])
    if op == 'add_extra_connection':
        # a connection between two columns that share fewer than two nodes (what a damaged file may contain)
        for a in order:
            for b in order:
                if a is b or a.is_against(b) or geo.connects(a, b): continue
                ra, rb = ref(a), ref(b)
                return dict(op='add_connection', cols=[a.name, b.name]), lambda m: dict(op='add_extra_connection', cols=[ra(m), rb(m)])
        return None, None
    if op == 'refresh':
        return dict(op='refresh'), lambda m: dict(op='refresh')
    if op == 'companion':
        comp = getattr(geo, '_vx_companion', None)
        if comp is None: return None, None
        cs, rfn = resolve(step['do'], comp, env, si)
        if cs is None or isinstance(cs, list): return None, None
        return dict(op='companion', do=cs), lambda m: dict(op='companion', do=rfn(m))
    if op in ('split', 'delete_column', 'rename_column', 'triangulate'):
        cl = _col(order, step['col'])
        if cl is None: return None, None
        r = ref(cl)
        if op == 'split':
            if cl.num_nodes <= step['node']: return None, None
            nd = cl.node[step['node']]; pn = G.pt_value(P(nd))
            return dict(op='split', col=cl.name, node=nd.name), lambda m: dict(op='split', col=r(m), node=pn(m))
        if op == 'rename_column':
            # '<same>': rename a column to the name it already has (a no-op that must stay a no-op)
            nm = cl.name if step['name'] == '<same>' else step['name']
            if nm == '<clash>':      # onto the name of another column: must be refused or done consistently
                oth = _col(order, step['other'])
                if oth is None or oth is cl: return None, None
                r2 = ref(oth)
                return dict(op=op, col=cl.name, name=oth.name), lambda m: dict(op=op, col=r(m), clash=r2(m))
            return dict(op=op, col=cl.name, name=nm), lambda m: dict(op=op, col=r(m), name=nm)
        return dict(op=op, col=cl.name), lambda m: dict(op=op, col=r(m))
    if op == 'readd_column':
        # delete a column and add an identical new one over the same nodes under a new name
        cl = _col(order, step['col'])
        if cl is None: return None, None
        r = ref(cl)
        surf = cl.surface
        cs = [dict(op='delete_column', col=cl.name), dict(op='add_column', name=step['name'], nodes=[n.name for n in cl.node], surface=surf)]
        return cs, lambda m: dict(op='readd_column', col=r(m), name=step['name'])
    if op == 'add_node':
        base = geo.nodelist[0].pos
        pos = [base[0] - 1.0, base[1] - 1.0]
        pp = G.pt_value((E(pos[0]), E(pos[1])))
        return dict(op='add_node', name=step['name'], pos=pos), lambda m: dict(op='add_node', name=step['name'], pos=pp(m))
    if op == 'check_fix':
        return dict(op='check_fix'), lambda m: dict(op='check_fix')
    if op in ('delete_node', 'delete_well'):
        return dict(op=op, name=step['name']), lambda m: dict(op=op, name=step['name'])
    if op == 'add_well':
        base = geo.columnlist[0].centre if geo.columnlist else geo.nodelist[0].pos
        top = geo.layerlist[0].bottom
        pos = [[base[0], base[1], top], [base[0], base[1], top - 1.0]]
        pts = [[E(v) for v in p] for p in pos]
        return dict(op='add_well', name=step['name'], pos=pos), \
            lambda m: dict(op='add_well', name=step['name'], pos=[[sym.model_value(m, v) for v in p] for p in pts])
    if op in ('delete_connection', 'readd_connection'):
        if not geo.connectionlist: return None, None
        con = geo.connectionlist[0 if step.get('which', 'first') == 'first' else -1]
        # canonical choice: the connection whose two columns come first in canonical order
        best = None
        for cn in geo.connectionlist:
            try: k = sorted(order.index(x) for x in cn.column)
            except ValueError: continue
            if step.get('which', 'first') == 'last': k = [-v for v in k]
            if best is None or k < best[0]: best = (k, cn)
        if best is None: return None, None
        con = best[1]
        key = tuple(cl.name for cl in con.column)
        if geo.connection.get(key) is not con: return None, None
        refs = [ref(cl) for cl in con.column]
        if op == 'delete_connection':
            return dict(op=op, cols=list(key)), lambda m: dict(op=op, cols=[r(m) for r in refs])
        return [dict(op='delete_connection', cols=list(key)), dict(op='add_connection', cols=list(key))], \
            lambda m: dict(op='readd_connection', cols=[r(m) for r in refs])
    if op == 'add_layer':
        if not geo.layerlist: return None, None
        th = env.pos('th%d' % si)
        return dict(op='add_layer', name=step['name'], thickness=th), lambda m: dict(op='add_layer', name=step['name'], thickness=sym.model_value(m, th.e))
    if op in ('delete_layer', 'rename_layer'):
        if len(geo.layerlist) < 2: return None, None
        idx = len(geo.layerlist) - 1 if step.get('layer', 'last') == 'last' else step['layer']
        if idx >= len(geo.layerlist): return None, None
        nm = geo.layerlist[idx].name
        d = dict(op=op, layer=nm)
        if op == 'rename_layer': d['name'] = step['name']
        if op == 'rename_layer' and step['name'] == '<clash>':     # onto the name of another layer
            j = step['other']
            if j >= len(geo.layerlist) or j == idx: return None, None
            d['name'] = geo.layerlist[j].name
            return d, lambda m: dict(op=op, layer=idx, clash=j)
        return d, lambda m: dict(d, layer=idx)
    if op == 'refine_layers':
        idxs = [i for i in step['layers'] if i < len(geo.layerlist)]
        if step['layers'] and not idxs: return None, None
        return dict(op=op, layers=[geo.layerlist[i].name for i in idxs], factor=step['factor']), \
            lambda m: dict(op=op, layers=idxs, factor=step['factor'])
    if op == 'translate':
        sh = [env.free('tx%d' % si), env.free('ty%d' % si), env.free('tz%d' % si)]
        return dict(op=op, shift=sh), lambda m: dict(op=op, shift=[sym.model_value(m, v.e) for v in sh])
    if op == 'rotate':
        ctr = [env.syms['ox'], env.syms['oy']]
        return dict(op=op, angle=step['angle'], centre=[SReal(ctr[0]), SReal(ctr[1])]), \
            lambda m: dict(op=op, angle=step['angle'], centre=[sym.model_value(m, v) for v in ctr])
    if op in ('copy_layers_from', 'give_layers') and (step.get('companion') or op == 'give_layers'):
        # two-geometry history: the other geometry (2x1 columns, its own symbolic layers, one symbolic surface)
        # is created on first use and stays part of the state; every clause is evaluated on it as well
        if getattr(geo, '_vx_companion', None) is not None:
            return dict(op=op, companion=True), lambda m: dict(op=op, companion=True)
        n = step['n']
        th = [env.pos('cz%d_%d' % (si, i)) for i in range(n)]
        top = env.free('ctop%d' % si)
        sf = env.between('csf%d' % si, top - th[0], top)
        return dict(op=op, companion=True, thicknesses=th, top=top, surface=sf), \
            lambda m: dict(op=op, companion=True, thicknesses=[sym.model_value(m, v.e) for v in th], top=sym.model_value(m, top.e),
                           surface=sym.model_value(m, sf.e))
    if op == 'copy_layers_from':
        n = step['n']
        th = [env.pos('cz%d_%d' % (si, i)) for i in range(n)]
        top = env.free('ctop%d' % si)
        return dict(op=op, thicknesses=th, top=top), \
            lambda m: dict(op=op, thicknesses=[sym.model_value(m, v.e) for v in th], top=sym.model_value(m, top.e))
    raise ValueError(op)


def geo_has_symbolic_oblique(geo):
    """decompose_column calls asin on the edge directions of columns with more
    than 4 sides: possible only when those are concrete or axis-aligned."""
    for cl in geo.columnlist:
        if cl.num_nodes <= 4: continue
        n = cl.num_nodes
        for i in range(n):
            a, b = cl.node[i].pos, cl.node[(i + 1) % n].pos
            dx, dy = z3.simplify(E(b[0]) - E(a[0])), z3.simplify(E(b[1]) - E(a[1]))
            if sym.numeral_value(dx) is None or sym.numeral_value(dy) is None:
                if not (sym.numeral_value(dx) == 0 or sym.numeral_value(dy) == 0): return True
    return False


def step_kind(step):
    k = step['op']
    if k == 'refine' and step.get('bisect', False) is not False: k = 'refine[bisect]'
    if k in ('rename_column', 'rename_layer'):
        if 'cols' in step or 'layers' in step: k += '[list]'
        elif step.get('name') == '<clash>': k += '[clash]'
    if k == 'companion': k = 'companion.' + step_kind(step['do'])
    return k


def step_text(step):
    return step['op'] + '(' + ','.join('%s=%s' % (k, v) for k, v in sorted(step.items()) if k != 'op') + ')'


# ---------------------------------------------------------------------------

def run_sequence(fam, steps, name, failures, samples, distinct, counters):
    ld = G._load()
    M = ld.mulgrids

    def h(c):
        G.reset_hash()
        env = G.SymEnv(c)
        geo = CC.build(M, fam, env)
        replay_steps = []
        prof = sys.getprofile()
        # status of every clause in the initial state (must hold: the families are valid meshes)
        status = {}
        def evaluate(si, kind, promises, report_it=True):
            # every geometry that takes part in the history: the primary one and, once a two-geometry
            # operation (copy_layers_from / give_layers with a companion) has run, the companion
            targets = [('', geo)]
            if getattr(geo, '_vx_companion', None) is not None: targets.append(('companion:', geo._vx_companion))
            for pre, g in targets:
                evaluate_one(si, kind, promises and not pre, report_it, pre, g)
        def evaluate_one(si, kind, promises, report_it, pre, g):
            sys.setprofile(None)
            try:
                D = structure_defects(g, promises)
                Fm = solver_formulas(g)
            finally:
                sys.setprofile(prof)
            tgt = 'companion' if pre else 'primary'
            for cl in CONCRETE_CLAUSES:
                held = status.get(pre + cl, True)
                ok = not D[cl]
                if (cl == 'valid-mesh' and not promises) or not report_it:
                    status[pre + cl] = ok          # low-level edits promise nothing / set-up step: only remember the state
                    continue
                if held:
                    counters['concrete'] += 1
                    r = c.prove(ok, '%s%s after %s' % (pre, cl, kind))
                    if not ok:
                        m = c.failures[-1]['model']
                        failures.append(dict(key='%s/%s%s' % (kind, pre, cl), what='%s: after step %d %s: %s%s' % (name, si, kind, pre, D[cl][0]),
                                             replay=dict(family=fam, values=env.witness(m), steps=[fn(m) for fn in replay_steps],
                                                         clause=cl, step=si, detail=D[cl][:3], target=tgt)))
                status[pre + cl] = ok
            for cl in SOLVER_CLAUSES:
                f = Fm[cl]
                held = status.get(pre + cl, True)
                if held and report_it:
                    distinct.add((cl, z3.simplify(f).hash()))
                    r = c.prove(f, '%s%s after %s' % (pre, cl, kind))
                    if r == 'sat':
                        m = c.failures[-1]['model']
                        failures.append(dict(key='%s/%s%s' % (kind, pre, cl), what='%s: after step %d %s: %s%s fails for some values' % (name, si, kind, pre, cl),
                                             replay=dict(family=fam, values=env.witness(m), steps=[fn(m) for fn in replay_steps],
                                                         clause=cl, step=si, target=tgt)))
                    status[pre + cl] = (r == 'unsat')
                else:
                    r, _m = c.solve(z3.Not(f))
                    status[pre + cl] = (r == 'unsat')
        evaluate(-1, 'initial', True)
        if not all(status.values()):
            return 'initial-state-invalid:%s' % [k for k, v in status.items() if not v]
        applied = 0
        for si, step in enumerate(steps):
            cs, rfn = resolve(step, geo, env, si)
            if cs is None:
                return 'not-applicable@%d' % si
            replay_steps.append(rfn)
            try:
                for one in (cs if isinstance(cs, list) else [cs]):
                    ret = CC.apply_step(M, geo, one)
            except ZeroDivisionError:
                c.prove(False, 'degenerate column in %s' % step['op'])
                m = c.failures[-1]['model']
                failures.append(dict(key='%s/degenerate' % step_kind(step), what='%s: step %d creates a zero-area column' % (name, si),
                                     replay=dict(family=fam, values=env.witness(m), steps=[fn(m) for fn in replay_steps], clause='degenerate', step=si)))
                return 'degenerate-column'
            except Exception as ex:
                # a loud failure is not an inconsistency; the ones seen on the unchanged
                # tree are listed in EXPECTED_RAISES (and in the notes), any other is reported
                broken = sorted(k for k, v in status.items() if not v)
                tag = (step['op'], type(ex).__name__)
                if broken: return 'raised-from-broken-state:%s:%s' % tag
                if tag in EXPECTED_RAISES: return 'raised:%s:%s' % tag
                c.prove(False, '%s raises %s' % tag)
                m = c.failures[-1]['model']
                failures.append(dict(key='%s/raises-%s' % (step_kind(step), type(ex).__name__),
                                     what='%s: step %d raises %s: %s' % (name, si, type(ex).__name__, str(ex)[:120]),
                                     replay=dict(family=fam, values=env.witness(m), steps=[fn(m) for fn in replay_steps], clause='raises', step=si,
                                                 exception=type(ex).__name__)))
                return 'raised-unexpected:%s:%s' % tag
            applied += 1
            kind = step_kind(step)
            if step['op'] == 'refine' and not isinstance(cs, list) and cs['cols'] and all(geo.column.get(nm) is not None for nm in cs['cols']) \
                    and any(cl.num_nodes > 4 for cl in geo.columnlist):
                kind += '-refused'      # refine() declined (a column with more than 4 sides is affected) and kept the selection
            evaluate(si, kind, step['op'] in CC.PROMISES_VALID_MESH, report_it=not step.get('setup'))
        if len(samples) < 2:
            samples.append(dict(sequence=[step_text(s) for s in steps], family=fam,
                                final_status={k: v for k, v in status.items()}, columns=geo.num_columns))
        return 'checked'
    res = sym.explore(h, sym.Ctx(timeout_ms=20000), max_paths=600, wall_s=900)
    return res


def task_sequences(fam, seqs, name):
    """One task = a batch of sequences on one family (each its own exploration)."""
    failures, samples, distinct = [], [], set()
    counters = dict(concrete=0)
    agg = None
    outcomes = {}
    for k, steps in enumerate(seqs):
        res = run_sequence(fam, steps, '%s[%s]' % (name, ' ; '.join(step_text(s) for s in steps)), failures, samples, distinct, counters)
        tr = report.summarize(name, res, [], [], extra={})
        if agg is None: agg = tr
        else:
            for key, v in tr['stats'].items(): agg['stats'][key] = agg['stats'].get(key, 0) + v
            agg['exhausted'] = agg['exhausted'] and tr['exhausted']
            agg['pending'] += tr['pending']
            agg['aborted'] += tr['aborted']; agg['unknowns'] += tr['unknowns']
            agg['wall_s'] += tr['wall_s']
            agg['stubs'] = sorted(set(agg['stubs']) | set(tr['stubs']))
            agg['extra']['functions'] = sorted(set(agg['extra'].get('functions', [])) | set(tr['extra'].get('functions', [])))
        for o, n in tr['outcomes'].items(): outcomes[o] = outcomes.get(o, 0) + n
    agg['outcomes'] = outcomes
    agg['failures'] = failures
    agg['samples'] = samples
    agg['extra']['distinct_obligations'] = len(distinct)
    agg['extra']['sequences'] = len(seqs)
    agg['extra']['concrete_evaluations'] = counters['concrete']
    return agg


# ---------------------------------------------------------------------------
# alphabets and sequence enumeration

R22 = dict(kind='RECT', nx=2, ny=2, nz=2, surf='sparse')
R32 = dict(kind='RECT', nx=3, ny=2, nz=2, surf='sparse2')
MIXS = dict(kind='MIX', nz=2, surf='sparse')
MIXC = dict(kind='MIX', nz=2, surf='sparse', concrete=True)
HANG = dict(kind='HANG', nz=2, hang=[1, 0, 1, 0], surf='sparse')


def _subsets(n):
    return [[i for i in range(n) if m >> i & 1] for m in range(1, 2 ** n)]


# round 4 alphabets
SHARE = [dict(op='copy_layers_from', n=2, companion=True), dict(op='give_layers', n=2)]
SHARED_EDITS = [dict(op='translate'), dict(op='rename_layer', layer='last', name='zz'), dict(op='refine_layers', layers=[1], factor=2),
                dict(op='companion', do=dict(op='translate')), dict(op='companion', do=dict(op='rename_layer', layer=1, name='zq')),
                dict(op='companion', do=dict(op='refine_layers', layers=[], factor=2))]
SHARED_EDITS_ATM = [dict(op='rename_layer', layer=0, name='zr'), dict(op='companion', do=dict(op='rename_layer', layer=0, name='zr'))]   # the atmosphere layer
RENAMES = [dict(op='rename_column', cols=[0, 1], perm='swap'), dict(op='rename_column', cols=[0, 1, 2], perm='cycle'),
           dict(op='rename_column', cols=[0, 1], perm='chain'), dict(op='rename_layer', layers=[1, 2], perm='swap'),
           dict(op='rename_layer', layers=[0, 1], perm='chain'),
           dict(op='rename_column', cols=[1, 0], perm='unchain'), dict(op='rename_layer', layers=[2, 1], perm='unchain'),
           dict(op='rename_column', col=0, name='<clash>', other=1), dict(op='rename_layer', layer=1, name='<clash>', other=2)]
DAMAGE = [[dict(op='add_extra_connection', setup=True)], [dict(op='delete_connection', which='first')], [dict(op='readd_column', col=0, name='new')]]


def alphabet(level, ncols):
    """Operation instances.  'full': length-1 sequences; 'mid' (26 operations) /
    'mid14' / 'small' (8) / 'tiny' (5): longer sequences."""
    small = [dict(op='refine', sel=[0]), dict(op='split', col=0, node=1), dict(op='delete_column', col='last'), dict(op='snap', sel=[1]),
             dict(op='refine_layers', layers=[1], factor=2), dict(op='refine', sel=[1, 'last'], bisect='x'), dict(op='reduce', sel=[0, 1, 2]),
             dict(op='translate')]
    if level == 'tiny': return small[:5]
    if level == 'small': return small
    mid14 = small + [dict(op='refine', sel='all'), dict(op='rename_column', col=0, name='xyz'), dict(op='rename_column', col=1, name='<same>'), dict(op='readd_connection', which='last'),
                     dict(op='rotate', angle=30.0), dict(op='copy_layers_from', n=3), dict(op='snap_nearest', sel=[0])]
    if level == 'mid14': return mid14
    extra = [dict(op='split', col='last', node=2), dict(op='rename_layer', layer='last', name='zz'),
             dict(op='readd_column', col=0, name='new'), dict(op='add_node', name='zzz'), dict(op='delete_node', name='zzz'),
             dict(op='delete_connection', which='first'), dict(op='add_layer', name='zy'), dict(op='delete_layer', layer='last'),
             dict(op='add_well', name='w1'), dict(op='delete_well', name='w1'), dict(op='decompose', sel='all'), dict(op='triangulate', col=0)]
    if level == 'mid': return mid14 + extra
    A = []
    lean = level == 'full-quick'
    subsets = _subsets(ncols) if ncols <= 4 else [[0], [ncols - 1], [0, 1], [1, 4], [0, 1, 2], [0, 2, 3, 5], [1, 2, 3, 4, 5], list(range(ncols))]
    for sub in subsets:
        A.append(dict(op='refine', sel=sub))
        A.append(dict(op='reduce', sel=sub))
    for sub in subsets[:3 if lean else 6]:
        A.append(dict(op='refine', sel=sub, bisect='x'))
        A.append(dict(op='refine', sel=sub, bisect='y'))
    A.append(dict(op='refine', sel=[0], bisect=True))
    A.append(dict(op='refine', sel=[0], edge=[1]))
    for cidx in range(min(ncols, 2 if lean else 4)):
        for nd in range(4):
            A.append(dict(op='split', col=cidx, node=nd))
        A.append(dict(op='delete_column', col=cidx))
    for layers in ([], [1], [2], [1, 2]):
        for f in ((2,) if lean else (2, 3)):
            A.append(dict(op='refine_layers', layers=layers, factor=f))
    A += [dict(op='snap', sel='all'), dict(op='snap', sel=[0, 1]), dict(op='snap_nearest', sel='all'), dict(op='snap_nearest', sel=[1])]
    A += [a for a in mid14 + extra if a['op'] not in ('refine', 'split', 'delete_column', 'snap', 'snap_nearest', 'refine_layers', 'reduce')]
    A += [dict(op='rotate', angle=90.0), dict(op='copy_layers_from', n=1), dict(op='rename_column', col='last', name='q q'),
          dict(op='delete_connection', which='last')]
    return A


def plan(tier):
    """-> list of (family, [sequences], task name)"""
    out = []
    def batches(fam, seqs, name, size):
        for i in range(0, len(seqs), size):
            out.append((fam, seqs[i:i + size], '%s/%d' % (name, i // size)))
    thorough = tier == 'thorough'
    fams = [('R2x2', R22, 4), ('R3x2', R32, 6), ('MIX', MIXS, 5)]
    for tag, fam, n in fams:
        A1 = alphabet('full' if thorough else ('full-quick' if tag == 'R2x2' else 'mid'), n)
        batches(fam, [[a] for a in A1], '%s/len1' % tag, 10)
        if thorough: A2 = alphabet('mid', n)[:16] if tag == 'R2x2' else alphabet('small', n)
        else: A2 = alphabet('small', n)[:6] if tag == 'R2x2' else alphabet('tiny', n)[:4]
        batches(fam, [[a, b] for a in A2 for b in A2], '%s/len2' % tag, 12 if thorough else 8)
        if thorough:
            A3 = alphabet('small', n)[:6] if tag == 'R2x2' else alphabet('tiny', n)[:4]
            batches(fam, [[a, b, d] for a in A3 for b in A3 for d in A3], '%s/len3' % tag, 12)
    # atmosphere types 0 and 1: the atmosphere layer / atmosphere blocks take part in the name lists
    for atm in (0, 1):
        fam = dict(R22, atm=atm)
        seqs = [[dict(op='rename_layer', layer=0, name='zq')], [dict(op='rename_layer', layer='last', name='zz')],
                [dict(op='refine_layers', layers=[], factor=2)], [dict(op='refine', sel=[0])], [dict(op='delete_column', col='last')],
                [dict(op='snap', sel=[1])], [dict(op='rename_column', col=0, name='xyz')]]
        if thorough: seqs += [[a[0], b[0]] for a in seqs[:4] for b in seqs[:4]]
        batches(fam, seqs, 'R2x2-atm%d' % atm, 8)
    # targeted sequences: a mesh with really missing connections (direct triangulate_column, a re-added
    # column, a deleted connection), then the repairing operations check(fix=True, silent=True) / reduce
    breakers = [dict(op='triangulate', col=0), dict(op='readd_column', col=0, name='new'), dict(op='delete_connection', which='first'),
                dict(op='readd_column', col='last', name='nw2')]
    fixers = [dict(op='check_fix'), dict(op='reduce', sel='all')]
    for tag, fam, n in fams:
        seqs = [[b, f] for b in breakers for f in fixers]
        if thorough: seqs += [[b, f, dict(op='split', col=1, node=0)] for b in breakers[:2] for f in fixers] + [[dict(op='check_fix')]]
        batches(fam, seqs, '%s/repair' % tag, 4)
    # --- round 4 -------------------------------------------------------------------------------------
    # (a) histories over TWO geometries linked by copy_layers_from (either direction): an edit of either
    #     geometry afterwards must leave BOTH consistent (all clauses are evaluated on both)
    for tag, fam, n in (fams if thorough else fams[:1]):
        seqs = [[s_, e] for s_ in SHARE for e in SHARED_EDITS if thorough or e.get('do', e)['op'] != 'refine_layers']
        if thorough and tag == 'R2x2': seqs += [[s_, e, f] for s_ in SHARE for e in SHARED_EDITS for f in SHARED_EDITS if e is not f]
        if thorough and tag == 'R2x2': seqs += [[s_, e] for s_ in SHARE for e in SHARED_EDITS_ATM]
        batches(fam, seqs, '%s/two-geometries' % tag, 3 if not thorough else 6)
    # (b) list forms of rename_column / rename_layer whose new names are old names of other renamed objects
    #     (swap, 3-cycle, chain: all final names distinct), and a rename onto a name that stays in use
    for tag, fam in (('R2x2', R22), ('MIX', MIXS), ('R2x2-atm0', dict(R22, atm=0)), ('R2x2-atm1', dict(R22, atm=1))):
        seqs = [[a] for a in RENAMES]
        if thorough: seqs += [[a, b] for a in RENAMES[:5] for b in (dict(op='refine', sel=[0]), dict(op='delete_column', col='last'))]
        if thorough or tag in ('R2x2', 'R2x2-atm0'): batches(fam, seqs, '%s/rename-lists' % tag, 5 if not thorough else 10)
    # (c) check(fix=True) called directly (not through reduce) on a mesh with an extra / a missing connection
    #     whose derived data were refreshed by the caller beforehand (set-up steps: not reported themselves)
    for tag, fam, n in fams:
        seqs = [pre + [dict(op='refresh', setup=True), f] for pre in DAMAGE for f in (fixers if thorough or tag == 'R2x2' else fixers[:1])]
        if thorough or tag != 'R3x2': batches(fam, seqs, '%s/check-fix' % tag, 3 if not thorough else 6)
    # meshes with many-sided columns: decompose (concrete coordinates where angles are needed)
    D = [dict(op='decompose', sel='all'), dict(op='decompose', sel='big'), dict(op='triangulate', col=0), dict(op='refine_layers', layers=[], factor=2),
         dict(op='snap', sel=[1]), dict(op='delete_column', col='last'), dict(op='reduce', sel=[0, 1, 2])]
    for tag, fam in (('MIXc', MIXC), ('HANG', HANG)):
        batches(fam, [[a] for a in D], '%s/len1' % tag, 7)
        D2 = D if thorough else D[:3]
        batches(fam, [[a, b] for a in D2 for b in D2], '%s/len2' % tag, 10 if thorough else 8)
        if thorough:
            D3 = D[:3]
            batches(fam, [[a, b, d] for a in D3 for b in D3 for d in D3], '%s/len3' % tag, 12)
    return out


RULE = ('one obligation = one clause (ccw-area, edge-length, num_layers, block-membership: z3 query over all symbolic values; '
        'dict-list, node-columns, column-connections, neighbours, connection-edge, name-lists, valid-mesh: evaluated on the path) '
        'after one step of one enumerated edit sequence, checked only while it still held before that step; '
        'distinct = distinct non-constant z3 formulas by (clause, AST hash)')


def run(tier, seed, rep):
    G._load()
    pl = plan(tier)
    tasks = [(task_sequences, dict(fam=fam, seqs=seqs, name=name)) for fam, seqs, name in pl]
    if seed:
        import random
        random.Random(seed).shuffle(tasks)
    results = report.run_tasks(tasks, wall_s=1500 if tier == 'thorough' else 420)
    rep.add_results(results)
    nseq = sum(len(s) for _f, s, _n in pl)
    by_len = {}
    for _f, s, _n in pl:
        for q in s: by_len[len(q)] = by_len.get(len(q), 0) + 1
    checked = sum(r.get('outcomes', {}).get('checked', 0) for r in results if not r.get('error'))
    if checked == 0: rep.harness_error('no sequence reached the end')
    rep.extra['sequences'] = nseq
    rep.extra['tier_plan'] = tier
    rep.extra['sequences_by_length'] = by_len
    rep.extra['concrete_clause_evaluations'] = sum(r.get('extra', {}).get('concrete_evaluations', 0) for r in results if not r.get('error'))
    rep.extra['path_outcomes'] = {}
    for r in results:
        for o, n in (r.get('outcomes') or {}).items():
            o = o.split('@')[0]
            rep.extra['path_outcomes'][o] = rep.extra['path_outcomes'].get(o, 0) + n
    rep.bounds += [
        'edit sequences: BOUNDED ENUMERATION, not a solver verdict - %d sequences (%s by length) over a fixed alphabet of operation instances; length <= %d' % (
            nseq, ', '.join('%d of length %d' % (v, k) for k, v in sorted(by_len.items())), 3 if tier == 'thorough' else 2),
        'meshes: RECT(2x2) and RECT(3x2) with symbolic spacings/origin/2 layer thicknesses/per-column surfaces (enumerated placement pattern), MIX (2 quadrilaterals, 2 triangles, 1 pentagon on a fixed layout with symbolic stretch sx, sy > 0 and origin), '
        'MIXc (same, concrete coordinates, for decompose_columns), HANG (hexagonal column with two hanging nodes and four small neighbours, symbolic lengths)',
        'length 1: refine / reduce with every column subset of RECT(2x2) (8 representative subsets on 3x2, MIX in the thorough tier), x/y/longest bisection, bisected edge column, split_column at every node of 2 (quick) / 4 (thorough) columns, delete_column, '
        'refine_layers (4 layer subsets x factor 2 (,3 thorough)), snap_columns_to_layers (symbolic threshold), snap_columns_to_nearest_layers, rename_column/layer, delete+add column, add/delete node, delete(+add) connection, add/delete layer, '
        'add/delete well, translate (symbolic shift), rotate 30 and 90 degrees about the symbolic origin, copy_layers_from (1 or 3 symbolic layers), decompose_columns, triangulate_column',
        'length 2: %s; length 3 (thorough only): 6-operation alphabet cubed on RECT(2x2), 4-operation alphabet cubed on RECT(3x2) and MIX, 3 cubed on MIXc and HANG' % ('16-operation alphabet squared on RECT(2x2), 8-operation alphabet squared on RECT(3x2) and MIX, 7 squared on MIXc and HANG' if tier == 'thorough' else '6-operation alphabet squared on RECT(2x2), 4-operation alphabet squared on RECT(3x2) and MIX, 3 squared on MIXc and HANG'),
        'targeted repair sequences on the three main meshes: {triangulate_column, delete+add column (first / last), delete_connection} followed by {check(fix=True, silent=True), reduce(all)}',
        'two-geometry histories (round 4): copy_layers_from in either direction between the mesh and a second geometry (2x1 columns, 2 symbolic layers, symbolic top, one symbolic surface), followed by translate / rename_layer / refine_layers of either geometry; ALL clauses are evaluated on both geometries after every step (keys <op>/companion:<clause> for the second geometry, companion.<op>/<clause> for an edit applied to it)',
        'list forms of rename_column / rename_layer (round 4): swap, 3-cycle, chain (each takes the old name of the next, the last a fresh name), the same chain listed in the order that works one by one, and a rename onto a name that stays in use; on RECT(2x2) with atmosphere types 2 and 0 (thorough: also type 1 and MIX, each followed by refine / delete_column)',
        'check(fix=True, silent=True) and reduce(all) on a mesh with an EXTRA connection (add_connection between two columns that share fewer than two nodes) or a missing one (delete_connection, delete+add column) after the caller refreshed the derived data (setup_block_name_index, setup_block_connection_name_index, identify_neighbours)',
        'for each sequence and each path: the four solver clauses hold for ALL values of the symbols']
    rep.outside += ['sequences longer than %d; operation arguments outside the alphabet; meshes other than the five listed' % (3 if tier == 'thorough' else 2),
                    'random sequences up to length 25 on geometries up to 300 columns, the shipped geometries, the file round trip after the edits (C03 covers the round trip)',
                    'fit_surface / fit_columns (least-squares fitting, numerical), optimize, from_gmsh / from_amesh',
                    'an inductive argument over arbitrary mesh topologies (no symbolic topology within reach) - hence the weak claim',
                    'rotate by a symbolic angle (cos/sin); rotation about the area-weighted grid centre (a rational function of the symbols): the rotation centre is the symbolic origin']
    rep.assumptions += [
        'set iteration order of node/column/connection objects fixed by a first-use counter hash (see C11)',
        'a clause already broken by an earlier step of the sequence is not re-reported for later steps (it is re-evaluated, so an operation that repairs it re-arms it)',
        'name-lists compares the stored lists with what the REAL setup_block_name_index / setup_block_connection_name_index produce now (then restores the stored lists)',
        'valid-mesh is only required after refine, split_column, decompose_columns and reduce (operations that promise a valid mesh)',
        'steps marked setup (add_extra_connection, refresh) only prepare a state: the clause status is recorded after them but nothing is reported for them (an extra connection deliberately breaks connection-edge / valid-mesh)',
        'triangulate_column is a low-level call: name lists are not expected to be refreshed by it only if the clause was already broken; otherwise staleness is reported under its key']
    rep.trusted += ['structure_defects / solver_formulas in harness/C10.py; shoelace and canonical ordering from harness/C11.py']
    rep.process_failures()
    return rep.finish(rule=RULE, explanation='weak claim: solver decides geometric validity per step for all coordinate values; structural back-references are evaluated concretely per path; histories by bounded enumeration only')
