"""Independent geometric oracle for C04 / C18 (no z3, no PyTOUGH imports).

Everything here is computed from the harness' OWN description of the geometry
(vertex coordinates, vertex-index lists, layer thicknesses, surfaces) with
short textbook formulas: shoelace area, fan-triangulation centroid, squared
point-to-line distance by cross product, area x height.  It never calls back
into the code under test.  The same code serves the symbolic harness (numbers
are vx.sym proxies) and the concrete replay (numbers are floats): only + - *
and the small `ops` object (conditions, min) are used on values.
"""
import math


class ConcreteOps(object):
    """Number operations for plain floats (replay)."""
    symbolic = False
    def decide(self, cond): return bool(cond)
    def ite(self, cond, a, b): return a if cond else b
    def min2(self, a, b): return a if a <= b else b
    def abs(self, a): return abs(a)


# ---------------------------------------------------------------------------
# plane geometry

def shoelace(pts):
    """Signed area of polygon pts = [(x, y), ...] (positive if anticlockwise)."""
    n = len(pts)
    s = 0
    for i in range(n):
        x1, y1 = pts[i]; x2, y2 = pts[(i + 1) % n]
        s = s + (x1 * y2 - x2 * y1)
    return s * 0.5


def fan_centroid_times_area(pts):
    """(A*Cx, A*Cy, A) of a polygon by fan triangulation from vertex 0
    (area-weighted mean of triangle centroids) - no division."""
    x0, y0 = pts[0]
    ax = ay = a = 0
    for i in range(1, len(pts) - 1):
        x1, y1 = pts[i]; x2, y2 = pts[i + 1]
        t = ((x1 - x0) * (y2 - y0) - (x2 - x0) * (y1 - y0)) * 0.5     # triangle area
        ax = ax + t * (x0 + x1 + x2)
        ay = ay + t * (y0 + y1 + y2)
        a = a + t
    return ax, ay, a          # centroid = (ax / (3a), ay / (3a))


def cross2(ax, ay, bx, by):
    return ax * by - ay * bx


# ---------------------------------------------------------------------------
# mesh families.  A mesh is a dict:
#   verts  [(x, y)]                 vertex coordinates
#   cols   [[vertex index, ...]]    one polygon per column, ANTICLOCKWISE
#   given  [[vertex index, ...]]    order in which the harness hands the nodes to column()
#   centre [(cx, cy) | None]        independent centre where a simple one exists
#   cons   [(col a, col b)]         geometry connections in creation order
#   ztop, dz                        top elevation and layer thicknesses (top -> bottom)

def rect_mesh(dx, dy, dz, origin):
    """RECT(nx, ny, nz): the documented numbering of mulgrid.rectangular():
    columns row by row (x fastest), x-connections first (row by row), then
    y-connections (column by column)."""
    nx, ny = len(dx), len(dy)
    xs = [origin[0]]
    for d in dx: xs.append(xs[-1] + d)
    ys = [origin[1]]
    for d in dy: ys.append(ys[-1] + d)
    verts = [(x, y) for y in ys for x in xs]
    nxv = nx + 1
    cols, centre = [], []
    for j in range(ny):
        for i in range(nx):
            v = [j * nxv + i, j * nxv + i + 1, (j + 1) * nxv + i + 1, (j + 1) * nxv + i]
            cols.append(v)
            centre.append((xs[i] + dx[i] * 0.5, ys[j] + dy[j] * 0.5))
    cons = []
    for j in range(ny):
        for i in range(nx - 1): cons.append((j * nx + i, j * nx + i + 1))
    for i in range(nx):
        for j in range(ny - 1): cons.append((j * nx + i, (j + 1) * nx + i))
    return dict(family='rect', verts=verts, cols=cols, given=None, centre=centre, cons=cons,
                ztop=origin[2], dz=list(dz), nx=nx, ny=ny)


def rotate_translate(mesh, cs=None, centre=(0, 0), shift=None):
    """x' = R (x - centre) + centre (+ shift), R = [[c, s], [-s, c]] (clockwise
    by the angle whose cosine/sine are c, s), applied to vertices and centres."""
    c, s = cs if cs else (1, 0)
    def tr(p):
        x, y = p[0] - centre[0], p[1] - centre[1]
        xr, yr = c * x + s * y + centre[0], -s * x + c * y + centre[1]
        if shift: xr, yr = xr + shift[0], yr + shift[1]
        return (xr, yr)
    out = dict(mesh)
    out['verts'] = [tr(p) for p in mesh['verts']]
    out['centre'] = [None if p is None else tr(p) for p in mesh['centre']]
    if shift: out['ztop'] = mesh['ztop'] + shift[2]
    return out


def shared_edge(mesh, a, b):
    """The two vertex indices common to columns a and b (in a's anticlockwise order)."""
    va, vb = mesh['cols'][a], mesh['cols'][b]
    n = len(va)
    for i in range(n):
        p, q = va[i], va[(i + 1) % n]
        if p in vb and q in vb: return p, q
    raise ValueError('columns %d and %d share no edge' % (a, b))


def layer_levels(mesh):
    """tops, bottoms, centres of layers 1..nz (index 0 = first underground layer)."""
    tops, bots, mids = [], [], []
    z = mesh['ztop']
    for d in mesh['dz']:
        tops.append(z); z = z - d; bots.append(z); mids.append(z + d * 0.5)
    return tops, bots, mids


# ---------------------------------------------------------------------------
# expected grid

class Expected(object):
    """What the TOUGH2 grid of (mesh, surfaces, configuration) has to be."""

    def __init__(self, ops, mesh, surf, atm_type, block_order='layer_column',
                 perm_cs=(1.0, 0.0), atm_volume=None, atm_connection=None):
        self.ops, self.mesh, self.surf = ops, mesh, surf
        self.atm_type, self.block_order = atm_type, block_order or 'layer_column'
        self.perm_cs = perm_cs
        self.atm_volume, self.atm_connection = atm_volume, atm_connection
        self.tops, self.bots, self.mids = layer_levels(mesh)
        self.nz, self.nc = len(mesh['dz']), len(mesh['cols'])
        V = mesh['verts']
        self.poly = [[V[i] for i in col] for col in mesh['cols']]
        self.area = [shoelace(p) for p in self.poly]
        d = ops.decide
        # which (layer, column) cells hold a block, and which is the column's top block
        self.exists = [[d(surf[c] > self.bots[k]) for c in range(self.nc)] for k in range(self.nz)]
        self.is_top = [[self.exists[k][c] and (k == 0 or d(surf[c] <= self.tops[k]))
                        for c in range(self.nc)] for k in range(self.nz)]

    # -- per block ---------------------------------------------------------
    def block_top(self, k, c):
        return self.surf[c] if self.is_top[k][c] else self.tops[k]

    def height(self, k, c):
        return self.block_top(k, c) - self.bots[k]

    def volume(self, k, c):
        return self.area[c] * self.height(k, c)

    def centre_z(self, k, c):
        """layer centre, except in a top block whose surface is not above the layer top"""
        s = self.surf[c]
        if self.is_top[k][c] and (k > 0 or self.ops.decide(s <= self.tops[0])):
            return (self.bots[k] + s) * 0.5
        return self.mids[k]

    def total_rock_volume(self):
        tot = 0
        for c in range(self.nc):
            tot = tot + self.area[c] * (self.surf[c] - self.bots[-1])
        return tot

    # -- lists ---------------------------------------------------------------
    def block_cells(self):
        """[(k, c)] in announced order; k = -1 for atmosphere, c = None for the single one."""
        out = []
        if self.atm_type == 0: out.append((-1, None))
        elif self.atm_type == 1: out += [(-1, c) for c in range(self.nc)]
        cells = [(k, c) for k in range(self.nz) for c in range(self.nc) if self.exists[k][c]]
        if self.block_order == 'dmplex':
            nn = [len(col) for col in self.mesh['cols']]
            if any(n not in (3, 4) for n in nn):
                raise ValueError('dmplex order undefined for columns with %s nodes' % sorted(set(nn)))
            cells = [kc for kc in cells if nn[kc[1]] == 4] + [kc for kc in cells if nn[kc[1]] == 3]
        return out + cells

    def connection_cells(self):
        """[(kind, k, lower cell, upper cell | (a, b))] in announced order.
        vertical: ('v', k, c, above) with above = (k-1, c) or (-1, c|None);
        horizontal: ('h', k, a, b)."""
        out = []
        for k in range(self.nz):
            for c in range(self.nc):
                if not self.exists[k][c]: continue
                if self.is_top[k][c]:
                    if self.atm_type == 0: out.append(('v', k, c, (-1, None)))
                    elif self.atm_type == 1: out.append(('v', k, c, (-1, c)))
                else:
                    out.append(('v', k, c, (k - 1, c)))
            for (a, b) in self.mesh['cons']:
                if self.exists[k][a] and self.exists[k][b]: out.append(('h', k, a, b))
        return out

    # -- numeric obligations ---------------------------------------------------
    # each: (label, kind, lhs, rhs) ; kind 'eq': lhs == rhs, 'ge': lhs >= rhs, 'le': lhs <= rhs

    def column_obligations(self, c, code_area, code_centre):
        ob = [('column area', 'eq', code_area, self.area[c]),
              ('column area positive', 'ge', self.area[c], 0)]
        ctr = self.mesh['centre'][c]
        if ctr is not None:
            ob += [('column centre x', 'eq', code_centre[0], ctr[0]),
                   ('column centre y', 'eq', code_centre[1], ctr[1])]
        else:
            ax, ay, a = fan_centroid_times_area(self.poly[c])
            ob += [('column centre x', 'eq', code_centre[0] * a * 3, ax),
                   ('column centre y', 'eq', code_centre[1] * a * 3, ay)]
        return ob

    def block_obligations(self, k, c, volume, centre, col_centre):
        return [('block volume', 'eq', volume, self.volume(k, c)),
                ('block centre x', 'eq', centre[0], col_centre[0]),
                ('block centre y', 'eq', centre[1], col_centre[1]),
                ('block centre z', 'eq', centre[2], self.centre_z(k, c))]

    def vertical_obligations(self, k, c, above, con, zc_this, zc_above):
        """con = (d_this, d_above, area, dircos, direction) from the code."""
        d1, d2, area, dircos, direction = con
        ob = [('vertical area', 'eq', area, self.area[c]),
              ('vertical gravity cosine', 'eq', dircos, -1),
              ('vertical permeability direction', 'eq', direction, 3)]
        if above[0] == -1:
            ob += [('atmosphere connection: block centre to surface', 'eq', d1, self.surf[c] - zc_this),
                   ('atmosphere connection: atmosphere distance', 'eq', d2, self.atm_connection)]
        else:
            ob += [('vertical distances sum to centre separation', 'eq', d1 + d2, zc_above - zc_this),
                   ('vertical distance lower block to interface', 'eq', d1, self.tops[k] - zc_this),
                   ('vertical distance upper block to interface', 'eq', d2, zc_above - self.tops[k])]
        return ob

    def horizontal_obligations(self, k, a, b, con, ctr_a, ctr_b):
        """ctr_* = 3-D block centres (already tied to the oracle by block obligations)."""
        d1, d2, area, dircos, direction = con
        V = self.mesh['verts']
        p, q = shared_edge(self.mesh, a, b)
        ex, ey = V[q][0] - V[p][0], V[q][1] - V[p][1]
        e2 = ex * ex + ey * ey
        hmin = self.ops.min2(self.height(k, a), self.height(k, b))
        ob = [('horizontal area >= 0', 'ge', area, 0),
              ('horizontal area^2 = |edge|^2 * min height^2', 'eq', area * area, e2 * hmin * hmin)]
        for d, ctr, nm in ((d1, ctr_a, 'first'), (d2, ctr_b, 'second')):
            cr = cross2(ex, ey, ctr[0] - V[p][0], ctr[1] - V[p][1])
            ob += [('horizontal distance %s >= 0' % nm, 'ge', d, 0),
                   ('horizontal distance %s = distance centre to edge line' % nm, 'eq', d * d * e2, cr * cr)]
        gx, gy, gz = ctr_b[0] - ctr_a[0], ctr_b[1] - ctr_a[1], ctr_b[2] - ctr_a[2]
        g2 = gx * gx + gy * gy + gz * gz
        ob += [('horizontal gravity cosine magnitude', 'eq', dircos * dircos * g2, gz * gz),
               ('horizontal gravity cosine sign', 'le', dircos * gz, 0)]
        c_, s_ = self.perm_cs
        r1, r2 = c_ * gx + s_ * gy, -s_ * gx + c_ * gy
        want = self.ops.ite(self.ops.abs(r2) > self.ops.abs(r1), 2, 1)
        ob.append(('horizontal permeability direction', 'eq', direction, want))
        return ob


def perm_cos_sin(angle_deg):
    a = math.radians(angle_deg)
    return math.cos(a), math.sin(a)
