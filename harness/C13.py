import os
"""C13 - initial-conditions file write/read round trip.

The REAL t2incon.write / t2incon.read (reloaded from /repo) run on an
in-memory file with every primary variable, porosity, permeability, sequence
number, timing entry and block-name character symbolic.  Shapes (number of
blocks, variables per block, optional parts, flavour, timing/reset) are
enumerated.
"""
import itertools
import z3
from fractions import Fraction
from vx import sym, strs, loader, report, vfs as vfsmod
from vx.sym import SReal, SInt, SBool
from vx.strs import SStr, SChar

PID = 'C13'
_LD = None
def _load():
    global _LD
    if _LD is None:
        fs = vfsmod.VFS()
        _LD = (loader.load(['t2incons'], vfs=fs), fs)
    return _LD


def fit_real(c, name, kind, w, p, lo=None, hi=None):
    """symbolic real whose rendering fits its field (the quantifier's
    'values that fit their fields'); |v| in [1e-120, 1e120] or 0."""
    v = c.real(name)
    a = z3.If(v.e >= 0, v.e, -v.e)
    c.add(z3.Or(v.e == 0, z3.And(a >= z3.RealVal(Fraction(1, 10 ** 120)), a <= z3.RealVal(Fraction(10 ** 120)))))
    r = strs.rounded_value(kind, p, v.e)
    c.add(strs.natural_length(kind, p, v.e, r) <= w)
    return v


def sym_blockname(c, base, free=False):
    """5 symbolic characters satisfying valid_blockname, over letters/digits/blank
    (what the four naming conventions can produce).  free: a free-form TOUGH2
    element name instead (a letter in the 4th column, e.g. 'WELL1'), which
    valid_blockname rejects and which is read with check_blocknames = False."""
    cells = []
    for k in range(5):
        e = z3.Int('%s.%d' % (base, k))
        dig = z3.And(e >= 48, e <= 57)
        let = z3.Or(z3.And(e >= 65, e <= 90), z3.And(e >= 97, e <= 122))
        if free and k == 0: c.add(let)
        elif free and k == 3: c.add(let)
        elif free and k == 4: c.add(z3.Or(dig, let))
        elif k < 3: c.add(z3.Or(dig, let, e == 32))
        elif k == 3: c.add(z3.Or(dig, e == 32))
        else: c.add(dig)
        cells.append(SChar(e))
    return SStr(cells)


def codes_of(s):
    return [strs.cell_code(x) for x in (s.cells if isinstance(s, SStr) else list(s))]


def print_form(codes):
    """independent oracle for the simulator's (A3,I2) print form of a valid
    name: a '0' in the 4th column is printed as a blank."""
    out = list(codes)
    out[3] = z3.If(out[3] == 48, z3.IntVal(32), out[3])
    return out


def fix_form(codes):
    """independent oracle for the repaired form PyTOUGH holds in memory: a blank
    in the 4th column between two digits becomes '0'."""
    out = list(codes)
    dig = lambda e: z3.And(e >= 48, e <= 57)
    out[3] = z3.If(z3.And(dig(out[2]), dig(out[4]), out[3] == 32), z3.IntVal(48), out[3])
    return out


def same_codes(a, b):
    if len(a) != len(b): return z3.BoolVal(False)
    return z3.And(*[x == y for x, y in zip(a, b)])


def lines_equal(f1, f2):
    """cell-for-cell equality of two written files (z3 Bool)."""
    if len(f1) != len(f2): return z3.BoolVal(False)
    parts = []
    for a, b in zip(f1, f2):
        r = SStr.of(a).eq_expr(SStr.of(b)) if (isinstance(a, SStr) or isinstance(b, SStr)) else (a == b)
        parts.append(z3.BoolVal(r) if isinstance(r, bool) else r)
    return z3.And(*parts) if parts else z3.BoolVal(True)


def _witness(m, shape, names, data, tm, pre=None):
    blocks = []
    for nm, (vs, po, ks, ns, na) in zip(names, data):
        blocks.append(dict(name=''.join(chr(sym.model_value(m, ch.code)) for ch in nm.cells),
                           variables=[None if v is None else sym.model_value(m, v.e) for v in vs],
                           porosity=None if po is None else sym.model_value(m, po.e),
                           permeability=None if ks is None else [sym.model_value(m, k.e) for k in ks],
                           nseq=None if ns is None else sym.model_value(m, ns.e),
                           nadd=None if na is None else sym.model_value(m, na.e)))
    t = None
    if tm: t = {k: sym.model_value(m, v.e) for k, v in tm.items()}
    out = dict(shape=shape, blocks=blocks, timing=t)
    if pre is not None:
        out['pre'] = dict(pre, permeability=None if pre['permeability'] is None else [float(k) for k in pre['permeability']])
    return out


def task_shape(nblocks, nvars, por, perm, seq, timing, reset, cycles=2, toughreact=None, second=0, seed=0, freenames=False, reader='fresh', absent=()):
    # absent: indices of primary variables that are absent (None) in every block - never the last one, a trailing
    # absent value is not kept by the reader; an absent value inside the list has to stay where it is
    # seq: False / True (both numbers) / 'nseq' / 'nadd' (only that one present)
    # reader: 'fresh' = the file is read back by a new t2incon(filename); 'used' = it is read back with read() into an
    # object that has already read another file (of the other flavour, with a block and a timing record of its own)
    ld, fs = _load()
    T = ld.t2incons
    np_ = ld.mulgrids.np
    failures, samples, distinct = [], [], set()
    shape = dict(nblocks=nblocks, nvars=nvars, por=por, perm=perm, seq=seq, timing=timing, reset=reset, toughreact=toughreact, freenames=freenames, reader=reader, absent=list(absent))
    rkw = dict(check_blocknames=False) if freenames else {}
    tag = ('U.' if reader == 'used' else '') + ('R.' if (toughreact and not (any(perm) if isinstance(perm, (list, tuple)) else perm)) else '') + 'b%d.v%d.%s%s%s.%s%s' % (nblocks, nvars, 'P' if por else 'p', ('K' if perm else 'k') if not isinstance(perm, (list, tuple)) else 'K' + ''.join('1' if x else '0' for x in perm), ('S' if seq is True else 'Sn' if seq == 'nseq' else 'Sa') if seq else 's',
                                   'T' if timing else 't', 'R' if reset else 'r') + ('.A' + ''.join('%d' % i for i in absent) if absent else '')

    def h(c):
        fs.files.clear()
        inc = T.t2incon()
        anyperm = any(perm) if isinstance(perm, (list, tuple)) else perm
        tr_flavour = anyperm if toughreact is None else toughreact
        if tr_flavour: inc.simulator = 'TOUGHREACT'
        names, data = [], []
        for b in range(nblocks):
            nm = sym_blockname(c, 'n%d' % b, freenames)
            for prev in names:
                c.add(z3.Not(same_codes(print_form(codes_of(nm)), print_form(codes_of(prev)))))
            names.append(nm)
            vs = [None if i in absent else fit_real(c, 'x%d_%d' % (b, i), 'e', 20, 13) for i in range(nvars)]
            po = fit_real(c, 'por%d' % b, 'e', 15, 9) if por else None
            has_k = perm[b] if isinstance(perm, (list, tuple)) else perm
            ks = np_.array([fit_real(c, 'k%d_%d' % (b, i), 'e', 15, 9) for i in range(3)]) if has_k else None
            ns = c.int('nseq%d' % b, 0, 99999) if seq in (True, 'nseq') else None
            na = c.int('nadd%d' % b, 0, 99999) if seq in (True, 'nadd') else None
            data.append((vs, po, ks, ns, na))
            inc[nm] = T.t2blockincon(vs, nm, po, ks, ns, na)
        tm = None
        if timing:
            wk = 6 if tr_flavour else 5
            tm = dict(kcyc=c.int('kcyc', 0, 10 ** wk - 1), iter=c.int('iter', 0, 10 ** wk - 1),
                      nm=c.int('nm', 0, 999), tstart=fit_real(c, 'tstart', 'e', 15, 9),
                      sumtim=fit_real(c, 'sumtim', 'e', 12, 6))
            # sumtim also goes into the long header (12.6e) and the timing record (15.9e)
            s = tm['sumtim'].e
            c.add(strs.natural_length('e', 9, s, strs.rounded_value('e', 9, s)) <= 15)
            if not reset:
                # exact decimal rounding for the one value that is printed at two
                # precisions: restricted to the decade [1,10) so that it is linear
                R6, R9 = strs.Rfunc('e', 6), strs.Rfunc('e', 9)
                # integer form (no ToInt of a real product): s = (K + f) / 10^9 with an integer K and a
                # fraction f kept clear of 0, 1/2 and 1 (a witness that close to a tie would not survive the
                # conversion to a double); then R9(s) = K2 / 10^9 with K2 = K + [f > 1/2],
                # R6(s) = ((K + 500) div 1000) / 10^6 and R6(R9(s)) = ((K2 + 500) div 1000) / 10^6.
                # (K2 = 500 (mod 1000) is an exact decimal tie of the 9-digit value: printf decides it by the
                # binary representation of the double; the model rounds it up and the replay on the real
                # code has the last word - this is the known finding rewrite-header/sumtim-double-rounding)
                K, f = z3.Int('dr.K'), z3.Real('dr.f')
                c.add(z3.And(K >= 10 ** 9, K < 10 ** 10 - 1))
                c.add(z3.Or(z3.And(f >= z3.RealVal(Fraction(1, 1000)), f <= z3.RealVal(Fraction(499, 1000))),
                            z3.And(f >= z3.RealVal(Fraction(501, 1000)), f <= z3.RealVal(Fraction(999, 1000)))))
                c.add(s == (z3.ToReal(K) + f) / 10 ** 9)
                K2 = K + z3.If(f > z3.RealVal(Fraction(1, 2)), 1, 0)
                c.add(R9(s) == z3.ToReal(K2) / 10 ** 9)
                c.add(R6(s) == z3.ToReal((K + 500) / 1000) / 10 ** 6)
                c.add(R6(R9(s)) == z3.ToReal((K2 + 500) / 1000) / 10 ** 6)
            inc.timing = dict(tm)
        pre = None
        if reader == 'used':
            # the earlier content of the reading object: one block of the OTHER flavour with a timing record
            # (a configuration, so concrete; every value of the set under test stays symbolic)
            pre_tr = not tr_flavour
            pre = dict(toughreact=pre_tr, name='zz  1', variables=[1.5], porosity=0.1,
                       permeability=np_.array([1e-15, 2e-15, 3e-15]) if pre_tr else None,
                       timing=dict(kcyc=12345 if not pre_tr else 123456, iter=54321 if not pre_tr else 654321, nm=7, tstart=0.0, sumtim=2.5))
        r0, _ = c.reachable()
        if r0 != 'sat':
            c.prove(False, 'preconditions satisfiable (vacuity)')
            return 'vacuous'
        nv = nvars if nvars > 4 else None
        try:
            inc.write('f1', reset)
            if pre is None:
                inc2 = T.t2incon('f1', num_variables=nv, **rkw)
            else:
                pinc = T.t2incon()
                if pre['toughreact']: pinc.simulator = 'TOUGHREACT'
                pinc[pre['name']] = T.t2blockincon(pre['variables'], pre['name'], pre['porosity'], pre['permeability'])
                pinc.timing = dict(pre['timing'])
                pinc.write('f0', False)
                inc2 = T.t2incon('f0')
                inc2.read('f1', nv, **rkw)
        except Exception as ex:
            # a write or read that raises on a valid set of initial conditions
            r, m = c.reachable()
            c.prove(False, 'exception: write/read raised %s' % type(ex).__name__)
            if r == 'sat':
                c.failures[-1]['model'] = m
                failures.append(dict(key='exception/%s/%s' % (type(ex).__name__, tag), what='write/read raised %s: %s (%s)' % (type(ex).__name__, str(ex)[:80], tag),
                                     replay=None))
                failures[-1]['replay'] = _witness(m, shape, names, data, tm, pre)
                if isinstance(ex, vfsmod.EndlessRead):
                    # the reader keeps reading at the end of the file: reproduced when the real code does not return
                    failures[-1]['replay']['expect'] = 'nontermination'
                    failures[-1]['key'] = 'nontermination/%s' % tag
            return 'checked'

        stale = []
        def ob(f, label, key, witness=None):
            if isinstance(f, SBool): f = f.e
            if isinstance(f, bool): f = z3.BoolVal(f)
            fs_ = z3.simplify(f)
            if not (z3.is_true(fs_) or z3.is_false(fs_)): distinct.add((label, fs_.hash()))
            r = c.prove(fs_, label)
            if r == 'sat':
                m = c.failures[-1]['model']
                failures.append(dict(key='%s/%s' % (label.split(':')[0], tag if key is None else key), what='%s (%s)' % (label, tag),
                                     replay=witness_of(m)))
                if stale:
                    failures[-1]['key'] = '%s/used-reader-keeps-old-flavour' % label.split(':')[0]
                    failures[-1]['what'] = 'read() into an object that has read a %s file before keeps that flavour (read() empties the blocks and the timing but not `simulator`): %s (%s)' % ('TOUGHREACT' if pre['toughreact'] else 'TOUGH2', label, tag)
            return r

        def witness_of(m):
            return _witness(m, shape, names, data, tm, pre)

        if not samples:
            samples.append(dict(shape=shape, file=[repr(l)[:160] for l in fs.files['f1'][:4]]))
        ob(inc2.num_blocks == nblocks, 'count: same number of blocks', None)
        if inc2.num_blocks != nblocks: return 'count-mismatch'
        r = ob(inc2.simulator == inc.simulator, 'flavour: same simulator flavour', None)
        if r == 'sat' and pre is not None and not tr_flavour:
            # the set is TOUGH2-flavoured and was read into an object that held a TOUGHREACT file before
            stale.append(1)
            failures[-1]['key'] = 'flavour/used-reader-keeps-old-flavour'
            failures[-1]['what'] = 'a TOUGH2-flavoured file read with read() into an object that has read a TOUGHREACT file before is taken as TOUGHREACT: read() empties the blocks and the timing but does not reset `simulator`; a kept timing record is then parsed (and rewritten) with the 6d/6d/3d layout'
        elif r == 'sat' and tr_flavour and not anyperm:
            failures[-1]['key'] = 'flavour/toughreact-without-permeability'
            failures[-1]['what'] = 'a TOUGHREACT-flavoured set whose blocks have no permeabilities is written without them and read back as TOUGH2 (the reader recognises the flavour only by the permeability fields); with timing kept the 6d/6d/3d timing record is then parsed with the 5d/5d/5d layout'
        for b in range(nblocks):
            bi = inc2[b]
            vs, po, ks, ns, na = data[b]
            rn = codes_of(bi.block)
            # the name held after reading is the repaired form of the printed form of the
            # original (= the original itself for every name in repaired form)
            ob(same_codes(rn, fix_form(print_form(codes_of(names[b])))), 'name: block %d keeps its name (repaired form of what the simulator prints)' % b, None)
            ok = len(bi.variable) == nvars
            ob(ok, 'nvars: block %d has %d variables' % (b, nvars), None)
            if ok:
                for i in range(nvars):
                    got = bi.variable[i]
                    if vs[i] is None:
                        ob(got is None, 'variable: block %d variable %d absent stays absent, in its place' % (b, i), None)
                        continue
                    f = isinstance(got, SReal) and (got.e == strs.rounded_value('e', 13, vs[i].e))
                    ob(f, 'variable: block %d variable %d equals the 13 printed decimals' % (b, i), None)
            if por: ob(isinstance(bi.porosity, SReal) and bi.porosity.e == strs.rounded_value('e', 9, po.e), 'porosity: block %d' % b, None)
            else: ob(bi.porosity is None, 'porosity: absent stays absent, block %d' % b, None)
            if ks is not None:
                okp = bi.permeability is not None and len(bi.permeability) == 3
                ob(okp, 'permeability: present, block %d' % b, None)
                if okp:
                    for i in range(3):
                        g = bi.permeability[i]
                        ob(isinstance(g, SReal) and g.e == strs.rounded_value('e', 9, ks[i].e), 'permeability: block %d k%d' % (b, i + 1), None)
            else: ob(bi.permeability is None, 'permeability: absent stays absent, block %d' % b, None)
            if seq:
                for got, want in ((bi.nseq, ns), (bi.nadd, na)):
                    if want is None: ob(got is None, 'seq: absent number stays absent, block %d' % b, None)
                    else: ob(isinstance(got, SInt) and got.e == want.e, 'seq: nseq/nadd block %d' % b, None)
            else: ob(bi.nseq is None and bi.nadd is None, 'seq: absent stays absent, block %d' % b, None)
        if timing and not reset:
            t2 = inc2.timing
            ok = isinstance(t2, dict)
            ob(ok, 'timing: present after re-read', None)
            if ok:
                for k in ('kcyc', 'iter', 'nm'):
                    ob(isinstance(t2[k], SInt) and t2[k].e == tm[k].e, 'timing: %s' % k, None)
                for k in ('tstart', 'sumtim'):
                    ob(isinstance(t2[k], SReal) and t2[k].e == strs.rounded_value('e', 9, tm[k].e), 'timing: %s' % k, None)
        else:
            ob(inc2.timing is None, 'timing: none after reset / when absent', None)
        if stale: return 'checked'      # the stale flavour is pinned by the flavour and timing keys; the rewrite adds nothing
        # second write reproduces the first file
        inc2.write('f2', reset)
        f1, f2 = fs.files['f1'], fs.files['f2']
        ob(len(f1) == len(f2), 'rewrite-length: second file has the same number of lines', None)
        if len(f1) == len(f2) and f1:
            long_header = timing and not reset
            hdr = lines_equal(f1[:1], f2[:1])
            r = ob(hdr, 'rewrite-header: header line of the second write equals the first', None)
            if r == 'sat' and long_header:
                # is the difference explained by the header's 12.6e rendering of a time
                # that was re-read from its 15.9e rendering (double rounding)?
                s = tm['sumtim'].e
                R6, R9 = strs.Rfunc('e', 6), strs.Rfunc('e', 9)
                r2, _ = c.solve(z3.And(z3.Not(hdr), R6(R9(s)) == R6(s)))
                if r2 == 'unsat':
                    failures[-1]['key'] = 'rewrite-header/sumtim-double-rounding'
                    failures[-1]['what'] = 'long header prints the time with 6 decimals, the timing record with 9: after a read the header of the next write can differ in its last digit'
            ob(lines_equal(f1[1:], f2[1:]), 'rewrite: every other line of the second write equals the first cell for cell', None)
        if cycles >= 3:
            inc3 = T.t2incon('f2', num_variables=nv, **rkw)
            ok = inc3.num_blocks == nblocks
            ob(ok, 'cycle: third object has the same blocks', None)
            if ok:
                for b in range(nblocks):
                    ob(same_codes(codes_of(inc3[b].block), codes_of(inc2[b].block)), 'cycle: name of block %d is a fixed point' % b, None)
            inc3.write('f3', reset)
            ob(lines_equal(fs.files['f2'], fs.files['f3']), 'cycle: third write equals the second', None)
        return 'checked'

    cx = sym.Ctx(timeout_ms=180000)
    cx.second_every, cx.second_offset = second, seed
    res = sym.explore(h, cx, max_paths=3000, wall_s=1500)
    tr = report.summarize('shape ' + tag, res, failures, samples, extra=dict(distinct_obligations=len(distinct)))
    if not any(p.outcome == 'checked' for p in res['paths']):
        tr['error'] = 'vacuity: no path reached the obligations: %s' % tr['outcomes']
    return tr


def shapes(tier):
    out = []
    if tier == 'quick':
        combos = [
            dict(nblocks=0, nvars=1, por=False, perm=False, seq=False, timing=False, reset=True),
            dict(nblocks=1, nvars=1, por=True, perm=False, seq=False, timing=False, reset=True),
            dict(nblocks=1, nvars=4, por=False, perm=False, seq=True, timing=True, reset=False),
            dict(nblocks=1, nvars=5, por=True, perm=True, seq=True, timing=True, reset=False, cycles=3),
            dict(nblocks=1, nvars=9, por=True, perm=False, seq=False, timing=True, reset=True),
            dict(nblocks=1, nvars=12, por=False, perm=True, seq=False, timing=False, reset=True),
            dict(nblocks=2, nvars=2, por=True, perm=False, seq=True, timing=True, reset=False),
            dict(nblocks=2, nvars=3, por=False, perm=False, seq=False, timing=False, reset=False, cycles=3),
            dict(nblocks=2, nvars=8, por=True, perm=True, seq=False, timing=True, reset=False),
            dict(nblocks=1, nvars=2, por=True, perm=False, seq=True, timing=False, reset=True, toughreact=True),
            # a TOUGHREACT set in which only some blocks carry permeabilities (the last one does not)
            dict(nblocks=2, nvars=2, por=True, perm=[True, False], seq=False, timing=True, reset=False),
            # free-form element names ('WELL1'), read with the constructor option check_blocknames = False
            dict(nblocks=2, nvars=2, por=True, perm=False, seq=True, timing=False, reset=True, freenames=True),
            # only one of the two sequence numbers present
            dict(nblocks=1, nvars=1, por=True, perm=False, seq='nseq', timing=False, reset=True),
            dict(nblocks=1, nvars=1, por=False, perm=False, seq='nadd', timing=False, reset=True),
            # read back with read() into an object that has already read a file of the other flavour
            dict(nblocks=1, nvars=1, por=True, perm=False, seq=False, timing=True, reset=False, reader='used'),
            dict(nblocks=1, nvars=1, por=False, perm=True, seq=False, timing=True, reset=False, reader='used'),
            # absent primary variables inside a block's list (blank fields, also a whole blank first line): they stay in place
            dict(nblocks=1, nvars=4, por=True, perm=False, seq=False, timing=False, reset=True, absent=(0, 1)),
            dict(nblocks=2, nvars=6, por=False, perm=False, seq=True, timing=True, reset=False, absent=(1, 4), cycles=3),
            # a wholly blank first line and a blank last field on the second, read with num_variables (defect fixed by 408c609)
            dict(nblocks=1, nvars=9, por=True, perm=True, seq=False, timing=False, reset=True, absent=(0, 1, 2, 3, 6)),
        ]
        return combos
    for nb in (0, 1, 2, 3):
        for nvars in ((1,) if nb == 0 else (1, 3, 4, 5, 8, 9, 12) if nb == 1 else (2, 4, 5) if nb == 2 else (3,)):
            for por, perm, seq in itertools.product((False, True), repeat=3):
                for timing, reset in ((False, True), (True, True), (True, False)):
                    if nb == 3 and (perm or not por or timing and reset): continue
                    if nb == 0 and (por or perm or seq): continue
                    if nb == 2 and nvars != 4 and (por != seq): continue
                    out.append(dict(nblocks=nb, nvars=nvars, por=por, perm=perm, seq=seq, timing=timing, reset=reset,
                                    cycles=3 if (nvars in (3, 4, 5) and nb <= 2) else 2))
    # round 4: only one sequence number present; reading back into a used object (both flavours, with / without kept timing)
    out += [q for q in shapes('quick') if q.get('reader') == 'used' or q['seq'] in ('nseq', 'nadd') or q.get('absent')]
    out += [dict(nblocks=2, nvars=8, por=True, perm=False, seq=False, timing=True, reset=False, absent=(3, 5)),
            dict(nblocks=1, nvars=3, por=False, perm=False, seq=False, timing=True, reset=False, absent=(1,), reader='used')]
    out += [dict(nblocks=2, nvars=2, por=True, perm=False, seq='nadd', timing=True, reset=False),
            dict(nblocks=2, nvars=2, por=True, perm=False, seq=True, timing=True, reset=False, reader='used'),
            dict(nblocks=2, nvars=2, por=True, perm=[True, False], seq=False, timing=True, reset=False, reader='used'),
            dict(nblocks=1, nvars=4, por=True, perm=False, seq=False, timing=True, reset=True, reader='used', cycles=3)]
    return out


def run(tier, seed, rep):
    _load()
    sh = shapes(tier)
    if os.environ.get('C13_ONLY'):      # development aid: 'b1.v4' style filter on nblocks / nvars
        nb_, nv_ = os.environ['C13_ONLY'].split(',')
        sh = [s for s in sh if s['nblocks'] == int(nb_) and s['nvars'] == int(nv_)]
    if os.environ.get('C13_READER'): sh = [s for s in sh if s.get('reader', 'fresh') == os.environ['C13_READER']]
    tasks = [(task_shape, dict(s, second=150, seed=seed) if tier == 'thorough' else s) for s in sh]
    # long tasks first
    tasks.sort(key=lambda t: -(t[1]['nblocks'] * 10 + t[1]['nvars']))
    rep.add_results(report.run_tasks(tasks))
    rep.bounds += ['%d shapes: blocks 0..%d, 1..12 variables (1..3 lines), porosity / permeability (TOUGHREACT) / nseq,nadd present or absent, timing absent / present x reset on / off; only one of nseq / nadd present; absent (None) primary variables inside the list (never the last); read back by a new object or by read() into an object that has already read a file of the other flavour (concrete one-block file with timing)' % (len(sh), max(s['nblocks'] for s in sh)),
                   'block names: 5 symbolic characters, first three over letters/digits/blank, 4th digit or blank, 5th digit (every name the four conventions can produce), pairwise different printed forms',
                   'sumtim in [1,10) when timing is kept (exact decimal rounding model, needed to decide the header double rounding); reals: v = 0 or 1e-120 <= |v| <= 1e120 whose rendering fits the field (a value needing both a minus sign and a 3-digit exponent in 20.13e / 15.9e does not fit and is excluded); integers 0..99999']
    rep.outside += ['names with punctuation in the first three characters; a name starting +++ reads as the timing marker (not produced by any naming convention)',
                    'the 7 shipped incon files as inputs (concrete)', 'IEEE rounding (-0.0 etc.)', 'more than 3 blocks']
    rep.assumptions += ['printf contract of vx/strs.py (natural length, R_fmt idempotent, half-ulp bound)', 'in-memory file stub replaces open(); readline/write semantics of text files']
    rep.process_failures()
    return rep.finish(rule='one obligation per (shape, path, field): pc AND NOT(re-read field == written value) unsat; distinct by z3 AST hash')
