"""Replay for C05: the concrete variant of the rows (digits/signs from the
solver's model) goes through the REAL kernel functions of the installed
t2listing (no rewriting, no z3); every cell is compared with float() of the
printed text of that column, cut out by the independent tokenizer."""
import io
import os
import sys
sys.path.insert(0, os.path.dirname(os.path.abspath(__file__)))
import c05_common as cc


def _expected(text, tok):
    try: return cc.token_text_value(text, tok)
    except OverflowError:
        return float('-inf') if (tok['sign'] is not None and text[tok['sign']] == '-') else float('inf')


def replay_setup(d):
    """real setup_table_* + read_table_* on the miniature table with the model's row"""
    import t2listing
    repo = os.environ.get('PYTOUGH_REPO', '/repo')
    path = os.path.join(repo, 'tests', 'listing', d['file'])
    T = t2listing.t2listing
    obj = T.__new__(T)
    obj.filename = path; obj.encoding = 'latin-1'
    obj._file = io.open(path, 'rb')
    obj.detect_simulator()
    obj._file.close()
    rows, toks, kp, nkeys, kind = d['rows'], d['tokens'], d['keypos'], d['nkeys'], d['kind']
    lines, first = cc.mini_table_lines(d['family'], kind, d['header'], d['between'], rows)
    obj._file = cc.LineFile(lines)
    obj._table, obj._tablenames, obj.title, obj.skip_tables = {}, [], 'C05 MINIATURE TABLE', []
    try:
        obj.setup_table(kind)
    except Exception as ex:
        return True, 'setup_table(%r) raised %s: %s' % (kind, type(ex).__name__, str(ex)[:100])
    table = obj._table[kind]
    order = list(range(len(rows)))
    if d['family'] != 'AUTOUGH2':
        order.sort(key=lambda i: cc.row_index_value(rows[i], toks[i][0]['start']))
    want = []
    for i in order:
        nm = tuple(cc.fix_name(rows[i][p:p + 5]) for p in kp)
        want.append(nm[0] if nkeys == 1 else nm)
    if list(table.row_name) != want:
        return True, 'row names after the real setup_table_%s: %r; repaired printed names: %r (rows %r)' % (
            'AUTOUGH2' if obj.simulator == 'AUTOUGH2' else 'TOUGH2', list(table.row_name), want, [r[:40] for r in rows])
    times = [('first result time', rows, toks, lines)]
    if d.get('rows2'):
        lines2, _ = cc.mini_table_lines(d['family'], kind, d['header'], d['between'], d['rows2'])
        times.append(('second result time (read into the same table after the first)', d['rows2'], d['tokens2'], lines2))
    for tname, trows, ttoks, tlines in times:
        obj._file = cc.LineFile(tlines)
        try:
            obj.read_table(kind)
        except Exception as ex:
            return True, '%s: read_table(%r) raised %s: %s' % (tname, kind, type(ex).__name__, str(ex)[:100])
        for pos, i in enumerate(order):
            by_name, by_index = table[want[pos]], table[pos]
            if by_name is None: return True, '%s: table[%r] is None' % (tname, want[pos],)
            if len(ttoks[i]) > len(table.column_name):
                return True, '%s: row %r prints %d numbers, the header has %d columns' % (tname, trows[i], len(ttoks[i]), len(table.column_name))
            for j, col in enumerate(table.column_name):
                exp = _expected(trows[i].rstrip('\r\n'), ttoks[i][j]) if j < len(ttoks[i]) else 0.0
                if not (by_name[col] == by_index[col] == exp):
                    return True, '%s: row %r column %s: by name %r, by index %r, printed %s (layout %r; rows of the table at the first time %r)' % (
                        tname, trows[i].rstrip('\r\n'), col, by_name[col], by_index[col],
                        repr(exp) if j < len(ttoks[i]) else 'nothing (blank trailing cell, 0.0)', table.row_format['values'],
                        [r.rstrip('\r\n') for r in rows])
    return False, 'row names %r are the repaired printed names; cells equal the printed numbers and name / index addressing agree at %d result time(s)' % (want, len(times))


def replay(d):
    if d.get('mode') == 'setup': return replay_setup(d)
    import t2listing
    repo = os.environ.get('PYTOUGH_REPO', '/repo')
    path = os.path.join(repo, 'tests', 'listing', d['file'])
    T = t2listing.t2listing
    obj = T.__new__(T)
    obj.filename = path; obj.encoding = 'latin-1'
    obj._file = io.open(path, 'rb')
    obj.detect_simulator()
    obj._file.close()
    obj._file = io.BytesIO(d['header'].encode('latin-1'))
    nkeys, cols = obj.parse_table_header_AUTOUGH2() if obj.simulator == 'AUTOUGH2' else obj.parse_table_header_TOUGH2()
    ncols = len(cols)
    line = d['longest']
    ltoks = d['longest_tokens']
    rows = d['rows']
    okeypos_l = rows[0]['keypos']
    try:
        start = obj.start_of_values(line, cols)
    except Exception as ex:
        return True, 'start_of_values(%r) raised %s: %s' % (line, type(ex).__name__, ex)
    ostart = ltoks[0]['start']
    if not (isinstance(start, int) and 0 <= start <= ostart and line[start:ostart].strip() == ''):
        return True, 'start_of_values(%r) = %r but the first printed number starts at %d' % (line, start, ostart)
    try:
        keypos = obj.key_positions(line[:start], nkeys)
    except Exception as ex:
        return True, 'key_positions raised %s: %s' % (type(ex).__name__, ex)
    if keypos != okeypos_l:
        return True, 'key_positions(%r) = %r, printed names at %r' % (line[:start], keypos, okeypos_l)
    if obj.simulator == 'AUTOUGH2':
        fmt = {'key': keypos, 'values': [start]}
    else:
        try:
            numpos = obj.parse_table_line(line, start, cols)
        except Exception as ex:
            return True, 'parse_table_line raised %s on longest row %r' % (type(ex).__name__, line)
        fmt = {'key': keypos, 'index': keypos[-1] + 5, 'values': numpos}
    allkeys = [tuple(x) if isinstance(x, list) else x for x in d['allkeys']]
    table = t2listing.listingtable(cols, list(allkeys), fmt, None, num_keys=nkeys,
                                   allow_reverse_keys=(d['kind'] == 'connection'))
    lends = [t['end'] for t in ltoks]
    for r in rows:
        k, text, toks = r['index'], r['text'], r['tokens']
        okey = tuple(cc.fix_name(text[p:p + 5]) for p in r['keypos'])
        if nkeys == 1: okey = okey[0]
        try:
            if obj.simulator == 'AUTOUGH2':
                key = allkeys[k]
                vals = obj.read_table_line_AUTOUGH2(text, fmt=fmt)
                table[k] = vals
                gotkey = table.key_from_line(text)
            else:
                gotkey = key = table.key_from_line(text)
                vals = obj.read_table_line(text, ncols, fmt)
                table[key] = vals
        except Exception as ex:
            return True, 'reading row %r with format %r raised %s: %s' % (text, fmt, type(ex).__name__, ex)
        if gotkey != okey:
            return True, 'row %r keyed %r, printed names %r' % (text, gotkey, okey)
        by_name, by_index = table[key], table[k]
        if by_name is None or by_name['key'] != key or by_index['key'] != allkeys[k]:
            return True, 'table[name] / table[index] do not return row %d' % k
        if any(t['end'] != lends[j] for j, t in enumerate(toks) if j < len(lends)) or len(toks) > ncols:
            if len(toks) > ncols: return True, 'row has %d numbers, header %d columns' % (len(toks), ncols)
            continue
        rev = None
        if d['kind'] == 'connection' and nkeys == 2 and key[::-1] not in table._row:
            rev = table[key[::-1]]
        for j, col in enumerate(cols):
            want = _expected(text, toks[j]) if j < len(toks) else 0.0
            a, b, c = by_name[col], by_index[col], table[col][k]
            if not (a == want):
                return True, 'row %r (format %r, longest row %r): column %s read as %r, printed %r' % (
                    text, fmt['values'], line, col, a, text[toks[j]['start']:toks[j]['end']] if j < len(toks) else '(blank)')
            if not (a == b == c):
                return True, 'row %d column %s: by name %r, by index %r, by column %r' % (k, col, a, b, c)
            if rev is not None and not (rev[col] == -a):
                return True, 'row %d column %s: reversed key gives %r, expected %r' % (k, col, rev[col], -a)
    return False, 'all cells of %d rows equal the printed numbers (format %r)' % (len(rows), fmt['values'])
