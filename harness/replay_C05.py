"""Replay for C05: the concrete variant of the rows (digits/signs from the
solver's model) goes through the REAL kernel functions of the installed
t2listing (no rewriting, no z3); every cell is compared with float() of the
printed text of that column, cut out by the independent tokenizer."""
import io
import os
import sys
sys.path.insert(0, os.path.dirname(os.path.abspath(__file__)))
import c05_common as cc


def _expected(text, tok):
    try: return cc.token_text_value(text, tok)
    except OverflowError:
        return float('-inf') if (tok['sign'] is not None and text[tok['sign']] == '-') else float('inf')


def replay_setup(d):
    """real setup_table_* + read_table_* on the miniature table with the model's row"""
    import t2listing
    repo = os.environ.get('PYTOUGH_REPO', '/repo')
    path = os.path.join(repo, 'tests', 'listing', d['file'])
    T = t2listing.t2listing
    obj = T.__new__(T)
    obj.filename = path; obj.encoding = 'latin-1'
    obj._file = io.open(path, 'rb')
    obj.detect_simulator()
    obj._file.close()
    rows, toks, kp, nkeys, kind = d['rows'], d['tokens'], d['keypos'], d['nkeys'], d['kind']
    lines, first = cc.mini_table_lines(d['family'], kind, d['header'], d['between'], rows)
    obj._file = cc.LineFile(lines)
    obj._table, obj._tablenames, obj.title, obj.skip_tables = {}, [], 'C05 MINIATURE TABLE', []
    try:
        obj.setup_table(kind)
    except Exception as ex:
        return True, 'setup_table(%r) raised %s: %s' % (kind, type(ex).__name__, str(ex)[:100])
    table = obj._table[kind]
    order = list(range(len(rows)))
    if d['family'] != 'AUTOUGH2':
        order.sort(key=lambda i: cc.row_index_value(rows[i], toks[i][0]['start']))
    want = []
    for i in order:
        nm = tuple(cc.fix_name(rows[i][p:p + 5]) for p in kp)
        want.append(nm[0] if nkeys == 1 else nm)
    if list(table.row_name) != want:
        return True, 'row names after the real setup_table_%s: %r; repaired printed names: %r (rows %r)' % (
            'AUTOUGH2' if obj.simulator == 'AUTOUGH2' else 'TOUGH2', list(table.row_name), want, [r[:40] for r in rows])
    times = [('first result time', rows, toks, lines)]
    if d.get('rows2'):
        lines2, _ = cc.mini_table_lines(d['family'], kind, d['header'], d['between'], d['rows2'])
        times.append(('second result time (read into the same table after the first)', d['rows2'], d['tokens2'], lines2))
    for tname, trows, ttoks, tlines in times:
        obj._file = cc.LineFile(tlines)
        try:
            obj.read_table(kind)
        except Exception as ex:
            return True, '%s: read_table(%r) raised %s: %s' % (tname, kind, type(ex).__name__, str(ex)[:100])
        for pos, i in enumerate(order):
            by_name, by_index = table[want[pos]], table[pos]
            if by_name is None: return True, '%s: table[%r] is None' % (tname, want[pos],)
            if len(ttoks[i]) > len(table.column_name):
                return True, '%s: row %r prints %d numbers, the header has %d columns' % (tname, trows[i], len(ttoks[i]), len(table.column_name))
            for j, col in enumerate(table.column_name):
                exp = _expected(trows[i].rstrip('\r\n'), ttoks[i][j]) if j < len(ttoks[i]) else 0.0
                if not (by_name[col] == by_index[col] == exp):
                    return True, '%s: row %r column %s: by name %r, by index %r, printed %s (layout %r; rows of the table at the first time %r)' % (
                        tname, trows[i].rstrip('\r\n'), col, by_name[col], by_index[col],
                        repr(exp) if j < len(ttoks[i]) else 'nothing (blank trailing cell, 0.0)', table.row_format['values'],
                        [r.rstrip('\r\n') for r in rows])
    return False, 'row names %r are the repaired printed names; cells equal the printed numbers and name / index addressing agree at %d result time(s)' % (want, len(times))


def replay_fileskip(d):
    """The shipped listing (model's digits / signs substituted) is written to a real temporary file - under
    the alias name when one is given - and read by the real t2listing with the given skip_tables; at every
    result time, reached by index = k and by index = k - n, every exposed table is compared with the numbers
    printed in the file for that time (plain-text scan of c06_common / replay_C06._Printed)."""
    import shutil, signal, tempfile
    import c06_common as c6
    import replay_C06 as r6
    import t2listing
    repo = os.environ.get('PYTOUGH_REPO', '/repo')
    path = os.path.join(repo, d['file'])
    raw = cc.read_lines(path)
    lines = c6.apply_substitutions(raw, d.get('substitutions') or {})
    fam = cc.family_of(lines)
    skip = list(d.get('skip_tables') or [])
    tmp = tempfile.mkdtemp(prefix='c05replay')
    def alarm(sig, frm): raise c6.NonTermination('no return within 30 s')
    old = signal.signal(signal.SIGALRM, alarm)
    try:
        p2 = os.path.join(tmp, d.get('alias') or os.path.basename(path))
        with open(p2, 'wb') as fh: fh.write(''.join(lines).encode('latin-1'))
        head = '%s%s, skip_tables=%r: ' % (d['file'], ' written as %s' % d['alias'] if d.get('alias') else '', skip)
        signal.alarm(30)
        try:
            lst = t2listing.t2listing(p2, skip_tables=list(skip))
        except c6.NonTermination as ex: return True, head + 'open:terminates: t2listing() does not return (%s)' % ex
        except Exception as ex: return True, head + 'open:no-exception: t2listing() raised %s: %s' % (type(ex).__name__, str(ex)[:100])
        finally: signal.alarm(0)
        sets = c6.scan_sets(lines, fam)
        fullk = [i for i, s_ in enumerate(sets) if not s_['short']]
        n = len(fullk)
        # tables the file prints at its first result time, by the text scan: compare with what the reader exposes
        P = r6._Printed(lines, fam, lst)
        for k in range(n):
            for kk in (k, k - n):
                signal.alarm(30)
                try: lst.index = kk
                except c6.NonTermination as ex: return True, head + 'index:terminates: index = %d does not return (%s)' % (kk, ex)
                except Exception as ex: return True, head + 'index:no-exception: index = %d raised %s: %s' % (kk, type(ex).__name__, str(ex)[:100])
                finally: signal.alarm(0)
                if lst.index != k or float(lst.time) != sets[fullk[k]]['time']:
                    return True, head + 'index-time: after index = %d the reader reports index %r time %r (file: %d, %r)' % (kk, lst.index, lst.time, k, sets[fullk[k]]['time'])
                for tn in lst._tablenames:
                    tab = lst._table[tn]
                    for r in range(tab.num_rows):
                        for col in tab.column_name:
                            pv = P.value(tn, r, fullk[k], col)
                            if pv in ('n/a', None): continue
                            v = tab[r][col]
                            if not (v == pv):
                                return True, head + '%sprinted-value: index = %d: table %s row %d (%r) column %s shows %r, the file prints %r at that time' % (
                                    'negative-index:' if kk < 0 else '', kk, tn, r, tab.row_name[r], col, v, pv)
        return False, head + 'every exposed table shows the printed numbers at all %d result times, by positive and negative index' % n
    finally:
        signal.alarm(0); signal.signal(signal.SIGALRM, old)
        shutil.rmtree(tmp, ignore_errors=True)


def replay(d):
    if d.get('mode') == 'fileskip': return replay_fileskip(d)
    if d.get('mode') == 'setup': return replay_setup(d)
    import t2listing
    repo = os.environ.get('PYTOUGH_REPO', '/repo')
    path = os.path.join(repo, 'tests', 'listing', d['file'])
    T = t2listing.t2listing
    obj = T.__new__(T)
    obj.filename = path; obj.encoding = 'latin-1'
    obj._file = io.open(path, 'rb')
    obj.detect_simulator()
    obj._file.close()
    obj._file = io.BytesIO(d['header'].encode('latin-1'))
    nkeys, cols = obj.parse_table_header_AUTOUGH2() if obj.simulator == 'AUTOUGH2' else obj.parse_table_header_TOUGH2()
    ncols = len(cols)
    line = d['longest']
    ltoks = d['longest_tokens']
    rows = d['rows']
    okeypos_l = rows[0]['keypos']
    try:
        start = obj.start_of_values(line, cols)
    except Exception as ex:
        return True, 'start_of_values(%r) raised %s: %s' % (line, type(ex).__name__, ex)
    ostart = ltoks[0]['start']
    if not (isinstance(start, int) and 0 <= start <= ostart and line[start:ostart].strip() == ''):
        return True, 'start_of_values(%r) = %r but the first printed number starts at %d' % (line, start, ostart)
    try:
        keypos = obj.key_positions(line[:start], nkeys)
    except Exception as ex:
        return True, 'key_positions raised %s: %s' % (type(ex).__name__, ex)
    if keypos != okeypos_l:
        return True, 'key_positions(%r) = %r, printed names at %r' % (line[:start], keypos, okeypos_l)
    if obj.simulator == 'AUTOUGH2':
        fmt = {'key': keypos, 'values': [start]}
    else:
        try:
            numpos = obj.parse_table_line(line, start, cols)
        except Exception as ex:
            return True, 'parse_table_line raised %s on longest row %r' % (type(ex).__name__, line)
        fmt = {'key': keypos, 'index': keypos[-1] + 5, 'values': numpos}
    allkeys = [tuple(x) if isinstance(x, list) else x for x in d['allkeys']]
    table = t2listing.listingtable(cols, list(allkeys), fmt, None, num_keys=nkeys,
                                   allow_reverse_keys=(d['kind'] == 'connection'))
    lends = [t['end'] for t in ltoks]
    for r in rows:
        k, text, toks = r['index'], r['text'], r['tokens']
        okey = tuple(cc.fix_name(text[p:p + 5]) for p in r['keypos'])
        if nkeys == 1: okey = okey[0]
        try:
            if obj.simulator == 'AUTOUGH2':
                key = allkeys[k]
                vals = obj.read_table_line_AUTOUGH2(text, fmt=fmt)
                table[k] = vals
                gotkey = table.key_from_line(text)
            else:
                gotkey = key = table.key_from_line(text)
                vals = obj.read_table_line(text, ncols, fmt)
                table[key] = vals
        except Exception as ex:
            return True, 'reading row %r with format %r raised %s: %s' % (text, fmt, type(ex).__name__, ex)
        if gotkey != okey:
            return True, 'row %r keyed %r, printed names %r' % (text, gotkey, okey)
        by_name, by_index = table[key], table[k]
        if by_name is None or by_name['key'] != key or by_index['key'] != allkeys[k]:
            return True, 'table[name] / table[index] do not return row %d' % k
        import numpy as _np
        try: by_np = table[_np.int64(k)]
        except Exception as ex:
            return True, 'addressing:numpy-index: table[numpy.int64(%d)] raised %s: %s (table[%d] works)' % (k, type(ex).__name__, ex, k)
        if by_np is None or by_np['key'] != allkeys[k] or any(not (by_np[c] == by_index[c]) for c in cols):
            return True, 'addressing:numpy-index: table[numpy.int64(%d)] is not the row table[%d] returns' % (k, k)
        if any(t['end'] != lends[j] for j, t in enumerate(toks) if j < len(lends)) or len(toks) > ncols:
            if len(toks) > ncols: return True, 'row has %d numbers, header %d columns' % (len(toks), ncols)
            continue
        rev = None
        if d['kind'] == 'connection' and nkeys == 2 and key[::-1] not in table._row:
            rev = table[key[::-1]]
        for j, col in enumerate(cols):
            want = _expected(text, toks[j]) if j < len(toks) else 0.0
            a, b, c = by_name[col], by_index[col], table[col][k]
            if not (a == want):
                return True, 'row %r (format %r, longest row %r): column %s read as %r, printed %r' % (
                    text, fmt['values'], line, col, a, text[toks[j]['start']:toks[j]['end']] if j < len(toks) else '(blank)')
            if not (a == b == c):
                return True, 'row %d column %s: by name %r, by index %r, by column %r' % (k, col, a, b, c)
            if rev is not None and not (rev[col] == -a):
                return True, 'row %d column %s: reversed key gives %r, expected %r' % (k, col, rev[col], -a)
    return False, 'all cells of %d rows equal the printed numbers (format %r)' % (len(rows), fmt['values'])
