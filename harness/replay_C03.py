"""Replay for C03: rebuild exactly the geometry of the counterexample (same
builder as the symbolic check, harness/c03_model.py, with the concrete values
of the solver's model), really write it with the real mulgrid, read it back,
compare with an independent concrete comparer, write again and compare the
bytes, and run a third cycle."""
import os, sys, tempfile, shutil
from fractions import Fraction

sys.path.insert(0, os.path.dirname(os.path.dirname(os.path.abspath(__file__))))


def num(x):
    if isinstance(x, dict) and 'frac' in x:
        return Fraction(int(x['frac'][0]), int(x['frac'][1]))
    return x


class Provider(object):
    """concrete values, by name, from the solver's model"""
    def __init__(self, model):
        self.m = model

    def _get(self, name, default):
        v = self.m.get(name)
        return float(default) if v is None else float(num(v))

    def real(self, name, base, delta, kind, w, p, scale, exact=False):
        return self._get(name, 0.0 if base is None else base)

    def real_between(self, name, lo, hi, kind, w, p, scale, strict=True):
        return self._get(name, 0.5 * (lo + hi))

    def derived(self, name, v, kind, w, p, scale, exact=False):
        return v

    def orientation(self, geo, M):
        pass

    def name(self, base, pattern, others):
        out = ''
        for k, ch in enumerate(pattern):
            if ch in 'LD':
                v = self.m.get('%s.%d' % (base, k))
                out += chr(int(v)) if v is not None else {'L': 'q', 'D': '7'}[ch]
            else: out += ch
        return out


class Cmp(object):
    def __init__(self):
        self.problems = []

    def ob(self, cond, label):
        if not cond: self.problems.append(label)

    def real(self, a, b, kind, p, scale, where, exact=False):
        if a is None or b is None:
            self.ob(a is None and b is None, '%s: absent value stays absent (%r -> %r)' % (where, a, b)); return
        try: a, b = float(a), float(b)
        except Exception:
            self.ob(False, '%s: real expected (%r -> %r)' % (where, a, b)); return
        if exact:
            self.ob(a == b, '%s: identical (%r -> %r)' % (where, a, b)); return
        want = float(('%.' + str(p) + kind) % (a / scale)) * scale
        self.ob(b == want, '%s: equals the %d printed decimals (%r -> %r, expected %r)' % (where, p, a, b, want))

    def same(self, x, y, where):
        if x is None or y is None: self.ob(x is None and y is None, where); return
        self.ob(float(x) == float(y), '%s (%r vs %r)' % (where, x, y))

    def text(self, a, b, where):
        self.ob(isinstance(b, str) and a == b, '%s: same text (%r -> %r)' % (where, a, b))

    def names(self, A, B, where):
        self.ob(len(A) == len(B), '%s: same length (%d -> %d)' % (where, len(A), len(B)))
        if len(A) == len(B):
            diff = [(x, y) for x, y in zip(A, B) if x != y]
            self.ob(not diff, '%s: identical names in the same order (first difference %r)' % (where, diff[:1]))


class _Stop(Exception):
    pass


def replay(d):
    import numpy as np
    import mulgrids as M
    from harness import c03_model as MODEL
    shape = d['shape']
    prov = Provider(d['model'])
    tmp = tempfile.mkdtemp()
    cwd = os.getcwd()
    os.chdir(tmp)
    cmp = Cmp()
    try:
        try:
            geo, info = MODEL.build(prov, M, np, shape)
        except MODEL.Rejected as ex:
            # the real API refused these values while the geometry was being set up: there is no
            # geometry to write, hence no round-trip violation (the check counts such paths as
            # 'input-rejected' and never reports them)
            return False, 'input rejected while building the geometry (%s): nothing to write' % ex
        try:
            geo.write('g1.dat')
            g2 = M.mulgrid('g1.dat')
            same_units = MODEL.compare(cmp, geo, g2)
            if same_units:
                g2.write('g2.dat')
                a, b = open('g1.dat').read(), open('g2.dat').read()
                if a != b:
                    la, lb = a.split('\n'), b.split('\n')
                    diff = [(i, x, y) for i, (x, y) in enumerate(zip(la, lb)) if x != y][:2]
                    cmp.problems.append('rewrite: second write differs from the first: %r' % (diff or (len(la), len(lb)),))
                if shape.get('reuse'):
                    # the file is read by an object that already holds a geometry (the writer
                    # itself, or another one): it must end up like the fresh object g2
                    W = 'reuse-self ' if shape['reuse'] == 'self' else 'reuse-other '
                    try: h = MODEL.prior(prov, M, np, shape, geo)
                    except MODEL.Rejected as ex: raise _Stop()
                    h.read('g1.dat')
                    MODEL.compare(cmp, g2, h, exact=True, where=W)
                    h.write('gr.dat')
                    if open('g2.dat').read() != open('gr.dat').read():
                        cmp.problems.append(W + 'rewrite: the re-used object does not write the same file as a fresh one')
                if shape.get('edit'):
                    try: edited = MODEL.edit(prov, g2, shape)
                    except MODEL.Rejected as ex: raise _Stop()
                    g2.write('g2e.dat')
                    g3 = M.mulgrid('g2e.dat')
                    MODEL.compare(cmp, g2, g3, exact=True, where='edit ', edited=edited)
                    g3.write('g3.dat')
                    if open('g2e.dat').read() != open('g3.dat').read():
                        cmp.problems.append('edit-rewrite: the file written after the edit is not reproduced')
                elif shape.get('cycles', 3) >= 3:
                    g3 = M.mulgrid('g2.dat')
                    MODEL.compare(cmp, g2, g3, exact=True, where='cycle ')
                    g3.write('g3.dat')
                    if open('g2.dat').read() != open('g3.dat').read():
                        cmp.problems.append('cycle: third write differs from the second')
        except _Stop:
            pass        # the edit was refused by the real API: what was compared so far stands
        except Exception as ex:
            import traceback
            cmp.problems.append('exception %s: %s | %s' % (type(ex).__name__, ex, traceback.format_exc()[-500:].replace('\n', ' / ')))
    finally:
        os.chdir(cwd)
        shutil.rmtree(tmp, ignore_errors=True)
    if cmp.problems: return True, '%d problems: %s' % (len(cmp.problems), '; '.join(cmp.problems[:6]))
    return False, 'round trip ok'
