"""C03 - MULgraph geometry file write/read round trip.

The REAL mulgrid.write / mulgrid.read (reloaded from /repo) run on in-memory
files.  The topology is built by the real mulgrid().rectangular(...) (or
add_node / add_column / add_connection for the irregular mesh) on concrete
spacings; node positions, specified centres, layer elevations, surfaces, well
tracks, the header reals and one node name and one column name are then
symbolic (harness/c03_model.py, shared with the replay).  Header options,
topology, unit type, block order, which columns carry surfaces / centres and
the number of wells are enumerated shapes.
"""
import re
import z3
from fractions import Fraction
from vx import sym, strs, loader, report, vfs as vfsmod
from vx.fastctx import FastCtx
from vx.sym import SReal, SInt, SBool
from vx.strs import SStr, SChar
from harness import c03_model as MODEL

PID = 'C03'
_LD = None
def _load():
    global _LD
    if _LD is None:
        fs = vfsmod.VFS()
        _LD = (loader.load(['mulgrids'], vfs=fs), fs)
        # every value of this property is confined to a 10-column field: instantiate the
        # printf model's digit-count thresholds for at most 10 integer digits (a value
        # with more digits still gets a natural length > 10 and is excluded by 'fits')
        strs.MAXDIG = 10
    return _LD

LO, HI = Fraction(1, 10 ** 90), Fraction(10 ** 90)
HALF = z3.RealVal(Fraction(1, 2))


class GeoCtx(FastCtx):
    """FastCtx plus (1) the known-fact shortcut of sym.Ctx (a branch on a condition
    the harness has asserted needs no query) and (2) a decision procedure for the
    few NONLINEAR branch conditions of this property (sign of a column polygon's
    area, definedness of the centroid division): every uninterpreted term t of the
    condition (an input coordinate or a rounded value R(..) of one) is replaced by
    a fresh variable confined to an interval that the solver first PROVES to
    contain t on this path (linear query); the resulting pure polynomial problem
    over a box goes to a fresh solver (nlsat).  Only an 'unsat' there is used (the
    box over-approximates the path, so infeasible in the box => infeasible on the
    path); anything else falls back to the ordinary query."""

    def __init__(self, *a, **kw):
        kw.setdefault('use_witness', False)
        FastCtx.__init__(self, *a, **kw)
        self.boxes = {}              # input variable name -> (lo, hi, scale) as Fractions
        self._nl_cache = {}
        self.stats.update(boxed_decisions=0, boxed_fallbacks=0, box_proofs=0)

    def reset(self, prefix):
        FastCtx.reset(self, prefix)
        self._proved_boxes = {}

    def _is_nonlinear(self, e):
        hit = self._nl_cache.get(e.get_id())
        if hit is not None: return hit[1]
        r = False
        if z3.is_app(e):
            k = e.decl().kind()
            ch = e.children()
            if k == z3.Z3_OP_MUL and sum(1 for x in ch if not z3.is_rational_value(x) and not z3.is_int_value(x)) >= 2: r = True
            elif k == z3.Z3_OP_POWER: r = True
            elif k in (z3.Z3_OP_DIV, z3.Z3_OP_IDIV) and not (z3.is_rational_value(ch[1]) or z3.is_int_value(ch[1])): r = True
            elif k != z3.Z3_OP_UNINTERPRETED:
                r = any(self._is_nonlinear(x) for x in ch)
        self._nl_cache[e.get_id()] = (e, r)
        return r

    def _atoms(self, e, out, seen):
        i = e.get_id()
        if i in seen: return
        seen.add(i)
        if z3.is_app(e):
            if e.decl().kind() == z3.Z3_OP_UNINTERPRETED:
                out.append(e); return
            for x in e.children(): self._atoms(x, out, seen)

    def _box_of(self, t):
        """proved interval for the uninterpreted term t, or None"""
        hit = self._proved_boxes.get(t.get_id())
        if hit is not None: return hit[1]
        vs = self.vars_of(t)
        box = None
        if len(vs) == 1:
            b = self.boxes.get(next(iter(vs)))
            if b is not None and t.sort().kind() == z3.Z3_REAL_SORT:
                lo, hi, scale = b
                if t.num_args() == 0: cand = (lo, hi)
                else:
                    sc = Fraction(scale)
                    cand = (lo / sc - Fraction(1, 20), hi / sc + Fraction(1, 20))
                self.stats['box_proofs'] += 1
                r, _ = self.solve(z3.Or(t < z3.RealVal(cand[0]), t > z3.RealVal(cand[1])))
                if r == 'unsat': box = cand
        self._proved_boxes[t.get_id()] = (t, box)
        return box

    def _boxed(self, e):
        atoms = []
        self._atoms(e, atoms, set())
        subs, cons = [], []
        for n, t in enumerate(atoms):
            b = self._box_of(t)
            if b is None: return None
            q = z3.Real('q!%d' % n)
            subs.append((t, q)); cons.append(q >= z3.RealVal(b[0])); cons.append(q <= z3.RealVal(b[1]))
        ep = z3.substitute(e, *subs)
        for cond, verdict in ((ep, False), (z3.Not(ep), True)):
            s = z3.Solver(); s.set('timeout', 20000)
            s.add(*cons); s.add(cond)
            import time as _t
            t0 = _t.time(); r = str(s.check()); self.stats['solver_s'] += _t.time() - t0
            self.stats['queries'] += 1; self.stats[r] = self.stats.get(r, 0) + 1
            if r == 'unsat': return verdict
        return None

    def branch(self, e):
        e = z3.simplify(e)
        if z3.is_true(e): return True
        if z3.is_false(e): return False
        if self._memo_get(e) is not None or len(self.decisions) < len(self.prefix):
            return FastCtx.branch(self, e)
        # known facts (asserted by the harness on this path)
        hit = self.known.get(e.get_id())
        d = None
        if hit is not None and hit.eq(e): d = True
        elif z3.is_not(e):
            inner = e.arg(0)
            hit = self.known.get(inner.get_id())
            if hit is not None and hit.eq(inner): d = False
        if d is not None:
            self.stats['known_hits'] = self.stats.get('known_hits', 0) + 1
        elif self._is_nonlinear(e):
            d = self._boxed(e)
            if d is None: self.stats['boxed_fallbacks'] += 1
            else: self.stats['boxed_decisions'] += 1
        if d is None:
            return FastCtx.branch(self, e)
        if len(self.decisions) >= self.max_depth:
            self.aborted = 'max_depth'
            raise sym.EngineAbort('max_depth %d exceeded' % self.max_depth)
        self.stats['branches'] += 1
        self.decisions.append((d, True))
        self._memo_put(e, d)
        return d


def zb(x):
    if isinstance(x, SBool): return x.e
    if isinstance(x, bool): return z3.BoolVal(x)
    return x


def codes_of(s):
    return [strs.cell_code(x) for x in (s.cells if isinstance(s, SStr) else list(s))]


class Provider(object):
    """symbolic values: inside base +- delta (or free), rendering fits the field,
    not a negative value that prints as -0.00 (IEEE negative zero is outside the
    real-arithmetic model)."""
    def __init__(self, c):
        self.c = c
        self.vars = {}          # name -> z3 term (for the replay file)
        self.printed = {}       # name -> (x = value / scale as printed, R(x))
        self.names = {}

    def _printed(self, v, scale):
        # same operation as the writer: value / unit_scale (header values are not scaled)
        return (v / scale).e if scale is not None else sym.lift_real(v)

    def _fit(self, name, v, kind, w, p, scale, exact=False):
        c = self.c
        x = self._printed(v, scale)
        r = strs.rounded_value(kind, p, x)
        c.add(strs.natural_length(kind, p, x, r) <= w)
        if kind == 'f':
            c.add(z3.Not(z3.And(x < 0, r == 0)))
        if exact:
            # exact decimal rounding (keeps clear of ties so that the witness survives
            # the conversion to a double): x * 10^p = K + f
            K, f = z3.Int('K.' + name), z3.Real('f.' + name)
            c.add(x * 10 ** p == z3.ToReal(K) + f)
            c.add(z3.Or(z3.And(f >= z3.RealVal(Fraction(1, 100)), f <= z3.RealVal(Fraction(49, 100))),
                        z3.And(f >= z3.RealVal(Fraction(51, 100)), f <= z3.RealVal(Fraction(99, 100)))))
            c.add(r == z3.ToReal(K + z3.If(f > HALF, 1, 0)) / 10 ** p)
        self.printed[name] = (x, r)

    def real(self, name, base, delta, kind, w, p, scale, exact=False):
        c = self.c
        v = c.real(name)
        self.vars[name] = v.e
        if base is None:
            a = z3.If(v.e >= 0, v.e, -v.e)
            c.add(z3.Or(v.e == 0, z3.And(a >= z3.RealVal(LO), a <= z3.RealVal(HI))))
        else:
            c.add(v.e >= sym.lift_real(base - delta)); c.add(v.e <= sym.lift_real(base + delta))
            if hasattr(c, 'boxes'):
                c.boxes[name] = (Fraction(base) - Fraction(delta), Fraction(base) + Fraction(delta), scale if scale is not None else 1.0)
        self._fit(name, v, kind, w, p, scale, exact)
        return v

    def real_between(self, name, lo, hi, kind, w, p, scale, strict=True):
        c = self.c
        v = c.real(name)
        self.vars[name] = v.e
        if strict:
            c.add(v.e > sym.lift_real(lo)); c.add(v.e < sym.lift_real(hi))
        else:
            c.add(v.e >= sym.lift_real(lo)); c.add(v.e <= sym.lift_real(hi))
        self._fit(name, v, kind, w, p, scale)
        return v

    def derived(self, name, v, kind, w, p, scale, exact=False):
        self._fit(name, v, kind, w, p, scale, exact)
        return v

    def orientation(self, geo, M):
        """precondition: every column polygon is anticlockwise with non-zero area, as
        in the base mesh (column.__init__ reverses clockwise node lists)"""
        c = self.c
        for col in geo.columnlist:
            area = M.polygon_area(col.polygon)
            if not bool(area > 0.0):
                raise sym.EngineAbort('orientation of a column polygon is not fixed by the coordinate boxes')

    def name(self, base, pattern, others):
        c = self.c
        cells = []
        for k, ch in enumerate(pattern):
            if ch in 'LD':
                e = z3.Int('%s.%d' % (base, k))
                if ch == 'L': c.add(z3.Or(z3.And(e >= 65, e <= 90), z3.And(e >= 97, e <= 122)))
                else: c.add(z3.And(e >= 48, e <= 57))
                self.vars['%s.%d' % (base, k)] = e
                cells.append(SChar(e))
            else: cells.append(ch)
        nm = strs._mk(cells)
        if isinstance(nm, SStr):
            for o in others:
                r = nm.eq_expr(o)
                if r is False: continue
                c.add(z3.Not(zb(r)))
        self.names[base] = nm
        return nm


class Cmp(object):
    def __init__(self, c, ob):
        self.c, self._ob = c, ob

    def ob(self, cond, label):
        self._ob(cond, label)

    def real(self, a, b, kind, p, scale, where, exact=False):
        if a is None or b is None:
            self._ob(a is None and b is None, '%s: absent value stays absent' % where); return
        if not isinstance(b, (SReal, SInt, int, float)) or isinstance(b, bool):
            self._ob(False, '%s: real expected, got %s' % (where, type(b).__name__)); return
        be = sym.lift_real(b)
        if exact:
            self._ob(be == sym.lift_real(a), '%s: identical (no rounding left, nothing left over)' % where); return
        av = a if isinstance(a, SReal) else SReal(sym.lift_real(a))
        x = (av / scale).e
        want = SReal(strs.Rfunc(kind, p)(x)) * scale
        self._ob(be == want.e, '%s: equals the %d printed decimal%s' % (where, p, '' if p == 1 else 's'))

    def same(self, x, y, where):
        if x is None or y is None:
            self._ob(x is None and y is None, where); return
        self._ob(sym.lift_real(x) == sym.lift_real(y), where)

    def text(self, a, b, where):
        if not isinstance(b, (str, SStr)):
            self._ob(False, '%s: text expected' % where); return
        r = SStr.of(a).eq_expr(SStr.of(b)) if (isinstance(a, SStr) or isinstance(b, SStr)) else (a == b)
        self._ob(r, '%s: same text' % where)

    def names(self, A, B, where):
        self._ob(len(A) == len(B), '%s: same length (%d -> %d)' % (where, len(A), len(B)))
        if len(A) != len(B): return
        parts = []
        for x, y in zip(A, B):
            xs, ys = (x if isinstance(x, tuple) else (x,)), (y if isinstance(y, tuple) else (y,))
            if len(xs) != len(ys): parts.append(z3.BoolVal(False)); continue
            for p_, q_ in zip(xs, ys):
                r = SStr.of(p_).eq_expr(SStr.of(q_)) if (isinstance(p_, SStr) or isinstance(q_, SStr)) else (p_ == q_)
                parts.append(zb(r))
        self._ob(z3.And(*parts) if parts else True, '%s: identical names in the same order' % where)


def files_equal(f1, f2):
    """cell-for-cell equality of two written files (z3 Bool), and the list of
    (line number, formula) of the lines that are not syntactically equal"""
    if len(f1) != len(f2): return z3.BoolVal(False), []
    parts, per_line = [], []
    for n, (a, b) in enumerate(zip(f1, f2)):
        ca = list(a) if isinstance(a, str) else list(a.cells)
        cb = list(b) if isinstance(b, str) else list(b.cells)
        if len(ca) != len(cb): return z3.BoolVal(False), [(n, z3.BoolVal(False))]
        lp = []
        for x, y in zip(ca, cb):
            r = strs.cells_equal(x, y)
            if r is False: return z3.BoolVal(False), [(n, z3.BoolVal(False))]
            if r is True: continue
            lp.append(r)
        if lp:
            parts.extend(lp); per_line.append((n, z3.And(*lp)))
    return (z3.And(*parts) if parts else z3.BoolVal(True)), per_line


def shape_tag(s):
    return '%s.L%d%s.c%d.a%d.%s.%s.s%s.w%s.cs%d.%s%s%s' % (
        s['topo'], s.get('nlayers', 2), s.get('layers', 'high'), s['convention'], s['atmos'], 'ft' if s.get('unit') else 'm',
        {None: 'o-', 'layer_column': 'olc', 'dmplex': 'odm'}[s.get('block_order')], s.get('surfaces', 'none'),
        ''.join(str(n) for n in s.get('wells', [])) or '0', s.get('ncentres', 0), s.get('centres', 'mid'),
        '.names' if s.get('symnames') else '', '.gdc' if s.get('gdc') else '') + ('.attop' if s.get('attop') else '') + (
            '.hist-' + '>'.join({None: 'none', 'layer_column': 'lc', 'dmplex': 'dm'}[o] for o in s['order_history']) if s.get('order_history') else '') + (
            '.der-' + '+'.join('%s%s' % (op[0], ''.join(re.sub(r'[^0-9A-Za-z]', '', str(a)) for a in op[1:])) for op in s['derive']) if s.get('derive') else '') + (
            '.edit-' + '+'.join(e if isinstance(e, str) else '%s%s' % (e[0], ''.join(re.sub(r'[^0-9A-Za-z]', '', str(a)) for a in e[1:])) for e in s['edit']) if s.get('edit') else '') + (
            '' if not s.get('reuse') else '.reuse-self' if s['reuse'] == 'self' else '.reuse-' + reuse_tag(s['reuse']))


def reuse_tag(r):
    nx, ny, nz = r.get('size', (3, 1, 3))
    return 'r%dx%dL%d.c%d.a%d.%s.%s%s%s%s%s%s' % (nx, ny, nz, r.get('convention', 0), r.get('atmos', 0), 'ft' if r.get('unit') else 'm',
        {None: 'o-', 'layer_column': 'olc', 'dmplex': 'odm'}[r.get('block_order')], '.gdc' if r.get('gdc') else '',
        '' if r.get('cntype') is None else '.cn%d' % r['cntype'], '.w%d' % r['wells'] if r.get('wells') else '', '.surf' if r.get('surfaces') else '',
        '.file' if r.get('via_file') else '')


def norm_label(label):
    head = label.split(':')[0]
    return re.sub(r'\s+', ' ', re.sub(r'\d+', '', head)).strip()


def task_shape(shape):
    ld, fs = _load()
    M = ld.mulgrids
    np_ = M.np
    failures, samples, distinct = [], [], set()
    tag = shape_tag(shape)
    unit_class = 'feet' if shape.get('unit') else 'metres'

    def h(c):
        fs.files.clear()
        prov = Provider(c)
        def rejected(ex, outcome):
            # The real API refused a value handed to it (e.g. a validating property setter that
            # forks on the sign of a symbolic value).  On that side of the fork there is no such
            # geometry, hence nothing to write: the path is counted (evidence:
            # c03_decision_procedure.rejected_inputs, path note) and carries no further
            # obligation; the other side of the fork goes on.  A shape on which no path reaches
            # the obligations is a vacuity error (below).
            c.note('input rejected by the real API: %s' % ex)
            c.stats['rejected_inputs'] = c.stats.get('rejected_inputs', 0) + 1
            return outcome
        try:
            geo, info = MODEL.build(prov, M, np_, shape)
        except MODEL.Rejected as ex:
            return rejected(ex, 'input-rejected')
        r0, _ = c.reachable()
        if r0 != 'sat':
            c.prove(False, 'preconditions satisfiable (vacuity)'); return 'vacuous'

        pending = []
        def ob(f, label):
            f = zb(f)
            f = z3.simplify(f)
            if not (z3.is_true(f) or z3.is_false(f)):
                distinct.add((label, f.hash()))
                if len(samples) < 2 and samples and 'surface:' in label or len(samples) == 1 and 'node 1 x' in label:
                    samples.append(dict(shape=tag, obligation=label, formula=str(f).replace('\n', ' ')[:300]))
            pending.append((f, label))

        def witness(m):
            return dict(shape=shape, model={k: sym.model_value(m, e) for k, e in prov.vars.items()})

        def zero_centres():
            """z3 Bool: some layer centre (k >= 1) prints as 0.00"""
            alts = [prov.printed[n][1] == 0 for n in prov.printed if n.startswith('lc')]
            return z3.Or(*alts) if alts else z3.BoolVal(False)

        written = []        # files written so far (their number tokens are what got rounded)

        def refine(fl):
            """The rounding function is uninterpreted (bounds, idempotence) in the main
            query, so a model may round a value in a way the real printf does not.  Ask
            again with the exact decimal rounding of every %f token of the first file
            (ties excluded); if that is still satisfiable use this model as the witness."""
            toks, seen = [], set()
            for line in written[:1]:
                for l in line:
                    if not isinstance(l, SStr): continue
                    for cell in l.cells:
                        if isinstance(cell, strs.TokCell) and id(cell.tok) not in seen and cell.tok.kind == 'f':
                            seen.add(id(cell.tok)); toks.append(cell.tok)
            ax = []
            for n, tok in enumerate(toks):
                K, f = z3.Int('rK!%d' % n), z3.Real('rf!%d' % n)
                x, r = sym.lift_real(tok.val), sym.lift_real(tok.rv)
                ax.append(x * 10 ** tok.p == z3.ToReal(K) + f)
                ax.append(z3.Or(z3.And(f >= z3.RealVal(Fraction(1, 100)), f <= z3.RealVal(Fraction(49, 100))),
                                z3.And(f >= z3.RealVal(Fraction(51, 100)), f <= z3.RealVal(Fraction(99, 100)))))
                ax.append(r == z3.ToReal(K + z3.If(f > HALF, 1, 0)) / 10 ** tok.p)
            if not ax: return
            r, m = c.solve(z3.And(z3.Not(fl['formula']), *ax), full=True, timeout_ms=15000)
            if r == 'sat':
                fl['model'] = m
                c.stats['refined_witnesses'] = c.stats.get('refined_witnesses', 0) + 1

        def flush():
            n0 = len(c.failures)
            c.prove_all(pending)
            del pending[:]
            for fl in c.failures[n0:]:
                label = fl['label']
                if sum(1 for f_ in failures if f_['key'].startswith(norm_label(label) + '/')) < 2:
                    refine(fl)          # (at most two refined witnesses per kind of failure and shape)
                key = '%s/%s' % (norm_label(label), unit_class)
                what = '%s [%s]' % (label, tag)
                nl = norm_label(label)
                if nl in ('layer centre', 'rewrite', 'rewrite line', 'cycle layer centre', 'cycle'):
                    # is this failure only possible when a layer centre prints as 0.00
                    # (read_layers then recomputes it from the rounded layer bottoms)?
                    r2, _ = c.solve(z3.And(z3.Not(fl['formula']), z3.Not(zero_centres())))
                    if r2 == 'unsat':
                        key = '%s/zero-printed-centre-recomputed' % ('layer centre' if 'centre' in nl else 'rewrite')
                        what = 'read_layers: a layer centre that prints as 0.00 is recomputed as the mean of the ROUNDED layer bottoms and can come back as +-0.005 (and the next write then differs) [%s]' % tag
                failures.append(dict(key=key, what=what, replay=witness(fl['model'])))

        def stage(fn, label):
            """run one write / read of the real code; an exception is a failed obligation"""
            try:
                return True, fn()
            except MODEL.Rejected:
                raise
            except Exception as ex:
                import traceback
                tb = traceback.extract_tb(ex.__traceback__)
                site = [f for f in tb if f.filename.startswith(loader.REPO)]
                where_ = '%s:%s' % (site[-1].name, type(ex).__name__) if site else type(ex).__name__
                ob(False, '%s raises %s: %s' % (label, where_, str(ex)[:80]))
                flush()
                return False, None

        ok, _ = stage(lambda: geo.write('g1.dat'), 'write')
        if not ok: return 'exception'
        f1 = fs.files['g1.dat']
        written.append(f1)
        if not samples:
            samples.append(dict(shape=tag, file=[repr(l)[:100] for l in f1[:4]] + ['... %d lines' % len(f1)]))
        ok, g2 = stage(lambda: M.mulgrid('g1.dat'), 'read')
        if not ok: return 'exception'
        cmp = Cmp(c, ob)
        same_units = MODEL.compare(cmp, geo, g2)
        flush()
        if not same_units: return 'unit-mismatch'
        ok, _ = stage(lambda: g2.write('g2.dat'), 'rewrite-write')
        if not ok: return 'exception'
        f2 = fs.files['g2.dat']
        ob(len(f1) == len(f2), 'rewrite-length: second file has the same number of lines (%d -> %d)' % (len(f1), len(f2)))
        whole, per_line = files_equal(f1, f2)
        ob(whole, 'rewrite: second write equals the first cell for cell')
        n0 = len(c.failures)
        flush()
        if len(c.failures) > n0:
            # say which line
            for (n, f) in per_line:
                r, m = c.solve(z3.Not(f))
                if r == 'sat':
                    c.note('first differing line %d: %r' % (n, f1[n])); break
        if shape.get('reuse'):
            # the file is read by an object that already holds a geometry - the one that wrote it
            # (geo.write(f); geo.read(f)) or a different one: what it holds afterwards must be what a
            # fresh object gets from the same file (every compared item identical, nothing left over
            # from the previous content), and it must write the same file
            W = 'reuse-self ' if shape['reuse'] == 'self' else 'reuse-other '
            try:
                ok, h_ = stage(lambda: MODEL.prior(prov, M, np_, shape, geo), W + 'setup')
            except MODEL.Rejected as ex:
                return rejected(ex, 'checked-until-prior-rejected')
            if not ok: return 'exception'
            ok, _ = stage(lambda: h_.read('g1.dat'), W + 'read')
            if not ok: return 'exception'
            MODEL.compare(cmp, g2, h_, exact=True, where=W)
            flush()
            ok, _ = stage(lambda: h_.write('gr.dat'), W + 'write')
            if not ok: return 'exception'
            fr = fs.files['gr.dat']
            ob(len(f2) == len(fr), W + 'rewrite-length: the re-used object writes the same number of lines as a fresh one (%d -> %d)' % (len(f2), len(fr)))
            wholer, _ = files_equal(f2, fr)
            ob(wholer, W + 'rewrite: the re-used object writes the same file as a fresh one, cell for cell')
            flush()
        if shape.get('edit'):
            # the re-read geometry is changed through the API (new header values, block order,
            # a layer renamed to itself, a new surface) and written again: the new file must
            # carry the NEW state (nothing stale from the read), everything else is a fixed point
            try:
                ok, edited = stage(lambda: MODEL.edit(prov, g2, shape), 'edit')
            except MODEL.Rejected as ex:
                return rejected(ex, 'checked-until-edit-rejected')
            if not ok: return 'exception'
            ok, _ = stage(lambda: g2.write('g2e.dat'), 'edit-write')
            if not ok: return 'exception'
            fe = fs.files['g2e.dat']
            ok, g3 = stage(lambda: M.mulgrid('g2e.dat'), 'edit-read')
            if not ok: return 'exception'
            MODEL.compare(cmp, g2, g3, exact=True, where='edit ', edited=edited)
            flush()
            ok, _ = stage(lambda: g3.write('g3.dat'), 'edit-rewrite-write')
            if not ok: return 'exception'
            ob(len(fe) == len(fs.files['g3.dat']), 'edit-rewrite-length: same number of lines (%d -> %d)' % (len(fe), len(fs.files['g3.dat'])))
            whole3, _ = files_equal(fe, fs.files['g3.dat'])
            ob(whole3, 'edit-rewrite: the file written after the edit is reproduced cell for cell')
            flush()
        elif shape.get('cycles', 3) >= 3:
            ok, g3 = stage(lambda: M.mulgrid('g2.dat'), 'cycle-read')
            if not ok: return 'exception'
            MODEL.compare(cmp, g2, g3, exact=True, where='cycle ')
            flush()
            ok, _ = stage(lambda: g3.write('g3.dat'), 'cycle-write')
            if not ok: return 'exception'
            whole3, _ = files_equal(f2, fs.files['g3.dat'])
            ob(whole3, 'cycle: third write equals the second cell for cell')
            flush()
        return 'checked'

    res = sym.explore(h, GeoCtx(timeout_ms=120000, incremental=True), max_paths=400, wall_s=1200)
    tr = report.summarize('shape ' + tag, res, failures, samples, extra=dict(distinct_obligations=len(distinct)))
    reached = ('checked', 'unit-mismatch', 'exception') + (() if shape.get('edit') else ('checked-until-edit-rejected',))
    if not any(p.outcome in reached for p in res['paths']):
        tr['error'] = 'vacuity: no path reached the obligations: %s' % tr['outcomes']
    return tr


def shapes(tier):
    S = []
    def add(**kw):
        if kw.get('block_order') == 'dmplex' and kw['topo'] == 'mix': kw['topo'] = 'mixtq'   # no 10-node cells in the dmplex order
        S.append(kw)
    if tier == 'quick':
        add(topo='r2x1', nlayers=1, convention=0, atmos=0,
            reuse=dict(block_order='dmplex', gdc=True, cntype=0, wells=1, via_file=True))
        add(topo='r2x2', nlayers=2, layers='low', convention=1, atmos=1, block_order='layer_column', surfaces='one', wells=[2], ncentres=1, symnames=True)
        add(topo='r3x2', nlayers=3, convention=2, atmos=2, block_order='dmplex', surfaces='all', wells=[3, 2], symnames=True, gdc=True)
        add(topo='mix', nlayers=2, convention=3, atmos=0, surfaces='one', wells=[2], ncentres=1, symnames=True, case='u')
        add(topo='mixtq', nlayers=3, layers='low', convention=0, atmos=1, block_order='dmplex', surfaces='all', ncentres=1, symnames=True, node_pattern='LLL', column_pattern=' LL')
        add(topo='r2x1', nlayers=2, convention=0, atmos=0, unit='FEET ', surfaces='one', wells=[2], ncentres=1, reuse='self')
        add(topo='r2x2', nlayers=3, convention=3, atmos=2, unit='FEET ', block_order='layer_column', surfaces='all', symnames=True)
        add(topo='r2x1', nlayers=2, layers='zeromid', convention=0, atmos=0)
        add(topo='r2x1', nlayers=3, layers='zeromid2', convention=1, atmos=1, surfaces='one')
        add(topo='r2x1', nlayers=2, layers='zerotop', convention=0, atmos=2, surfaces='one', surface_above=True, wells=[2],
            reuse=dict(size=(2, 2, 2), convention=2, atmos=0, unit='FEET ', block_order='layer_column', wells=2, surfaces=True))
        add(topo='r3x2', nlayers=2, convention=0, atmos=0, centres='free', surfaces='all', wells=[3, 3], gdc=True)
        add(topo='mix', nlayers=1, convention=1, atmos=2, block_order='layer_column', wells=[2, 3], symnames=True, reuse='self')
        # explicit surfaces exactly at / around ground level; block order changed by assignment before writing
        add(topo='r2x1', nlayers=2, convention=0, atmos=0, surfaces='all', attop=True)
        add(topo='r2x2', nlayers=2, layers='low', convention=3, atmos=1, unit='FEET ', surfaces='one', attop=True, block_order=None, order_history=['dmplex', None])
        add(topo='mixtq', nlayers=1, convention=1, atmos=2, block_order='dmplex', order_history=[None, 'layer_column', 'dmplex'], surfaces='all', attop=True, cycles=2)
        add(topo='r2x1', nlayers=1, layers='zerotop', convention=2, atmos=0, block_order=None, order_history=['layer_column', None], surfaces='all', attop=True, cycles=2)
        # derived geometries (real rename / refine / reduce / split / rotate / translate on the base topology: the
        # by-name dictionaries are no longer in list order) and geometries edited after they were read
        add(topo='r2x2', nlayers=3, convention=0, atmos=0, surfaces='one', wells=[2], derive=[['rename_layer', 2, 7]], cycles=2)
        add(topo='r2x1', nlayers=2, convention=1, atmos=1, unit='FEET ', surfaces='one', derive=[['refine_layers', [1]]], edit=['header'])
        add(topo='r3x2', nlayers=2, convention=2, atmos=0, block_order='layer_column', wells=[2], symnames=True, derive=[['rename_column', 1, 40], ['rename_layer', 0, None]], cycles=2)
        add(topo='r2x1', nlayers=2, convention=3, atmos=2, block_order='dmplex', surfaces='one', derive=[['refine', [1], True]], cycles=2)
        add(topo='mix', nlayers=1, convention=0, atmos=1, derive=[['reduce', [0, 1, 2]], ['split_column', 0, 0]], symnames=True, cycles=2)
        add(topo='r2x2', nlayers=2, layers='low', convention=0, atmos=2, gdc=True, derive=[['rotate', 30.0], ['translate', [5., -3., 2.]]],
            edit=['header', 'gdc', ['block_order', 'dmplex'], ['rename_layer', 0], ['surface', 1, 1]])
        return S
    topos = ['r2x1', 'r2x2', 'r3x2', 'mix', 'mixtq']
    orders = [None, 'layer_column', 'dmplex']
    surfs = ['none', 'one', 'all']
    wells = [[], [2], [3], [2, 3], [3, 2]]
    lays = ['high', 'low', 'zerotop', 'high', 'low']
    pats = {0: [(' LL', 'LLL'), ('LLL', ' LL'), ('  L', '  L')], 3: [('LLL', '  L'), (' LL', 'LLL'), ('  L', ' LL')],
            1: [('DD', 'DD'), (' D', 'DD'), ('DD', ' D')], 2: [(' DD', 'DDD'), ('DDD', ' DD'), ('  D', '  D')]}
    # objects that already hold a geometry when they read the file: the writer itself, or another geometry
    priors = [dict(block_order='dmplex', gdc=True, cntype=0, wells=1, via_file=True),
              dict(size=(2, 2, 2), convention=2, atmos=0, unit='FEET ', block_order='layer_column', wells=2, surfaces=True),
              dict(size=(1, 2, 1), convention=1, atmos=1, gdc=True, wells=2, case='u'),
              dict(size=(2, 1, 2), convention=3, atmos=2, unit='FEET ', block_order='dmplex', surfaces=True, via_file=True),
              dict(size=(2, 1, 1), convention=0, atmos=0, wells=1)]
    def reuse_of(k):
        return 'self' if k % 4 == 0 else priors[(k // 4) % len(priors)] if k % 4 == 2 else None
    n = 0
    def one(topo, conv, atm, unit, order):
        pn, pc_ = pats[conv][(n // 2) % 3]
        add(topo=topo, nlayers=1 + (n % 3), layers=lays[(n // 3) % 5], convention=conv, atmos=atm, unit=unit, block_order=order,
            surfaces=surfs[n % 3], surface_above=(n % 7 == 0), wells=wells[(n + conv) % 5], ncentres=(n // 2) % 2,
            centres='free' if n % 5 == 0 else 'mid', symnames=(n % 4 != 1), node_pattern=pn, column_pattern=pc_,
            gdc=(n % 3 == 0), case='u' if n % 4 == 2 else None, cycles=3 if n % 4 == 0 else 2, reuse=reuse_of(n))   # (n % 4 == 2: the re-used object's read + write stands in for the third cycle)
    # the full product of the header options, the topology rotating through all five
    for conv in range(4):
        for atm in range(3):
            for unit in ('', 'FEET '):
                for order in orders:
                    n += 1
                    one(topos[n % 5], conv, atm, unit, order)
    # every convention x atmosphere type also on the other family of topologies
    for conv in range(4):
        for atm in range(3):
            n += 1
            one(['mix', 'r3x2', 'mixtq', 'r2x2'][(conv + atm) % 4], conv, atm, ['', 'FEET '][n % 2], orders[(conv + atm) % 3])
    # block order created as x, then assigned y (every ordered pair, and two-step histories)
    k = 0
    for o1 in orders:
        for o2 in orders:
            k += 1
            add(topo=['r2x1', 'mixtq', 'r2x2'][k % 3], nlayers=1 + k % 2, convention=k % 4, atmos=k % 3, unit=['', 'FEET '][k % 2],
                block_order=o2, order_history=[o1, o2], surfaces=['one', 'all'][k % 2], attop=True, cycles=2, reuse=reuse_of(2 * k))
    add(topo='r2x1', nlayers=2, convention=0, atmos=1, block_order=None, order_history=[None, 'dmplex', 'layer_column', None], cycles=2)
    add(topo='mixtq', nlayers=2, convention=3, atmos=0, block_order='layer_column', order_history=['dmplex', None, 'layer_column'], cycles=2)
    # explicit surfaces exactly at / around ground level on every topology
    for ti, topo in enumerate(topos):
        add(topo=topo, nlayers=1 + ti % 3, layers=['high', 'zerotop', 'low'][ti % 3], convention=ti % 4, atmos=ti % 3, unit=['', 'FEET '][ti % 2],
            surfaces=['all', 'one'][ti % 2], attop=True, symnames=True)
    # derived geometries: real rename / refine / reduce / delete / split / rotate / translate operations on the base
    # topology (several leave the by-name dictionaries in another order than the lists), every third one also
    # edited after the read; (topology, layers, operations)
    ders = [
        ('r2x2', 3, [['rename_layer', 2, 7]]),
        ('r2x1', 3, [['rename_layer', 1, 9], ['rename_layer', 3, 8]]),
        ('mix', 2, [['rename_layer', 0, None]]),
        ('r3x2', 2, [['refine_layers', [1]]]),
        ('mixtq', 2, [['refine_layers', [1, 2]]]),
        ('r2x1', 1, [['refine_layers', [1], 3]]),
        ('r2x2', 2, [['refine_layers', [2]], ['rename_layer', 2, 11]]),
        ('r3x2', 1, [['rename_column', 1, 40]]),
        ('mix', 1, [['rename_column', 0, 33], ['rename_column', 3, 34]]),
        ('r2x1', 2, [['refine', [1], True]]),
        ('r2x2', 1, [['refine', [0]]]),
        ('r2x2', 2, [['refine', [0, 1], 'x']]),
        ('mixtq', 1, [['refine', [2]]]),
        ('r3x2', 2, [['reduce', [0, 1, 3, 4]]]),
        ('mix', 2, [['reduce', [0, 1, 2]], ['split_column', 0, 0]]),
        ('r2x2', 1, [['split_column', 3, 1], ['rename_column', 0, 50]]),
        ('r3x2', 1, [['delete_column', 2]]),
        ('r2x2', 2, [['rotate', 30.0], ['translate', [5., -3., 2.]]]),
        ('mix', 1, [['rotate', -75.0]]),
        ('r2x1', 2, [['refine_layers', [1]], ['refine', [0], True], ['rename_layer', 0, None]]),
        ('r2x1', 2, [['rename_layer', 0, None]]),
        ('mixtq', 3, [['rename_layer', 3, 12], ['rename_column', 2, 21]]),
    ]
    edits = [['header'], ['header', 'gdc', ['rename_layer', 0]], [['surface', 0, 1], ['block_order', 'layer_column']], ['header', ['block_order', None], ['surface', 1, 1]],
             [['rename_layer', 1], 'gdc'], ['header', 'gdc', ['block_order', 'dmplex'], ['rename_layer', 0], ['surface', 1, 1]]]
    for k, (topo, nl, ops) in enumerate(ders):
        order = [None, 'layer_column', 'dmplex'][k % 3]
        if topo == 'mix' and order == 'dmplex': order = 'layer_column'
        kw = dict(topo=topo, nlayers=nl, layers=['high', 'low'][k % 2], convention=k % 4, atmos=(k // 2) % 3, unit=['', 'FEET '][(k // 3) % 2], block_order=order,
                  surfaces=surfs[(k + 1) % 3], wells=wells[k % 5], symnames=(k % 2 == 0), gdc=(k % 4 == 1), case='u' if k % 5 == 3 else None, derive=ops, cycles=3 if k % 4 == 0 else 2,
                  reuse=reuse_of(2 * k + 4) if k % 3 != 1 else None)
        if k % 3 == 1:
            ed = edits[(k // 3) % len(edits)]
            if topo == 'mix': ed = [e for e in ed if e != ['block_order', 'dmplex']]
            kw['edit'] = ed
        add(**kw)
    # geometries edited after the read, on the plain topologies
    for k, ed in enumerate(edits):
        topo = ['r2x1', 'mixtq', 'r2x2', 'r3x2', 'mixtq', 'r2x1'][k]
        add(topo=topo, nlayers=1 + k % 3, layers=['high', 'low', 'zerotop'][k % 3], convention=(k + 1) % 4, atmos=k % 3, unit=['FEET ', ''][k % 2],
            block_order=[None, 'dmplex', 'layer_column'][k % 3], surfaces=surfs[k % 3], wells=wells[(k + 2) % 5], symnames=(k % 2 == 1), gdc=(k % 2 == 0), edit=ed)
    # layer centres that print as 0.00 (exact decimal rounding model)
    for conv in (0, 1):
        for nl, lk in ((1, 'zeromid'), (2, 'zeromid'), (2, 'zeromid2'), (3, 'zeromid2')):
            for unit in ('', 'FEET '):
                add(topo='r2x1', nlayers=nl, layers=lk, convention=conv, atmos=conv, unit=unit, surfaces='none' if nl == 1 else 'one',
                    reuse='self' if (nl + conv) % 2 == 0 and unit else None)
    return S


def run(tier, seed, rep):
    _load()
    sh = shapes(tier)
    tasks = [(task_shape, dict(shape=s)) for s in sh]
    rep.add_results(report.run_tasks(tasks))
    rep.bounds += [
        '%d shapes: topologies RECT 2x1, 2x2, 3x2 from the real mulgrid().rectangular() and an irregular mesh (2 quadrilaterals, 1 triangle, 1 pentagon; one column handed over clockwise) from add_node/add_column/add_connection/add_layers; 1..3 layers (+ atmosphere layer); convention 0..3 x atmosphere type 0..2 x units metres/feet x block order None/layer_column/dmplex%s' % (
            len(sh), ' (full product of the four header options with the topology rotating through all five, plus every convention x atmosphere type on a second topology; the dmplex order uses the mesh without the pentagon)' if tier == 'thorough' else ' (each value at least once)'),
        'symbolic: every node coordinate (base +- %g), specified centre of 0/1 columns (base +- %g), every layer bottom (base +- %g; layer 0 has bottom = centre = top), layer centres (midpoints as add_layers() makes them, or free values strictly inside the layer), surfaces on 0 / 1 / all columns (anywhere inside a chosen layer except within %g of its boundaries, or up to 50 above ground level; attop shapes: one explicit surface EXACTLY at ground level and one anywhere within 1 of it); block order created as one value and re-assigned before writing (every ordered pair of None/layer_column/dmplex), 0..2 wells x 2..3 track points (x, y within 100 of the first node, z within 1000 of ground level), atmosphere_volume and atmosphere_connection (any real with 1e-90 <= |v| <= 1e90 or 0), gdcx, gdcy (unset or in [-1, 1]), permeability_angle (in [-360, 360]); one node name and one column name with symbolic characters (3 cells, right-justified, upper or lower case letters; digits under conventions 1 and 2), different from every other name' % (MODEL.DELTA_XY, MODEL.DELTA_XY, MODEL.DELTA_Z, MODEL.MARGIN),
        'base coordinates include 7-digit map-grid values (2776000, 6282000) and a row at the negative 10-column limit (-999997 +- 1: values that do not fit 10 columns are excluded by the fit condition)',
        'layer centres that print as 0.00: decided in dedicated shapes (layers zeromid / zeromid2: a layer whose centre lies within %g of elevation 0) with an exact decimal rounding model for the layer elevations (witnesses keep 1/100 of a unit in the last place away from ties); in all other shapes the layer centres are at least 7 away from 0' % MODEL.DELTA_Z]
    rep.bounds += [
        'reading into a USED object (%d shapes): the file is also read by mulgrid.read() of an object that already holds a geometry - the object that wrote the file (geo.write(f); geo.read(f)) or another geometry (rectangular 1..3 x 1..2 columns, 1..3 layers, any convention / atmosphere type / unit / block order, gdcx, gdcy, atmosphere sizes and permeability angle symbolic, cntype 0, a surface, 0..2 wells one of which has the name of a well in the file; built in memory or itself read from a file); afterwards it must hold exactly what a fresh mulgrid(f) holds (every compared item identical) and write the same file' % sum(1 for s_ in sh if s_.get('reuse'))]
    rep.outside += [
        'values in %f fields that print as -0.00 (IEEE negative zero: the file text is reproduced by the real code, but the sign of zero does not exist in real arithmetic)',
        'a surface within %g of a layer boundary (rounding to 2 decimals can move it across the boundary, which changes the derived block list: inherent to the 2-decimal format)' % MODEL.MARGIN,
        'coordinates whose perturbation or rounding could flip a column polygon (the boxes keep every polygon anticlockwise: PROVED per column from the boxes, not assumed)',
        'coordinates that need more than 10 columns (fit_value_string then drops decimals); more than 3x2 columns, 3 layers, 2 wells x 3 points; polygons with more than 5 sides',
        'the seven shipped geometries and refined / reduced / rotated derivatives as inputs (concrete)', 'left-justified names (the format documentation warns against them)',
        'IEEE rounding: value/0.3048*0.3048 is exact in the model; ties of the decimal rounding']
    rep.assumptions += [
        'printf contract and token-read model of vx/strs.py (natural length, R_fmt idempotent, half-unit bound), instantiated for at most 10 integer digits',
        'in-memory file stub replaces open()',
        'nonlinear branch conditions (polygon area sign, centroid denominator) are decided by nlsat over intervals that the solver first proves to contain every term of the condition (GeoCtx in harness/C03.py)',
        'exact decimal rounding axioms R(x) = floor(100 x + 1/2) / 100 (ties excluded) for the layer elevations of the zero-centre shapes']
    agg = {}
    for r in rep.results:
        for k in ('boxed_decisions', 'boxed_fallbacks', 'box_proofs', 'known_hits', 'memo_hits', 'refined_witnesses', 'rejected_inputs'):
            agg[k] = agg.get(k, 0) + (r.get('stats') or {}).get(k, 0)
    rep.extra['c03_decision_procedure'] = agg
    if agg.get('rejected_inputs'):
        rep.outside.append('values that the real API refused when they were assigned while the geometry was set up or edited (%d paths ended there: no such geometry, no obligation; every shape still has a path that reaches the obligations)' % agg['rejected_inputs'])
    rep.process_failures()
    return rep.finish(rule='one obligation per (shape, path, compared item: header option, node, column, connection, layer, surface, well point, name list) plus cell-for-cell file equalities; distinct by z3 AST hash')
