"""C16 - Fortran-written numbers are read with Fortran's meaning, never raise.

The REAL fortran_float / fortran_int (reloaded from /repo) run on a bounded
symbolic string: every character code and the length (0..N) are z3 variables.
str methods used by the cascade (strip, lower, replace, s[0], s[1:], join)
are term encodings (vx/bstr.py); float()/int() fork on the acceptance DFA of
CPython's grammar (vx/pyfloat_model.py, validated against CPython at every
run).  One obligation set per return path covers all strings up to N.
"""
import math
import z3
from vx import sym, strs, loader, report, bstr, pyfloat_model as pm
from vx.bstr import BStr, zI

PID = 'C16'

_LD = None
def _load():
    global _LD
    if _LD is None:
        _LD = loader.load(['fixed_format_file'])
    return _LD


def alphabet(x):
    """printable ASCII plus the other whitespace characters"""
    return z3.Or(z3.And(x >= 32, x <= 126), z3.And(x >= 9, x <= 13))


# ---- oracle normalisations (independent of the code under test) -----------

def del_ws(b):
    return b.delete_where([bstr.is_ws(x) for x in b.codes])

def del_blank(b):
    return b.delete_where([x == 32 for x in b.codes])

def drop_plus_after_e(b):
    c = b.codes
    drop = [z3.BoolVal(False)] + [z3.And(c[i] == 43, c[i - 1] == 101) for i in range(1, b.cap)]
    return b.delete_where(drop)

def norm_python(x):
    """value-preserving normal form of a text CPython's float accepts:
    surrounding whitespace removed, lower case, '+' after the exponent letter dropped"""
    return drop_plus_after_e(del_ws(x).lower())

def canon_fortran(o):
    """the Python spelling of a Fortran-written real: blanks removed, lower
    case, d -> e, exponent letter inserted where Fortran dropped it, '+' after it dropped"""
    t = del_blank(o).lower()
    t = t.map_where([x == 100 for x in t.codes], zI(101))
    c = t.codes
    def isdig(v): return z3.And(v >= 48, v <= 57)
    match = [z3.BoolVal(False)] + [z3.And(z3.Or(c[i] == 43, c[i] == 45), z3.Or(isdig(c[i - 1]), c[i - 1] == 46))
                                   for i in range(1, t.cap)]
    t = t.expand_where(match, lambda i: zI(101), lambda i: c[i])
    return drop_plus_after_e(t)

def has_impossible(o):
    return z3.Or(*[pm.impossible_char(x) for x in o.codes])

def all_ws(o):
    return z3.And(*[z3.Or(x == 0, bstr.is_ws(x)) for x in o.codes])


class _Blank(object):
    def __repr__(self): return '<blank_value>'
BLANK = _Blank()


class _Blank1(object):
    def __repr__(self): return '<blank_value of the earlier call>'
BLANK1 = _Blank1()

_SNAP = {}
def _restore_module_state(F):
    """Every path starts from the module state of a fresh import: module-level
    containers (caches, tables) are put back to their contents at load time, so a
    path never sees what another path of the exploration left behind."""
    import copy
    if id(F) not in _SNAP:
        _SNAP[id(F)] = dict((k, (v, copy.copy(v))) for k, v in vars(F).items()
                            if isinstance(v, (dict, list, set)) and not k.startswith('__'))
    for k, (obj, content) in _SNAP[id(F)].items():
        if isinstance(obj, list): obj[:] = content
        else:
            obj.clear(); obj.update(content)
        setattr(F, k, obj)


def task_reader(which, N, clause, shard=0, nshards=1, via_table=False, prior=None):
    """which: 'float' | 'int'; clause selects the obligation family so that
    families run in parallel: 'value' (a,b), 'reject' (d + nan/None side), 'blank',
    or 'all'.  prior = Np: the reader is first called on ANOTHER symbolic string
    (length 0..Np) with a different blank value, in the same process; every clause
    must hold for the second call whatever the first one was (the result depends on
    the arguments of the call only)."""
    ld = _load()
    F = ld.fixed_format_file
    fn = F.fortran_float if which == 'float' else F.fortran_int
    if via_table:
        # the readers as the library's own tables hand them to the file parsers
        # (fortran_read_function: blank value None); an integer that reads as None
        # cannot be told apart from a rejected one, so only the value clause is run
        key = 'e' if which == 'float' else 'd'
        table_fn = F.fortran_read_function[key]
        fn = lambda s, blank: (lambda r: BLANK if (r is None and which == 'float') else r)(table_fn(s))
    lang = pm.FORTRAN_REAL if which == 'float' else pm.FORTRAN_INT
    pyd = pm.PYFLOAT if which == 'float' else pm.PYINT
    failures, samples, distinct = [], [], set()

    tag = which + ('-via-table' if via_table else '') + ('-after-earlier-call' if prior is not None else '')
    clauses = ('value', 'reject', 'blank') if clause == 'all' else (clause,)
    cur = {}
    def record(c, label, o, res_kind):
        m = c.failures[-1]['model']
        text = o.value_in(m)
        rp = dict(which=which, text=text, clause=label, via_table=via_table)
        what = 'fortran_%s(%r): %s' % (which, text, label)
        if prior is not None:
            rp['prior_text'] = cur['p'].value_in(m)
            what = 'fortran_%s(%r, blank_value=B1) then %s' % (which, rp['prior_text'], what)
        failures.append(dict(key='%s/%s/%s' % (tag, res_kind, label), what=what, replay=rp))

    state = dict(k=0)
    def ob(c, f, label, o, res_kind):
        state['k'] += 1
        if (state['k'] - 1) % nshards != shard: return 'skipped'   # proved by a sibling task
        f = z3.simplify(f)
        if not (z3.is_true(f) or z3.is_false(f)): distinct.add((label, res_kind, f.hash()))
        r = c.prove(f, label)
        if r == 'sat': record(c, label, o, res_kind)
        return r

    def h(c):
        _restore_module_state(F)
        o = BStr.fresh(c, 's', N, alphabet)
        if prior is not None:
            cur['p'] = p = BStr.fresh(c, 'p', prior, alphabet)
            try: fn(p, BLANK1)
            except Exception: return 'earlier call raised'      # proved impossible by the single-call tasks
        try:
            res = fn(o, BLANK)
        except Exception as ex:
            c.prove(False, 'no exception escapes')
            record(c, 'exception escapes: %s' % type(ex).__name__, o, 'raise')
            return 'raised'
        inlang = lang.run_symbolic(o)
        pyacc = pyd.run_symbolic(o)
        if isinstance(res, pm.ParsedNumber):
            x = res.text
            if not samples:
                samples.append('path returning %s(text) with text capacity %d; obligations: in Fortran language => normal form of text == canonical Fortran spelling; impossible character => unreachable' % (which, x.cap))
            if 'value' in clauses:
                if which == 'float':
                    ob(c, z3.Implies(inlang, norm_python(x).eq_expr(canon_fortran(o))), 'Fortran-written real read with Fortran meaning', o, 'number')
                    ob(c, z3.Implies(pyacc, norm_python(x).eq_expr(norm_python(o))), 'same value as float() where float() accepts', o, 'number')
                else:
                    ob(c, z3.Implies(inlang, del_ws(x).eq_expr(del_blank(o))), 'Fortran-written integer read with Fortran meaning', o, 'number')
                    ob(c, z3.Implies(pyacc, del_ws(x).eq_expr(del_ws(o))), 'same value as int() where int() accepts', o, 'number')
            if 'reject' in clauses:
                ob(c, z3.Not(has_impossible(o)), 'impossible character never yields a number', o, 'number')
            if 'blank' in clauses:
                ob(c, z3.Not(all_ws(o)), 'blank field never yields a number', o, 'number')
            return 'number'
        if res is BLANK1:
            c.prove(False, "the result is the caller's blank value or a reading of the text")
            record(c, "blank value of an EARLIER call returned", o, 'stale')
            return 'stale'
        if res is BLANK:
            if 'blank' in clauses:
                ob(c, all_ws(o), 'blank value only for blank fields', o, 'blank')
            if 'reject' in clauses:
                ob(c, z3.Not(has_impossible(o)), 'impossible character never yields the blank value', o, 'blank')
            if 'value' in clauses:
                ob(c, z3.Not(z3.Or(inlang, pyacc)), 'a number is not read as blank', o, 'blank')
            return 'blank'
        isnan = (res is None) if which == 'int' else (isinstance(res, float) and math.isnan(res))
        if isnan:
            if 'value' in clauses:
                ob(c, z3.Not(inlang), 'Fortran-written number is not rejected', o, 'nan')
                ob(c, z3.Not(pyacc), 'text Python accepts is not rejected', o, 'nan')
            if 'blank' in clauses:
                ob(c, z3.Not(all_ws(o)), 'blank field is not rejected', o, 'nan')
            if 'reject' in clauses:
                # reachability of the rejecting path with an impossible character (vacuity guard)
                r, _ = c.solve(has_impossible(o))
                if r != 'sat': c.prove(False, 'reject path unreachable with impossible character (vacuous)')
            return 'nan'
        c.prove(False, 'unexpected result type')
        record(c, 'unexpected result %r' % (res,), o, 'other')
        return 'other'

    res = sym.explore(h, sym.Ctx(timeout_ms=900000, logic='QF_BV'), max_paths=200 if prior is None else 2000)
    outs = set(p.outcome for p in res['paths'])
    tr = report.summarize('%s/N=%d%s/%s/shard%d of %d' % (tag, N, '' if prior is None else ',earlier text N=%d' % prior, clause, shard, nshards), res, failures, samples,
                          extra=dict(distinct_obligations=len(distinct), N=N))
    need = {'number', 'blank', 'nan'}
    if via_table and which == 'int': need = {'number', 'nan'}
    if not need <= outs:
        tr['error'] = 'vacuity: paths reached %s, expected all of %s' % (sorted(outs), sorted(need))
    return tr


def run(tier, seed, rep):
    _load()
    n, bad = pm.validate_against_cpython(5)
    rep.validated(n)
    for b in bad[:5]: rep.harness_error('acceptance DFA disagrees with CPython on %r' % (b,))
    nv = validate_bstr_ops(rep)
    # (reader, clause) -> N ; obligations of one (reader, N, clause) are sharded over sibling tasks
    if tier == 'quick':
        plan = [('float', 'value', 8, 6), ('float', 'reject', 10, 2), ('float', 'blank', 12, 1),
                ('int', 'value', 14, 2), ('int', 'reject', 16, 1), ('int', 'blank', 16, 1),
                ('float', 'value', 4, 1), ('float', 'reject', 5, 1), ('float', 'blank', 5, 1)]
    else:
        plan = [('float', 'value', 10, 11), ('float', 'reject', 13, 5), ('float', 'blank', 20, 2),
                ('int', 'value', 14, 7), ('int', 'reject', 16, 3), ('int', 'blank', 20, 2),
                ('float', 'value', 6, 1), ('float', 'reject', 8, 1)]
    tasks = []
    for which, clause, N, ns in plan:
        for sh in range(ns):
            tasks.append((task_reader, dict(which=which, N=N, clause=clause, shard=sh, nshards=ns)))
    # the same readers reached through the conversion table used by the incon parser
    for which, N in (('float', 6), ('int', 8)) if tier == 'quick' else (('float', 8), ('int', 12)):
        tasks.append((task_reader, dict(which=which, N=N, clause='value', via_table=True)))
    # two calls in one process: an EARLIER call on another symbolic text with another blank value
    # must not change what the call under test returns (all three clauses on the second call)
    hist = (('float', 3, 4), ('int', 4, 5)) if tier == 'quick' else (('float', 4, 6), ('int', 6, 8))
    for which, Np, N in hist:
        tasks.append((task_reader, dict(which=which, N=N, clause='all', prior=Np)))
    Nb = {}
    for which, clause, N, ns in plan:
        Nb[(which, clause)] = max(N, Nb.get((which, clause), 0))
    results = report.run_tasks(tasks)
    rep.add_results(results)
    rep.bounds += ['%s, clause %s: every string of length 0..%d over printable ASCII + \\t\\n\\v\\f\\r (character codes and length symbolic)' % (w, cl, n_)
                   for (w, cl), n_ in sorted(Nb.items())]
    rep.bounds += ['clauses: value = (Fortran-written number => Fortran meaning; text Python accepts => same value); reject = impossible character => nan/None; blank = blank field <=> blank value']
    rep.bounds += ['%s, two calls in one process (earlier call: any text of length 0..%d with a different blank value; then all three clauses for every text of length 0..%d); module-level containers are reset to their import-time contents before each path' % (w, a, b) for w, a, b in hist]
    rep.outside += ['strings longer than the per-clause bound above (the quantifier says field width 20)',
                    'non-ASCII digits / whitespace', 'the numeric value CPython assigns to an accepted text (text equality up to value-preserving normalisation is what is proved)']
    rep.assumptions += ['float()/int() acceptance = DFA of CPython grammar, compared with CPython on %d strings this run' % n,
                        'float("..e+N") == float("..eN"), float(" x ") == float("x"), float("1E5") == float("1e5") (value-preserving normalisations used to compare texts)',
                        'Fortran output language = DFA FORTRAN_REAL / FORTRAN_INT in vx/pyfloat_model.py (E/D/e/d exponent, dropped letter, leading point, explicit plus, blanks anywhere)',
                        'bounded-string operations (strip, lower, replace, slicing, join) encoded as z3 terms, validated on %d concrete strings this run' % nv]
    rep.process_failures()
    return rep.finish(rule='one obligation per (reader, return path, clause) quantified over all strings up to N; distinct by z3 AST hash')


def validate_bstr_ops(rep):
    """Model validation: the term encodings of the string operations agree
    with Python's str methods on concrete strings (evaluated by z3.simplify)."""
    import itertools, random
    rnd = random.Random(12345)
    c = sym.Ctx(); sym.set_ctx(c)
    n = 0
    def val(b):
        ln = z3.simplify(b.n).as_long()
        cs = [z3.simplify(x).as_long() for x in b.codes]
        assert all(v == 0 for v in cs[ln:]), ('invariant', cs, ln)
        return ''.join(chr(v) for v in cs[:ln])
    alpha = ' 1-+.eEdD*\t'
    cases = [''.join(rnd.choice(alpha) for _ in range(rnd.randint(0, 9))) for _ in range(300)]
    cases += ['', ' ', '  1.5-100 ', '-1.5+100', '1.5D+02', ' 1 2 ', '--', '1e+5', 'E+']
    try:
        for t in cases:
            b = BStr.of(t)
            checks = [
                (val(b.strip()), t.strip()), (val(b.lower()), t.lower()),
                (val(b.replace('d', 'e')), t.replace('d', 'e')), (val(b.replace(' ', '')), t.replace(' ', '')),
                (val(b.replace('-', 'e-')), t.replace('-', 'e-')), (val(b.replace('+', 'e')), t.replace('+', 'e')),
            ]
            if t:
                bb = b[1:]
                checks.append((val(bb) if not isinstance(bb, str) else bb, t[1:]))
                checks.append((val(bstr.join('', [BStr([b.codes[0]], zI(1)), BStr.of(t[1:]).replace('-', 'e-')])), t[0] + t[1:].replace('-', 'e-')))
            checks.append((val(b.strip().concat(BStr.of('xy'))), t.strip() + 'xy'))
            for got, want in checks:
                n += 1
                if got != want:
                    rep.harness_error('bounded-string op mismatch on %r: got %r want %r' % (t, got, want)); break
    finally:
        sym.set_ctx(None)
    rep.validated(n)
    return n
