"""Replay for C02: really write the record with the real fixed_format_file
code and parse it back; independent expected values."""
from fractions import Fraction

def num(x):
    if isinstance(x, dict) and 'frac' in x:
        return float(Fraction(int(x['frac'][0]), int(x['frac'][1])))
    return x

def replay_writer(d):
    import t2data as T, t2grids as G
    import os, tempfile
    dat = T.t2data()
    r = G.rocktype(); dat.grid.add_rocktype(r)
    blks = [G.t2block(n, 1.0, r) for n in (' a  1', ' b  2', ' c  3')]
    for b in blks: dat.grid.add_block(b)
    con = G.t2connection([blks[0], blks[1]], 1, [1., 1.], 1., 0.)
    dat.grid.add_connection(con)
    dat.grid.add_connection(G.t2connection([blks[1], blks[2]], 1, [1., 1.], 1., 0.))
    big = int(d['big'])
    for b in blks: dat.incon[b.name] = [0.1, [1.e5, 20.]]
    gen = T.t2generator(name=' ge 1', block=' b  2', gx=1.0)
    dat.add_generator(gen); dat.add_generator(T.t2generator(name=' ge 2', block=' c  3', gx=2.0))
    w = d['writer']
    if w == 'incon-nseq': dat.incon[' b  2'] = [0.1, [1.e5, 20.], big, 1]
    elif w == 'incon-nadd': dat.incon[' b  2'] = [0.1, [1.e5, 20.], 1, big]
    elif w == 'block-nseq': blks[1].nseq = big; blks[1].nadd = 1
    elif w == 'connection-nseq': con.nseq = big
    elif w == 'generator-nseq': gen.nseq = big
    tmp = tempfile.mkdtemp(); f = os.path.join(tmp, 'w.dat')
    try:
        try:
            dat.write(f)
        except ValueError as ex:
            return False, 'write raised ValueError: %s (fails loudly)' % ex
        txt = open(f).read()
        return True, 'write returned normally for %s = %d; the file has %d lines and does not contain the value' % (w, big, txt.count(chr(10)))
    finally:
        import shutil; shutil.rmtree(tmp, ignore_errors=True)


def replay(d):
    if 'writer' in d: return replay_writer(d)
    import fixed_format_file as fff
    import t2data, t2incons, mulgrids
    tables = {'t2data': (t2data.t2data_format_specification, fff.default_read_function),
              't2data_xp': (t2data.t2data_extra_precision_format_specification, fff.default_read_function),
              't2incon': (t2incons.t2incon_format_specification, fff.fortran_read_function),
              'mulgrid': (mulgrids.mulgrid_format_specification, fff.default_read_function)}
    spec, rf = tables[d['table']]
    p = fff.fixed_format_file.__new__(fff.fixed_format_file)
    p.specification = spec; p.read_function = rf
    p.preprocess_specification()
    rec = d['record']
    specs = spec[rec][1]
    vals = []
    for v, s in zip(d['values'], specs):
        v = num(v)
        if v is not None and s[-1] in 'ef': v = float(v)
        vals.append(v)
    try:
        line = p.write_values_to_string(vals, rec)
    except Exception as ex:
        return False, 'write raised %s: %s (allowed: fails loudly)' % (type(ex).__name__, ex)
    try:
        parsed = p.parse_string(line, rec)
    except Exception as ex:
        return True, 'parse raised %s on line %r' % (type(ex).__name__, line)
    bad = []
    for i, (v, s) in enumerate(zip(vals, specs)):
        typ = s[-1]
        w = abs(int(s[:-1].partition('.')[0]))
        got = parsed[i] if i < len(parsed) else '<missing>'
        if typ == 'x' or v is None:
            if not (got is None or (isinstance(got, str) and got.strip() == '')): bad.append((i, v, got))
            continue
        if typ in 'ef':
            own = ('%' + s) % v
            if len(own) <= w:
                if not (isinstance(got, float) and got == float(own)): bad.append((i, v, got))
            else:
                # over-wide: precision may be lost in this one value, but as little as the columns allow
                fmt, _, prec = s[:-1].partition('.')
                best = None
                for p_ in range(int(prec) - 1, -1, -1):
                    txt = ('%' + fmt + '.' + str(p_) + typ) % v
                    if len(txt) <= w: best = float(txt); break
                if not (isinstance(got, float) and abs(got - v) <= abs(v) / 2): bad.append((i, v, got))
                elif best is not None and got != best: bad.append((i, v, got, 'best representable in %d columns: %r' % (w, best)))
        elif typ == 'd':
            if got != v: bad.append((i, v, got))
        elif typ == 's':
            if not (isinstance(got, str) and got.strip() == v.strip()): bad.append((i, v, got))
    if bad:
        return True, 'record %s/%s line %r: fields (index, written, parsed) differ: %r' % (d['table'], rec, line, bad[:4])
    return False, 'all fields parse back: %r' % (line,)
