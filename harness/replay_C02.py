"""Replay for C02: really write the record with the real fixed_format_file
code and parse it back; independent expected values."""
from fractions import Fraction

def num(x):
    if isinstance(x, dict) and 'frac' in x:
        return float(Fraction(int(x['frac'][0]), int(x['frac'][1])))
    return x

def replay(d):
    import fixed_format_file as fff
    import t2data, t2incons, mulgrids
    tables = {'t2data': (t2data.t2data_format_specification, fff.default_read_function),
              't2data_xp': (t2data.t2data_extra_precision_format_specification, fff.default_read_function),
              't2incon': (t2incons.t2incon_format_specification, fff.fortran_read_function),
              'mulgrid': (mulgrids.mulgrid_format_specification, fff.default_read_function)}
    spec, rf = tables[d['table']]
    p = fff.fixed_format_file.__new__(fff.fixed_format_file)
    p.specification = spec; p.read_function = rf
    p.preprocess_specification()
    rec = d['record']
    specs = spec[rec][1]
    vals = []
    for v, s in zip(d['values'], specs):
        v = num(v)
        if v is not None and s[-1] in 'ef': v = float(v)
        vals.append(v)
    try:
        line = p.write_values_to_string(vals, rec)
    except Exception as ex:
        return False, 'write raised %s: %s (allowed: fails loudly)' % (type(ex).__name__, ex)
    try:
        parsed = p.parse_string(line, rec)
    except Exception as ex:
        return True, 'parse raised %s on line %r' % (type(ex).__name__, line)
    bad = []
    for i, (v, s) in enumerate(zip(vals, specs)):
        typ = s[-1]
        w = abs(int(s[:-1].partition('.')[0]))
        got = parsed[i] if i < len(parsed) else '<missing>'
        if typ == 'x' or v is None:
            if not (got is None or (isinstance(got, str) and got.strip() == '')): bad.append((i, v, got))
            continue
        if typ in 'ef':
            own = ('%' + s) % v
            if len(own) <= w:
                if not (isinstance(got, float) and got == float(own)): bad.append((i, v, got))
            else:
                if not (isinstance(got, float) and abs(got - v) <= abs(v) / 2): bad.append((i, v, got))
        elif typ == 'd':
            if got != v: bad.append((i, v, got))
        elif typ == 's':
            if not (isinstance(got, str) and got.strip() == v.strip()): bad.append((i, v, got))
    if bad:
        return True, 'record %s/%s line %r: fields (index, written, parsed) differ: %r' % (d['table'], rec, line, bad[:4])
    return False, 'all fields parse back: %r' % (line,)
