"""Replay for C01: rebuild the same model shape with the concrete values of
the solver's model, really write it with the real t2data, read it back, and
compare with an independent concrete comparer; then check the files of the
second and third write."""
import os, sys, tempfile, shutil
from fractions import Fraction

sys.path.insert(0, os.path.dirname(os.path.dirname(os.path.abspath(__file__))))


def num(x):
    if isinstance(x, dict) and 'frac' in x:
        return Fraction(int(x['frac'][0]), int(x['frac'][1]))
    return x


class Provider(object):
    """Concrete values in the same creation order as the symbolic provider."""
    def __init__(self, model, spec, xspec):
        self.m, self.spec, self.xspec, self.n = model, spec, xspec, 0

    def real(self, kind, w, p, positive=False, formats=None, nonneg=False, nonzero=False):
        self.n += 1
        v = num(self.m.get('r%d' % self.n, 0))
        return float(v)

    def int(self, w, lo=0, hi=None):
        self.n += 1
        return int(self.m.get('i%d' % self.n, lo))

    def digit(self, name): return int(self.m.get(name, 0))
    def some_nonzero(self, xs): pass

    def name(self, base, pattern, previous):
        out = ''
        for k, ch in enumerate(pattern):
            if ch in 'LDBUV':
                v = self.m.get('%s.%d' % (base, k))
                out += chr(int(v)) if v is not None else {'L': 'a', 'D': '1', 'B': ' ', 'U': 'A', 'V': ' '}[ch]
            else: out += ch
        return out

    def record(self, rec, skip=(), xp=False, positive=()):
        names, fmts = (self.xspec if xp and rec in self.xspec else self.spec)[rec]
        out = {}
        for nm, f in zip(names, fmts):
            if not nm or nm in skip or f[-1] in 'sx': continue
            typ = f[-1]
            w = abs(int(f[:-1].partition('.')[0]))
            if typ in 'ef': out[nm] = self.real(typ, w, 0)
            elif typ == 'd': out[nm] = self.int(w)
        return out

    def reals(self, n, kind, w, p, formats=None):
        return [self.real(kind, w, p) for _ in range(n)]


def held(name):
    """form a block name has in memory after a write/read"""
    p = name
    if p[3:5].isdigit(): p = '%3s%2d' % (p[:3], int(p[3:5]))
    if p[2].isdigit() and p[4].isdigit() and p[3] == ' ': p = p[:3] + '0' + p[4]
    return p


class Cmp(object):
    def __init__(self, formats):
        self.problems = []
        self.formats = formats
    def ob(self, cond, label):
        if not cond: self.problems.append(label)
    def is_int(self, x): return isinstance(x, int) and not isinstance(x, bool)
    def is_text(self, x): return isinstance(x, str)
    def real(self, a, b, where, exact=False):
        if a is None or b is None:
            self.ob(a is None and b is None, '%s: absent value stays absent (%r -> %r)' % (where, a, b)); return
        try: a, b = float(a), float(b)
        except Exception:
            self.ob(False, '%s: real expected (%r -> %r)' % (where, a, b)); return
        if exact: self.ob(a == b, '%s: identical value (%r -> %r)' % (where, a, b)); return
        cands = [a]
        for k, p in self.formats:
            try: cands.append(float(('%.' + str(p) + k) % a))
            except Exception: pass
        self.ob(b in cands, '%s: equals the printed digits (%r -> %r)' % (where, a, b))
    def int(self, a, b, where, zero_is_none=False):
        if zero_is_none:
            if a is None: self.ob(b is None, '%s: absent stays absent' % where); return
            if b is None: self.ob(a == 0, '%s: only zero reads as absent (%r)' % (where, a)); return
        if a is None or b is None:
            self.ob(a is None and b is None, '%s: absent integer stays absent (%r -> %r)' % (where, a, b)); return
        self.ob(isinstance(b, (int,)) or hasattr(b, '__index__'), '%s: integer expected (%r)' % (where, b))
        try: self.ob(int(a) == int(b), '%s: same integer (%r -> %r)' % (where, a, b))
        except Exception: self.ob(False, '%s: integer expected (%r)' % (where, b))
    def text(self, a, b, where, strip=True, name=False):
        if a is None or b is None:
            self.ob(a is None and b is None, '%s: absent text stays absent' % where); return
        if not isinstance(b, str): self.ob(False, '%s: text expected (%r)' % (where, b)); return
        if name: self.ob(len(a) == 5 and b == held(a), '%s: same name (repaired form) (%r -> %r)' % (where, a, b)); return
        if strip == 'both': self.ob(a.strip() == b.strip(), '%s: same text (%r -> %r)' % (where, a, b))
        elif strip: self.ob(a.rstrip() == b.rstrip(), '%s: same text (%r -> %r)' % (where, a, b))
        else: self.ob(a == b, '%s: same text (%r -> %r)' % (where, a, b))
    def reals(self, A, B, where, exact=False):
        A = list(A) if A is not None else None
        B = list(B) if B is not None else None
        if A is None or B is None:
            self.ob(A is None and B is None, '%s: absent list stays absent' % where); return
        self.ob(len(A) == len(B), '%s: same number of entries (%d -> %d)' % (where, len(A), len(B)))
        if len(A) == len(B):
            for i, (a, b) in enumerate(zip(A, B)): self.real(a, b, '%s[%d]' % (where, i), exact)


def stripped(path):
    return [l.rstrip(' \n') for l in open(path)]


class CDig(object):
    """the digits / signs of the solver's model for the Fortran-style writer"""
    def __init__(self, m): self.m = m
    def __call__(self, name, n, first_nonzero):
        return [chr(int(self.m.get('fd.%s.%d' % (name, k), 49))) for k in range(n)]
    def sign(self, name):
        return chr(int(self.m.get('fd.%s' % name, 32)))


def replay_fortran(d):
    """write the Fortran-style files with the model's digits, read them with the Fortran read
    functions, compare every number with the exact decimal value printed; then write / read / write"""
    import t2data as T
    from harness.c01_model import FORMATS, compare, fortran_files
    shape = d['shape']
    files, V, Gt = fortran_files(CDig(d['model']), shape)
    tmp = tempfile.mkdtemp(); cwd = os.getcwd(); os.chdir(tmp)
    cmp = Cmp(FORMATS)
    try:
        for name, lines in files.items():
            with open(name, 'w') as f: f.write(''.join(''.join(l) for l in lines))
        mesh = 'FMESH' if shape.get('meshfile') else ''
        try:
            dat2 = T.t2data('f.dat', mesh, read_function=T.fortran_read_function)
            if list(dat2._sections) != shape['sections']: cmp.problems.append('fortran sections: %r read as %r' % (shape['sections'], dat2._sections))
            for name, spec in V.items():
                want = Fraction(int(''.join(spec['digits']))) * Fraction(10) ** spec['exp']
                if spec['sign'] == '-': want = -want
                try: got = Gt[name](dat2)
                except Exception as ex: got = None
                if got is None or float(got) != float(want):
                    cmp.problems.append('fortran %s: printed %r, the object holds %r' % (name, float(want), got))
            sec_read = list(dat2._sections)
            dat2.write('m2.dat', 'MESH2' if mesh else '')
            dat3 = T.t2data('m2.dat', 'MESH2' if mesh else '')
            if list(dat3._sections) != sec_read: cmp.problems.append('rewritten sections: read with %r, after write and read %r' % (sec_read, dat3._sections))
            compare(cmp, dat2, dat3, shape, where='rewritten ')
            dat3.write('m3.dat', 'MESH3' if mesh else '')
            if stripped('m2.dat') != stripped('m3.dat'): cmp.problems.append('rewrite: second data file differs from the first')
            if mesh and stripped('MESH2') != stripped('MESH3'): cmp.problems.append('rewrite-mesh: second MESH file differs')
        except Exception as ex:
            import traceback
            cmp.problems.append('exception %s: %s | %s' % (type(ex).__name__, ex, traceback.format_exc()[-400:].replace('\n', ' / ')))
    finally:
        os.chdir(cwd); shutil.rmtree(tmp, ignore_errors=True)
    if cmp.problems: return True, '%d problems: %s' % (len(cmp.problems), '; '.join(cmp.problems[:6]))
    return False, 'fortran-style files read and rewritten ok'


def replay(d):
    import numpy as np
    import t2data as T, t2grids as G
    from harness.c01_model import FORMATS, build, compare, add_sections, grid_info
    shape = d['shape']
    if shape.get('kind') == 'fortran': return replay_fortran(d)
    prov = Provider(d['model'], T.t2data_format_specification, T.t2data_extra_precision_format_specification)
    tmp = tempfile.mkdtemp()
    cwd = os.getcwd()
    os.chdir(tmp)
    cmp = Cmp(FORMATS)
    try:
        dat, info = build(prov, T, G, np, shape)
        mesh = 'MESH' if shape.get('meshfile') else ''
        kw = {}
        if shape.get('xp'): kw = dict(extra_precision=shape.get('xp_sections', True), echo_extra_precision=shape.get('echo', True))
        F1 = shape.get('fname', 'm1.dat'); R1 = shape.get('read_as', F1)
        ext, ext_when = shape.get('extend'), shape.get('extend_when', 'read')
        def listed(obj, what):
            miss = [s for s in obj.present_sections if s not in obj._sections]
            if miss: cmp.problems.append('sections-listed: after %s the object holds data of %r, which are not listed sections' % (what, miss))
        def xp_name(fname):
            d, f = os.path.split(os.path.normpath(fname)); base = os.path.splitext(f)[0]
            return os.path.join(d, base + ('.PDAT' if base[0].isupper() else '.pdat'))
        try:
            dat.write(F1, mesh, **kw)
            if ext and ext_when == 'write':
                add_sections(prov, T, G, np, dat, shape, ext, grid_info(dat))
                dat.write(F1, mesh, **kw)
            listed(dat, 'the first write')
            dat2 = T.t2data(R1, mesh)
            compare(cmp, dat, dat2, shape)
            if shape.get('xp'):
                if list(dat2.extra_precision) != list(dat.extra_precision): cmp.problems.append('xp-state: extra-precision sections %r read back as %r' % (dat.extra_precision, dat2.extra_precision))
                if bool(dat2.echo_extra_precision) != bool(dat.echo_extra_precision): cmp.problems.append('xp-state: echo flag %r read back as %r' % (dat.echo_extra_precision, dat2.echo_extra_precision))
            extended = bool(ext and ext_when == 'read')
            sec_read = list(dat2._sections)
            if extended: add_sections(prov, T, G, np, dat2, shape, ext, grid_info(dat2))
            dat2.write('m2.dat', 'MESH2' if mesh else '')
            listed(dat2, 'the second write')
            if not extended:
                if stripped(F1) != stripped('m2.dat'):
                    diff = [(i, a, b) for i, (a, b) in enumerate(zip(stripped(F1), stripped('m2.dat'))) if a != b][:2]
                    cmp.problems.append('rewrite: second data file differs from the first: %r' % (diff or ('length %d -> %d' % (len(stripped(F1)), len(stripped('m2.dat')))),))
                if mesh and stripped('MESH') != stripped('MESH2'): cmp.problems.append('rewrite-mesh: second MESH file differs')
                if shape.get('xp'):
                    if not os.path.exists(xp_name(F1)): cmp.problems.append('xp-name: no companion file %s (directory holds %r)' % (xp_name(F1), sorted(os.listdir('.'))))
                    elif stripped(xp_name(F1)) != stripped('m2.pdat'): cmp.problems.append('rewrite-xp: second extra-precision file differs')
            if shape.get('cycles', 3) >= 3:
                dat3 = T.t2data('m2.dat', 'MESH2' if mesh else '')
                if not extended and list(dat3._sections) != sec_read: cmp.problems.append('cycle2 sections: read with %r, after write and read %r' % (sec_read, dat3._sections))
                compare(cmp, dat2, dat3, shape, exact=not extended, where='cycle2 ')
                dat3.write('m3.dat', 'MESH3' if mesh else '')
                if extended:
                    if stripped('m2.dat') != stripped('m3.dat'): cmp.problems.append('cycle: third data file differs from the second')
                elif open('m2.dat').read() != open('m3.dat').read(): cmp.problems.append('cycle: third data file differs from the second')
                if mesh and open('MESH2').read() != open('MESH3').read(): cmp.problems.append('cycle-mesh: third MESH file differs')
        except Exception as ex:
            import traceback
            cmp.problems.append('exception %s: %s | %s' % (type(ex).__name__, ex, traceback.format_exc()[-400:].replace('\n', ' / ')))
    finally:
        os.chdir(cwd)
        shutil.rmtree(tmp, ignore_errors=True)
    if cmp.problems: return True, '%d problems: %s' % (len(cmp.problems), '; '.join(cmp.problems[:6]))
    return False, 'round trip ok'
