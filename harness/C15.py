"""C15 - IFC-67 routines of t2thermo.py (partial claim, DESIGN.md section 4 / C15).

The REAL functions of /repo/t2thermo.py (and IAPWS97.region/sat/b23p) run on
symbolic inputs.  exp() and x**(5/17) are opaque (a fresh positive value per
distinct argument), so nothing numerical about the IFC-67 forms is claimed.
Decided clauses:

 (a) range checking: with bounds=True, cowat / supst / sat / tsat return a
     value only inside the stated range and None outside it; inside the range
     they return a value (cowat: unless its own discriminant test ZP < 0 fires,
     whose feasibility needs the numerical saturation curve - not claimed).
 (b) t2thermo.region and IAPWS97.region agree for t <= 350 and t > 374.15 degC
     at states farther than DELTA from both formulations' boundary curves,
     assuming |sat67(t) - sat97(t)| < DELTA; |b23p67 - b23p97| < DELTA is proved.
 (c) separated_steam_fraction lies in [0, 1] and does not decrease with
     enthalpy, one and two stages, for symbolic saturation enthalpies
     (hs > hl at each stage, hs2 > hl1).
"""
import sys
from fractions import Fraction
import z3
from vx import sym, loader, report
from vx.sym import SReal
from harness.thermo_common import lift, capture, last, MissingLocal, fr, solve

PID = 'C15'
SRC = 't2thermo.py'
DELTA = 1.0e4                      # Pa: manifest constant of clause (b)
TC67 = 647.3 - 273.15              # IFC-67 critical temperature, degC
PC67 = 22120000.0

_LD = None
def _load():
    global _LD
    if _LD is None:
        _LD = loader.load(['t2thermo', 'IAPWS97'])
        lift(_LD.IAPWS97, ['nr4', 'nr23'])
        _LD.t2thermo.exp = _fresh_fn('exp')
    return _LD


def _fresh_fn(name, positive=True):
    """opaque positive function: one fresh positive real per distinct argument
    term and path (weaker than an uninterpreted function, hence sound)."""
    def f(x, *a):
        c = sym.ctx()
        if c is None or not sym.is_sym(x):
            import math
            return math.exp(x) if name == 'exp' else x ** a[0]
        cache = c.__dict__.setdefault('_fresh_cache', {})
        if cache.get('pc') is not c.pc:
            cache.clear(); cache['pc'] = c.pc
        sx = z3.simplify(sym.lift_real(x))
        key = (name, sx.get_id(), a)      # sx is kept alive in the cache entry (ids are recycled otherwise)
        if key in cache: return cache[key][1]
        v = z3.Real(c.fresh_name(name))
        if positive: c.add(v > 0)
        c.stubs_hit.add('%s opaque: a fresh %svalue per distinct argument' % ('%s(x)' % name if not a else 'x**%r' % (a[0],), 'positive ' if positive else ''))
        r = SReal(v)
        cache[key] = (sx, r)
        return r
    return f


def _ctx(ms=600):
    c = sym.Ctx(timeout_ms=ms)
    c.frac_pow = lambda x, n: _fresh_fn('pow')(x, n)
    return c


def _mv(m, e):
    return sym.model_value(m, e)


def _inband(t, lo, hi):
    """fork-free when the path condition decides it"""
    return bool((t >= lo) & (t <= hi))


def _prove_light(c, ob, lab):
    """c.prove, but first with only the small path-condition entries as
    hypotheses (a subset is sound; the giant definedness decisions of the
    routine bodies are irrelevant to the range logic and slow the solver)."""
    from harness.thermo_common import term_size
    import time
    hyps = [k for k in c.pc if term_size(k) <= 300]
    r, dt, m, _ = solve(hyps + [z3.Not(ob)], 10000)
    c.stats['queries'] += 1; c.stats['solver_s'] += dt; c.stats[r] = c.stats.get(r, 0) + 1
    if r == 'unsat':
        c.stats['obligations'] += 1; c.stats['ob_unsat'] += 1
        return 'unsat'
    old = c.timeout_ms
    c.timeout_ms = 30000
    try:
        return c.prove(ob, lab)
    finally:
        c.timeout_ms = old


# ---------------------------------------------------------------------------
# (a) range checking

def _is_none(r):
    if r is None: return True
    if isinstance(r, tuple): return all(x is None for x in r)
    return False


def task_bounds(fn, ms=600):
    ld = _load(); T = ld.t2thermo
    failures, samples, distinct = [], [], set()
    undecided = []

    def h(c):
        t = c.real('t', -50.0, 900.0) if fn != 'tsat' else None
        p = c.real('p', -1.0e6, 2.0e8) if fn != 'sat' else None
        names = {}
        if t is not None: names['t'] = t.e
        if p is not None: names['p'] = p.e
        # the stated range, written independently of the routine
        curves = {}
        if fn == 'cowat':
            box = z3.And(t.e >= fr(0.01), t.e <= 350, p.e <= fr(1.0e8))
            if _inband(t, 0.01, 350.0):
                s67 = T.sat(t); curves['sat'] = s67.e
                inr = z3.And(box, p.e >= s67.e)
            else:
                inr = z3.BoolVal(False)
        elif fn == 'supst':
            box = z3.And(t.e >= fr(0.01), t.e <= 800, p.e > 0)
            if _inband(t, 0.01, TC67):
                s67 = T.sat(t); curves['sat'] = s67.e
                inr = z3.And(box, p.e <= s67.e)
            elif _inband(t, TC67, 590.0):
                b67 = T.b23p(t); curves['b23p'] = b67.e
                inr = z3.And(box, t.e > fr(TC67), p.e <= b67.e)
            else:
                inr = z3.And(box, t.e > 590, p.e <= fr(1.0e8))
        elif fn == 'sat':
            inr = z3.And(t.e >= fr(0.01), t.e <= fr(TC67))
        else:
            plo = T.sat(0.01)
            inr = z3.And(p.e >= fr(float(plo)), p.e <= fr(PC67))
        restore = []
        try:
            if fn == 'tsat':
                import scipy.optimize as so
                mm = sys.modules[ld.pkg + '._math']
                restore = [(so, 'fsolve', so.fsolve), (mm, 'log', mm.log)]
                class ResidualUndefined(ValueError): pass
                def _fsolve(f, x0, *a, **k):
                    # scipy evaluates the residual at the starting estimate before anything else:
                    # sat() must return a number there (None - p is a TypeError)
                    try: f(x0)
                    except TypeError as ex: raise ResidualUndefined(str(ex))
                    return SReal(z3.Real('fsolve_root'))
                so.fsolve = _fsolve
                _olog = _fresh_fn('log', positive=False)
                def _log(x):
                    # opaque, except for the contract "monotone": inside the stated pressure range
                    # log(p) lies between the logarithms of the range limits (real math.log, widened)
                    r = _olog(x)
                    if sym.is_sym(x):
                        import math
                        xe = sym.lift_real(x)
                        c.add(z3.Implies(z3.And(xe >= fr(float(plo)), xe <= fr(PC67)),
                                         z3.And(r.e >= fr(math.log(float(plo)) - 1e-9), r.e <= fr(math.log(PC67) + 1e-9))))
                    return r
                mm.log = _log
                c.stubs_hit.add('scipy.optimize.fsolve stubbed: evaluates the residual once at the starting estimate, then returns an unconstrained value; math.log opaque but bounded by its values at the range limits (monotone)')
            try:
                if fn == 'cowat': ret, log, _ = capture(SRC, T.cowat, t, p, True, only=('cowat',))
                elif fn == 'supst': ret = T.supst(t, p, True)
                elif fn == 'sat': ret = T.sat(t, True)
                else: ret = T.tsat(p, True)
            except (ZeroDivisionError, ValueError, OverflowError) as ex:
                if fn == 'tsat' and type(ex).__name__ == 'ResidualUndefined':
                    r, m = c.reachable()
                    c.prove(z3.BoolVal(r == 'unsat'), 'tsat: the residual sat(t) - p is defined at the starting estimate for every pressure in range')
                    if r == 'sat':
                        # log is only bounded, not known: prefer a witness at a range limit (the estimate is monotone in p)
                        for extreme in (p.e == fr(PC67), p.e == fr(float(plo))):
                            r2, m2 = c.solve(extreme, full=True)
                            if r2 == 'sat': m = m2; break
                        w = {k: _mv(m, v) for k, v in names.items()}
                        failures.append(dict(key='bounds/tsat/residual-undefined-at-starting-estimate',
                                             what='tsat(p=%s, bounds=True): sat() returns no value at the starting estimate of the solver (%s)' % (float(w['p']), ex),
                                             replay=dict(kind='tsat-start', **w)))
                    elif r != 'unsat': undecided.append('tsat starting estimate path: %s' % r)
                    return 'residual undefined at the starting estimate'
                r, m = c.reachable()
                if r == 'sat':
                    w = {k: _mv(m, v) for k, v in names.items()}
                    pinned = []
                    for nm, v in names.items():
                        r2, _ = c.solve(v != z3.RealVal(w[nm]), full=True)
                        if r2 == 'unsat': pinned.append('%s=%.6g' % (nm, float(w[nm])))
                    where = ','.join(pinned) or 'unpinned'
                    failures.append(dict(key='bounds/%s/raises-%s/at-%s' % (fn, type(ex).__name__, where),
                                         what='%s(%s, bounds=True) raises %s' % (fn, ', '.join('%s=%s' % (k, float(v)) for k, v in w.items()), type(ex).__name__),
                                         prescreen=True, replay=dict(kind='bounds', fn=fn, on_curve=None, expect='raises', exc=type(ex).__name__, **w)))
                    return 'raises %s (%s)' % (type(ex).__name__, where)
                return 'raises %s (path infeasible or undecided with opaque exp: not claimed)' % type(ex).__name__
        finally:
            for o, k, v in restore: setattr(o, k, v)
        none = _is_none(ret)
        if none:
            ob = z3.Not(inr); lab = '%s: None only outside the stated range' % fn
            if fn == 'cowat':
                # the routine's own discriminant test is the only other way to None
                try:
                    zp = last(log['cowat'][0], 'ZP').e
                    ob = z3.Or(ob, zp < 0); lab += ' (or ZP < 0)'
                except (MissingLocal, KeyError, IndexError):
                    pass
        else:
            ob = inr; lab = '%s: a value only inside the stated range' % fn
        distinct.add((lab, z3.simplify(ob).hash()))
        rv = _prove_light(c, ob, lab)
        if rv == 'sat':
            neg = z3.Not(ob)
            m = c.failures[-1]['model']
            on_curve = None
            # prefer a witness well away from the (opaque) curves, else one exactly on a curve
            far = [z3.Or(p.e - cv > fr(3 * DELTA), cv - p.e > fr(3 * DELTA)) for cv in curves.values()] if p is not None else []
            # (the curves are opaque to the solver: prefer states whose side of the curve does not depend on its value)
            found = False
            if p is not None and fn in ('cowat', 'supst'):     # also when this path has no curve of the oracle's (t outside its band)
                for extreme in ([p.e == fr(1.0e8)] if fn == 'cowat' else [p.e == 1]) + [z3.BoolVal(True)]:
                    r2, m2 = c.solve(z3.And(neg, extreme, *far), full=True)
                    if r2 == 'sat': m = m2; found = True; break
            if not found:
                for cn, cv in curves.items():
                    r3, m3 = c.solve(z3.And(neg, p.e == cv), full=True)
                    if r3 == 'sat': m = m3; on_curve = cn; break
            w = {k: _mv(m, v) for k, v in names.items()}
            failures.append(dict(key='bounds/%s/%s' % (fn, 'None-inside-range' if none else 'value-outside-range'),
                                 what='%s(%s, bounds=True) returns %s%s' % (fn, ', '.join('%s=%s' % (k, float(v)) for k, v in w.items()),
                                                                             'None inside' if none else 'a value outside', ' the stated range' + (' (p on the %s curve)' % on_curve if on_curve else '')),
                                 replay=dict(kind='bounds', fn=fn, on_curve=on_curve, expect='none-inside' if none else 'value-outside', **w)))
        if len(samples) < 2:
            samples.append(dict(clause='range checking', routine=fn, returned='None' if none else 'value', obligation=lab, verdict=rv,
                                path_condition=[str(k)[:70].replace('\n', ' ') for k in c.pc[(4 if fn in ('cowat', 'supst') else 2):][:6]]))
        return 'returns None' if none else 'returns a value'

    res = sym.explore(h, _ctx(ms), max_paths=300)
    got = set(p.outcome for p in res['paths'])
    for want in ('returns None', 'returns a value'):
        if want not in got and not failures:
            res['paths'][0].unknowns.append(dict(label='bounds/%s: no path "%s" (vacuous)' % (fn, want), info=None))
    return report.summarize('bounds/' + fn, res, failures, samples, extra=dict(distinct_obligations=len(distinct)))


# ---------------------------------------------------------------------------
# (b) region classifiers agree

def task_region_agree():
    ld = _load(); T = ld.t2thermo; I = ld.IAPWS97
    failures, samples, distinct = [], [], set()

    def h(c):
        t = c.real('t', -50.0, 900.0); p = c.real('p', -1.0e6, 2.0e8)
        te, pe = t.e, p.e
        c.add(z3.Or(te <= 350, te > fr(TC67)))     # the isotherm t = 350 itself is inside the claim (cowat's range includes it)
        d = fr(DELTA)
        far = lambda cv, k=1: z3.Or(pe - cv > k * d, cv - pe > k * d)
        pre, pre3 = [], []
        if _inband(t, 0.01, 350.0):
            s67 = T.sat(t).e; s97 = I.sat(t).e
            c.add(z3.And(s67 - s97 < d, s97 - s67 < d))       # stated assumption
            pre += [far(s67), far(s97)]; pre3 += [far(s97, 3)]
        elif _inband(t, TC67, 590.0):
            b67 = T.b23p(t).e; b97 = I.b23p(t).e
            lab = '|b23p67(t) - b23p97(t)| < DELTA on (374.15, 590]'
            ob = z3.And(b67 - b97 < d, b97 - b67 < d)
            distinct.add((lab, z3.simplify(ob).hash()))
            rb = c.prove(ob, lab)
            if rb == 'sat':
                w = _mv(c.failures[-1]['model'], te)
                failures.append(dict(key='region/b23p-formulations-differ-by-more-than-DELTA', what='b23p of the two formulations differ by more than %g Pa at t = %s' % (DELTA, float(w)),
                                     replay=dict(kind='b23diff', t=w)))
            pre += [far(b67), far(b97)]; pre3 += [far(b97, 3)]
        try:
            r67 = T.region(t, p); r97 = I.region(t, p)
        except (ZeroDivisionError, ValueError) as ex:
            return 'raises %s (undecided)' % type(ex).__name__
        if r67 == r97:
            c.stats['obligations'] += 1; c.stats['ob_unsat'] += 1; c.stats['ob_trivial'] = c.stats.get('ob_trivial', 0) + 1
            return 'agree: %s' % r67
        lab = 'paths with t2thermo.region = %s, IAPWS97.region = %s are infeasible away from the curves' % (r67, r97)
        ob = z3.Not(z3.And(*pre)) if pre else z3.BoolVal(False)
        distinct.add((lab, z3.simplify(ob).hash()))
        rv = c.prove(ob, lab)
        if rv == 'sat':
            m = c.failures[-1]['model']
            r2, m2 = c.solve(z3.And(*(pre + pre3)), full=True) if pre else ('skip', None)
            if r2 == 'sat': m = m2
            w = dict(t=_mv(m, te), p=_mv(m, pe))
            failures.append(dict(key='region/disagree/t2thermo=%s,IAPWS97=%s' % (r67, r97),
                                 what='t2thermo.region(%s, %s) = %s but IAPWS97.region = %s' % (float(w['t']), float(w['p']), r67, r97),
                                 replay=dict(kind='region', **w)))
        if len(samples) < 2:
            samples.append(dict(clause='region agreement', t2thermo=r67, IAPWS97=r97, obligation=lab, verdict=rv))
        return 'differ: %s/%s (shown infeasible away from the curves)' % (r67, r97) if rv == 'unsat' else 'differ: %s/%s' % (r67, r97)

    res = sym.explore(h, _ctx(5000), max_paths=300)
    got = [str(p.outcome) for p in res['paths']]
    if not any(g.startswith('agree: 1') for g in got) or not any(g.startswith('agree: 3') for g in got) or not any(g.startswith('agree: 2') for g in got):
        if not failures:
            res['paths'][0].unknowns.append(dict(label='region agreement: not every region reached on an agreeing path (vacuous)', info=None))
    return report.summarize('region_agree', res, failures, samples, extra=dict(distinct_obligations=len(distinct)))


# ---------------------------------------------------------------------------
# (c) separated steam fraction

def task_steam_fraction(stages):
    ld = _load(); T = ld.t2thermo
    failures, samples, distinct = [], [], set()

    def h(c):
        hmax = 1.0e7
        P = [c.real('psep%d' % k, 0.1e6, 5.0e6) for k in range(stages)]
        HL = [c.real('hl%d' % (k + 1), 0.0, hmax) for k in range(stages)]
        HS = [c.real('hs%d' % (k + 1), 0.0, hmax) for k in range(stages)]
        for k in range(stages): c.add(HS[k].e > HL[k].e)
        if stages == 2: c.add(HS[1].e > HL[0].e)
        ha = c.real('h_a', 0.0, 3.5e6); hb = c.real('h_b', 0.0, 3.5e6)
        c.add(ha.e <= hb.e)
        def stub(table):
            def f(t, p, *a, **k):
                for q, hv in zip(P, table):
                    if q is p: return (1.0, hv - p)       # enthalpy u + p/d = hv
                raise sym.Unsupported('steam fraction stub called with an unexpected pressure')
            return f
        old = (T.tsat, T.cowat, T.supst)
        T.tsat = lambda p, *a, **k: 100.0
        T.cowat = stub(HL); T.supst = stub(HS)
        c.stubs_hit.add('t2thermo.tsat/cowat/supst replaced by symbolic saturation enthalpies inside separated_steam_fraction')
        try:
            try:
                fa = T.separated_steam_fraction(ha, *P)
                fb = T.separated_steam_fraction(hb, *P)
            except ZeroDivisionError:
                return 'ZeroDivisionError'
        finally:
            T.tsat, T.cowat, T.supst = old
        fa, fb = sym.lift_real(fa), sym.lift_real(fb)
        names = dict(h_a=ha.e, h_b=hb.e)
        for k in range(stages):
            names['hl%d' % (k + 1)] = HL[k].e; names['hs%d' % (k + 1)] = HS[k].e; names['p%d' % (k + 1)] = P[k].e
        for lab, ob, key in (('fraction in [0, 1]', z3.And(fa >= 0, fa <= 1), 'outside-0-1'),
                             ('fraction does not decrease with enthalpy', fa <= fb, 'decreases-with-enthalpy')):
            distinct.add((lab, z3.simplify(ob).hash()))
            rv = c.prove(ob, '%d-stage: %s' % (stages, lab))
            if rv == 'sat':
                m = c.failures[-1]['model']
                w = {k: _mv(m, v) for k, v in names.items()}
                failures.append(dict(key='steam_fraction/%d-stage/%s' % (stages, key),
                                     what='separated_steam_fraction (%d stage): %s violated' % (stages, lab),
                                     replay=dict(kind='steam_fraction', stages=stages, check=key, **w)))
            if len(samples) < 2:
                samples.append(dict(clause='steam fraction', stages=stages, obligation=lab, verdict=rv, term=str(z3.simplify(fa))[:200]))
        return 'checked'

    res = sym.explore(h, _ctx(20000), max_paths=50)
    if not any(p.outcome == 'checked' for p in res['paths']) and not failures:
        res['paths'][0].unknowns.append(dict(label='steam fraction: no path reached the obligations', info=None))
    return report.summarize('steam_fraction/%d' % stages, res, failures, samples, extra=dict(distinct_obligations=len(distinct)))


# ---------------------------------------------------------------------------

def _prescreen(results, rep):
    """Raising paths found with opaque exp() may be artefacts of the opaque
    values: each is replayed first; only a reproducing one stays a failure,
    the others are listed as undecided (not claimed)."""
    import json, os, tempfile
    dropped = []
    for r in results:
        keep = []
        for f in r.get('failures', []):
            if not f.get('prescreen'):
                keep.append(f); continue
            fd, path = tempfile.mkstemp(suffix='.json', prefix='c15_pt_')
            with os.fdopen(fd, 'w') as fh:
                json.dump(dict(property=PID, key=f['key'], data=report.jsonable(f['replay'])), fh)
            ok, out = report.run_replay(PID, path)
            os.unlink(path)
            rep.replays_done += 1
            if ok: keep.append(f)
            else: dropped.append(dict(path=f['key'], real_code=out.strip()[-160:]))
        r['failures'] = keep
    if dropped:
        rep.extra['undecided_raising_paths'] = dropped


def run(tier, seed, rep):
    _load()
    ms = 4000 if tier == 'thorough' else 600      # feasibility-query cap inside the routine bodies
    tasks = [(task_bounds, dict(fn=f, ms=ms)) for f in ('cowat', 'supst', 'sat', 'tsat')]
    tasks += [(task_region_agree, {}), (task_steam_fraction, dict(stages=1)), (task_steam_fraction, dict(stages=2))]
    if seed:
        import random
        random.Random(seed).shuffle(tasks)
    results = report.run_tasks(tasks)
    _prescreen(results, rep)
    rep.add_results(results)
    rep.bounds += ['(a) t in [-50, 900] degC, p in [-1 MPa, 200 MPa] (both sides of every range limit), bounds=True',
                   '(b) same box, t <= 350 (closed: the boundary isotherm is included) or t > 374.15, |p - curve| > DELTA = %g Pa for the sat / b23p curves of both formulations' % DELTA,
                   '(c) separator pressures in [0.1, 5] MPa, enthalpies h in [0, 3.5 MJ/kg], saturation enthalpies in [0, 10 MJ/kg], one and two stages']
    rep.outside += ['numerical agreement of densities, energies and saturation pressures between IFC-67 and IAPWS-97 (the headline clause)',
                    'single-potential identity of the IFC-67 forms (exp, Z**(5/17))',
                    'tsat as the inverse of sat (scipy fsolve)',
                    'cowat: inside the range a value is returned only if its own test ZP >= 0 holds; ZP >= 0 along the saturation line needs numerical exp and is not claimed',
                    'definedness (non-zero denominators) of the cowat/supst bodies where it depends on exp(): raising paths are replayed, non-reproducing ones listed as undecided',
                    'bounds=False behaviour', 'IEEE rounding']
    rep.assumptions += ['exp(x) and x**(5/17) are opaque: a fresh positive value per distinct argument',
                        '(b) |sat67(t) - sat97(t)| < DELTA = %g Pa on [0.01, 350] (measured maximum 5960 Pa at 350 degC); the b23p counterpart is proved, not assumed' % DELTA,
                        '(c) saturation enthalpies are symbolic with hs > hl at each stage and hs2 > hl1; tsat/cowat/supst are replaced by stubs returning them',
                        '(a) tsat: scipy fsolve replaced by an unconstrained value, math.log opaque (only None-ness is claimed)',
                        'stated ranges: cowat 0.01..350 degC, sat(t) <= p <= 100 MPa; supst 0.01..800 degC, 0 < p <= sat(t) (t <= 374.15) / b23p(t) (t <= 590) / 100 MPa; sat 0.01..374.15 degC; tsat sat(0.01)..22.12 MPa']
    rep.process_failures()
    return rep.finish(rule='one obligation per path of the routine under test: path condition AND NOT(returned None-ness matches the stated range) / AND NOT(classifiers agree) / AND NOT(0 <= f(h_a) <= f(h_b) <= 1) must be unsat; '
                      'distinct = distinct non-constant formulas by z3 AST hash')
