"""Backend-neutral model construction and oracles for C20 (flavour conversion
and Waiwera export).  Used by the symbolic check (harness/C20.py: values are
vx proxies, conditions become z3 formulas) and by the concrete replay
(harness/replay_C20.py: values come from the solver's model, conditions are
Python booleans).  No z3 import here.

  b    value provider: the C01 interface (real, int, record, digit, reals, name,
       some_nonzero) plus  cells(base, n, alphabet) -> text of n cells,
       fint(name, lo, hi), freal(name), assume(cond)
  ops  condition algebra: ite(c, x, y), and_(*c), or_(*c), not_(c), truth(c) -> bool
       (forks in the symbolic run), is_num(x), is_text(x)
  st   obligation sink: st.ob(cond, label)

The oracles are written from the documentation (doc/source/t2data.rst:
convert_to_TOUGH2, convert_to_AUTOUGH2, the type / history_* / short_output
properties, json) and the warning texts of the conversion helpers; they do
not call any code under test."""
from harness.c01_model import build as c01_build

TYPE_ALPHABET = 'ABCDEFGHIJKLMNOPQRSTUVWXYZ0123456789 .'
TOUGH2_TYPES = ['HEAT', 'WATE', 'AIR ', 'MASS', 'DELV']      # + every type starting with COM
CONVERTIBLE = {'CO2 ': 'COM2'}
SUPPORTED_EOS = {'W': 'w', 'EW': 'we', 'EWC': 'wce', 'EWAV': 'wae', 'EWT': 'we', 'EWTD': 'we'}
EOS_FROM_INDEX = {1: 'EW', 2: 'EWC', 4: 'EWAV'}


# ---------------------------------------------------------------------------
# markers an expected model may hold in place of a value

class Alts(object):
    """the actual value equals value_i for some i whose condition holds"""
    def __init__(self, cases, what): self.cases, self.what = cases, what

class BlockRef(object):
    """a request for the block of that name: the t2block object registered in
    the grid under the name, or the name itself"""
    def __init__(self, name): self.name = name


def _plain(x):
    # numpy scalars -> python numbers (so that == dispatches to the proxy)
    if type(x).__module__ == 'numpy' and hasattr(x, 'item') and getattr(x, 'ndim', 1) == 0: return x.item()
    return x


def norm_key(label):
    """stable failure key of an obligation label: the part before the colon, indices wildcarded"""
    import re
    k = label.split(':')[0].strip()
    k = re.sub(r'\[\d+\]', '[*]', k)
    return k[:120]


class Sink(object):
    """collects (condition, label); conditions are bool or backend conditions"""
    def __init__(self): self.items = []
    def ob(self, cond, label): self.items.append((cond, label))


_SKIP = {'t2data': ('read_fn', 'write_fn', 'read_function', 'generator')}


def deep_eq(ops, a, b, where, st, memo=None, grid=None):
    """a: expected object graph (may hold markers), b: actual.  Reports one
    obligation per leaf; object identity structure (aliasing) is compared
    through a bijection between the objects of the two graphs."""
    if memo is None: memo = ({}, {})
    a, b = _plain(a), _plain(b)
    if isinstance(a, Alts):
        b_ = b
        if not ops.is_num(b_): st.ob(False, '%s: a number expected, got %s' % (where, type(b_).__name__)); return
        st.ob(ops.or_(*[ops.and_(c, v == b_) for c, v in a.cases]), '%s: %s' % (where, a.what)); return
    if isinstance(a, BlockRef):
        if ops.is_text(b): st.ob(b == a.name, '%s: names block %r' % (where, a.name)); return
        ok = type(b).__name__ == 't2block' and grid is not None and a.name in grid.block and grid.block[a.name] is b
        st.ob(bool(ok), '%s: is the block %r of the grid (or its name), got a %s %r' % (where, a.name, type(b).__name__, b)); return
    if a is None or b is None:
        st.ob(a is None and b is None, '%s: absent stays absent (%r vs %r)' % (where, a, b)); return
    if isinstance(a, bool) or isinstance(b, bool):
        st.ob(isinstance(a, bool) and isinstance(b, bool) and a == b, '%s: same flag' % where); return
    if ops.is_num(a) or ops.is_num(b):
        if not (ops.is_num(a) and ops.is_num(b)): st.ob(False, '%s: number vs %s' % (where, type(b).__name__)); return
        st.ob(a == b, '%s: same value' % where); return
    if ops.is_text(a) or ops.is_text(b):
        if not (ops.is_text(a) and ops.is_text(b)): st.ob(False, '%s: text vs %s' % (where, type(b).__name__)); return
        st.ob(a == b, '%s: same text' % where); return
    if isinstance(a, (list, tuple)) or isinstance(b, (list, tuple)):
        if not (isinstance(b, (list, tuple)) and isinstance(a, (list, tuple)) and isinstance(a, tuple) == isinstance(b, tuple)):
            st.ob(False, '%s: %s vs %s' % (where, type(a).__name__, type(b).__name__)); return
        st.ob(len(a) == len(b), '%s: same number of entries (%d expected, %d found)' % (where, len(a), len(b)))
        if len(a) == len(b):        # (entries of lists of different lengths are not aligned: nothing more to say)
            for i, (x, y) in enumerate(zip(a, b)): deep_eq(ops, x, y, '%s[%d]' % (where, i), st, memo, grid)
        return
    if isinstance(a, (set, frozenset)):
        st.ob(isinstance(b, (set, frozenset)) and a == b, '%s: same set' % where); return
    if isinstance(a, dict) or isinstance(b, dict):
        if not (isinstance(a, dict) and isinstance(b, dict)): st.ob(False, '%s: dict vs %s' % (where, type(b).__name__)); return
        st.ob(list(a.keys()) == list(b.keys()), '%s: same keys in the same order (%r expected, %r found)' % (where, list(a.keys()), list(b.keys())))
        for k in a:
            if k in b: deep_eq(ops, a[k], b[k], '%s[%r]' % (where, k), st, memo, grid)
        return
    if type(a).__module__ == 'numpy' or type(b).__module__ == 'numpy':      # arrays
        if not (hasattr(a, 'shape') and hasattr(b, 'shape') and tuple(a.shape) == tuple(b.shape)):
            st.ob(False, '%s: arrays of the same shape' % where); return
        for i, (x, y) in enumerate(zip(a.ravel().tolist() if a.dtype != object else list(a.ravel()),
                                       b.ravel().tolist() if b.dtype != object else list(b.ravel()))):
            deep_eq(ops, x, y, '%s[%d]' % (where, i), st, memo, grid)
        return
    if hasattr(a, '__dict__') and hasattr(b, '__dict__'):
        if type(a).__name__ != type(b).__name__:
            st.ob(False, '%s: a %s expected, got a %s' % (where, type(a).__name__, type(b).__name__)); return
        fa, fb = memo
        if id(a) in fa or id(b) in fb:
            st.ob(fa.get(id(a)) is b and fb.get(id(b)) is a, '%s: refers to the same %s object as elsewhere in the model' % (where, type(a).__name__))
            return
        fa[id(a)] = b; fb[id(b)] = a
        skip = _SKIP.get(type(a).__name__, ())
        ka = [k for k in a.__dict__ if k not in skip and not callable(a.__dict__[k])]
        kb = [k for k in b.__dict__ if k not in skip and not callable(b.__dict__[k])]
        st.ob(sorted(ka) == sorted(kb), '%s: same attributes' % where)
        g = b.grid if type(b).__name__ == 't2data' else grid
        for k in ka:
            if k in b.__dict__: deep_eq(ops, a.__dict__[k], b.__dict__[k], '%s.%s' % (where, k), st, memo, g)
        return
    st.ob(a == b, '%s: equal' % where)


# ---------------------------------------------------------------------------
# models for the conversions

def present_sections(T, dat):
    """which sections a model has data for (canonical order)"""
    g = dat.grid
    has = dict(SIMUL=bool(dat.simulator), ROCKS=len(g.rocktypelist) > 0, PARAM=True,
               MOMOP=any(int(m) != 0 for m in list(dat.more_option)), START=bool(dat.start), NOVER=bool(dat.noversion),
               RPCAP=bool(dat.relative_permeability or dat.capillarity), LINEQ=bool(dat.lineq), SOLVR=bool(dat.solver),
               MULTI=bool(dat.multi), TIMES=bool(dat.output_times), SELEC=bool(dat.selection), DIFFU=bool(dat.diffusion),
               ELEME=True, CONNE=True, MESHM=bool(dat.meshmaker), GENER=len(dat.generatorlist) > 0,
               SHORT=bool(dat.short_output), FOFT=len(dat.history_block) > 0, COFT=len(dat.history_connection) > 0,
               GOFT=len(dat.history_generator) > 0, INCON=bool(dat.incon), INDOM=bool(dat.indom))
    return [s for s in T.t2data_sections if has[s]]


def build_conv(b, T, G, np_, shape):
    """the model to be converted; shape['c01'] is a c01_model shape"""
    cs = shape['c01']
    dat, info = c01_build(b, T, G, np_, cs)
    if shape['dir'] == 'toT':
        dat.simulator = shape.get('simulator', 'AUTOUGH2.2').ljust(10) + shape.get('eos', 'EW')
    for k, (gen, g) in enumerate(zip(info['gens'], cs.get('generators', []))):
        if g.get('cls'): gen.type = type_cells(b, 'gt%d' % k, g['cls'])
    if shape.get('porosity') is not None:
        for rt in dat.grid.rocktypelist: rt.porosity = shape['porosity']
    if shape.get('roundtrip') and shape['dir'] == 'toT':
        # the rescaled conductivity is printed too: it has to fit its field like every other value
        for rt in dat.grid.rocktypelist: b.assume_fits(rt.conductivity * (1. - rt.porosity), 'e', 10, 4)
    so = shape.get('short')
    if so is not None:
        dat.short_output = {}
        if so.get('frequency'): dat.short_output['frequency'] = b.fint('sfreq', 1, 99)
        if 'block' in so: dat.short_output['block'] = [info['blocks'][i] for i in so['block']]
        if 'connection' in so: dat.short_output['connection'] = [dat.grid.connectionlist[i] for i in so['connection']]
        if 'generator' in so: dat.short_output['generator'] = [info['gens'][i] for i in so['generator']]
    hi = shape.get('history')
    if hi is not None:
        blocks, cons, gens = info['blocks'], dat.grid.connectionlist, info['gens']
        def item(kind, v):
            if kind == 'blk': return blocks[v]
            if kind == 'con': return cons[v]
            if kind == 'gen': return gens[v]
            return tuple(v) if isinstance(v, list) else v       # bare name / pair of names
        dat.history_block = [item(k, v) for k, v in hi.get('block', [])]
        dat.history_connection = [item(k, v) for k, v in hi.get('connection', [])]
        dat.history_generator = [item(k, v) for k, v in hi.get('generator', [])]
    dat.filename = shape.get('filename', '')
    opt = dat.parameter['option']
    region = shape.get('mop', 'free')
    MP = shape.get('MP', False)
    if region == 'quiet':
        # option digits stay symbolic but inside the region where the conversion rewrites none of them
        b.assume(opt[12] != 2)
        for i in (22, 23, 24): b.assume(opt[i] == 0)
        if shape['dir'] == 'toT': b.assume(opt[10] != 2)
        if MP:
            for i in (14, 17, 20): b.assume(opt[i] == 0)
            if shape['dir'] == 'toA': b.assume(opt[21] == 0)
    elif isinstance(region, dict):
        # a stated cell of the option decision tree: {'10': True, ...} = "the test on MOP(10) comes out true"
        tests = {10: lambda o: o == 2, 12: lambda o: o == 2}
        for k, v in region.items():
            i = int(k); cond = tests.get(i, lambda o: o > 0)(opt[i])
            b.assume(cond if v else (opt[i] != 2 if i in tests else opt[i] == 0))
    if shape.get('mop21_max') is not None: b.assume(opt[21] <= shape['mop21_max'])
    if shape.get('solver_max') is not None and dat.solver: b.assume(dat.solver['type'] <= shape['solver_max'])
    # a LINEQ / SOLVR section whose type field is blank: read() stores no 'type' entry ('absent'); the
    # API (and the conversions themselves) also hold blank fields as None ('none')
    for attr, key in (('lineq', 'lineq_type'), ('solver', 'solver_type')):
        v, d = shape.get(key), getattr(dat, attr)
        if v == 'absent' and d: d.pop('type', None)
        elif v == 'none' and d: d['type'] = None
    dat._sections = present_sections(T, dat)       # as if read from a file
    xp = shape.get('xprec')
    if xp:
        # sections held in the AUTOUGH2-only extra-precision file (.pdat), echoed to the main file or not
        # (the property setters keep the section list in step, as read() does)
        dat.extra_precision = list(xp['sections'])
        dat.echo_extra_precision = bool(xp.get('echo', True))
    return dat, info


def type_cells(b, base, cls):
    """4-character generator type; cls bounds what the solver may pick"""
    if cls == 'com':                      # COM + any character
        return 'COM' + b.cells(base, 1, TYPE_ALPHABET)
    t = b.cells(base, 4, TYPE_ALPHABET)
    if cls == 'any': return t
    is_t2 = [t == x for x in TOUGH2_TYPES] + [t.startswith('COM')]
    is_conv = [t == x for x in CONVERTIBLE]
    if cls == 'lacking':                  # a type TOUGH2 lacks and cannot convert
        for cnd in is_t2 + is_conv: b.assume_not(cnd)
    elif cls == 'kept':                   # a TOUGH2 type or a convertible one
        b.assume_any(is_t2 + is_conv)
    else: raise ValueError(cls)
    return t


def classify(ops, t):
    """-> 'convert' / 'keep' / 'delete' for converting a generator type to TOUGH2"""
    for x in CONVERTIBLE:
        if ops.truth(t == x): return 'convert', CONVERTIBLE[x]
    for x in TOUGH2_TYPES:
        if ops.truth(t == x): return 'keep', None
    if ops.truth(t.startswith('COM')): return 'keep', None
    return 'delete', None


def expect_to_tough2(ops, T, G, np_, ref, shape, side=None):
    """turn the pristine twin `ref` into the model the documentation promises
    after convert_to_TOUGH2(MP=shape MP); returns bookkeeping for the generator lookup;
    side (a dict) receives what the explicit obligations of check_conversion need"""
    if side is None: side = {}
    MP = shape.get('MP', False)
    opt = ref.parameter['option']
    sim = ref.simulator
    o10, o12, o23 = opt[10], opt[12], opt[23]
    # rock heat conductivities: MULKOM formulation (weighted by porosity) -> TOUGH2
    mulkom10 = (o10 == 2)
    oldsim = sim.startswith('MULKOM') or (sim.startswith('AUTOUGH2') and not sim.startswith('AUTOUGH2.2'))
    mulkom23 = ops.and_(o23 == 1, oldsim)
    for rt in ref.grid.rocktypelist:
        k, phi = rt.conductivity, rt.porosity
        k1 = k * (1. - phi)
        k2 = k1 * (1. - phi)
        n10, n23 = ops.not_(mulkom10), ops.not_(mulkom23)
        side.setdefault('both_mulkom', []).append((ops.and_(mulkom10, mulkom23), k1))
        rt.conductivity = Alts([(ops.and_(n10, n23), k), (ops.and_(mulkom10, n23), k1), (ops.and_(n10, mulkom23), k1),
                                (ops.and_(mulkom10, mulkom23), k1), (ops.and_(mulkom10, mulkom23), k2)],
                               'conductivity unchanged, or scaled by (1 - porosity) when MOP(10) = 2 or MOP(23) = 1 with a MULKOM-compatible simulator')
    # option digits
    new = list(opt)
    new[10] = ops.ite(o10 == 2, 0, o10)
    new[12] = ops.ite(o12 == 2, 0, o12)
    if MP: new[21] = 0
    elif ref.lineq and ref.lineq.get('type') is not None: new[21] = ops.ite(ref.lineq['type'] <= 1, 4, 5)
    elif ref.lineq: new[21] = Alts([(True, 4), (True, 5)], 'MOP(21) = 4 or 5 (LINEQ section without a solver type: the simulator default)')
    else: new[21] = 4
    for i in (22, 23, 24): new[i] = 0
    if MP:
        for i in (14, 17, 20): new[i] = 0
    ref.parameter['option'] = np_.array(new, dtype=object)
    # AUTOUGH2-only data
    ref.simulator = ''
    ref.lineq = {}
    if ref.multi:
        ref.multi.pop('eos', None)
        ref.multi['num_inc'] = None
    so = ref.short_output
    if 'block' in so: ref.history_block = list(so['block'])
    if 'connection' in so: ref.history_connection = list(so['connection'])
    if 'generator' in so:
        # GOFT lists blocks: one request per block that has a short-output generator (first occurrence order)
        blks = []
        for g in so['generator']:
            if g.block not in blks: blks.append(g.block)
        ref.history_generator = [BlockRef(n) for n in blks]
    ref.short_output = {}
    if MP: ref.filename = 'INFILE'
    # the extra-precision auxiliary file is AUTOUGH2-only: nothing stays designated for it
    ref._extra_precision = []
    # generators
    fate = []
    kept = []
    for g in ref.generatorlist:
        what, newtype = classify(ops, g.type)
        fate.append(what)
        if what == 'convert': g.type = newtype
        if what != 'delete': kept.append(g)
    ref.generatorlist = kept
    ref._sections = present_sections(T, ref)
    return fate


def check_lookup(ops, st, before_keys, fate, dat, where, skip=()):
    """list / lookup consistency of the generators after a conversion.
    before_keys: (block, name) of the generators before, in list order;
    fate: 'keep' / 'convert' / 'delete' per generator (oracle)."""
    lst, lut = dat.generatorlist, dat.generator
    for key, g in lut.items():
        st.ob(any(g is x for x in lst), '%slookup-holds-listed: the generator filed under %r is in the list' % (where, key))
        st.ob((g.block, g.name) == key, '%slookup-own-key: the generator filed under %r has that (block, name)' % (where, key))
    survivors, last_fate = {}, {}
    for key, f in zip(before_keys, fate):
        survivors.setdefault(key, [])
        if f != 'delete': survivors[key].append(f)
        last_fate[key] = f
    for key in survivors:
        if key in skip: continue
        if not survivors[key]:
            st.ob(key not in lut, '%slookup-deleted-name: every generator named %r was deleted, so the lookup has no entry for it' % (where, key))
        elif last_fate[key] != 'delete':
            listed = [x for x in lst if (x.block, x.name) == key]
            st.ob(key in lut and bool(listed) and lut[key] is listed[-1], '%slookup-finds-kept: the lookup still finds the (last) generator named %r' % (where, key))


def named_requests(before, dat):
    """history requests held as bare names although the grid has the block / connection
    (a FOFT / COFT / GOFT section read before ELEME / CONNE, or names given through the API).
    before: the model as it was before the conversion (the pristine twin), dat: the converted one;
    -> [(list name, item, the object(s) of dat the request stands for)]"""
    g, out = dat.grid, []
    for x in before.history_block:
        if isinstance(x, str) and x in g.block: out.append(('block', x, [g.block[x]]))
    for x in before.history_connection:
        if isinstance(x, tuple) and x in g.connection: out.append(('connection', x, [g.connection[x]]))
    for x in before.history_generator:
        if isinstance(x, str) and x in g.block: out.append(('generator', x, [gn for gn in dat.generatorlist if gn.block == x]))
    return out


def expect_to_autough2(ops, T, G, np_, ref, shape, resolve_names=True):
    """the model the documentation promises after convert_to_AUTOUGH2; resolve_names: a bare name
    the grid knows stands for its block / connection (convert_history_to_short discards only
    "items referring to blocks or connections not present in the grid")"""
    MP = shape.get('MP', False)
    simulator, eos = shape.get('simulator_arg', 'AUTOUGH2.2'), shape.get('eos_arg', 'EW')
    opt = ref.parameter['option']
    if ref.filename and not ref.filename.lower().endswith('.dat'):
        ref.filename += '.DAT' if ref.filename[0].isupper() else '.dat'
    ref.simulator = simulator.ljust(10) + eos
    if ref.multi:
        ref.multi['eos'] = eos
        ref.multi['num_inc'] = None
    # linear solver: the AUTOUGH2 types are 1 and 2; the forward conversion turns type <= 1 into
    # MOP(21) = 4 and the others into 5, so the mirror has to turn 4 into 1 and 5 into 2
    if MP: st_ = 2
    elif ref.solver.get('type') is not None: st_ = ref.solver['type']
    else: st_ = opt[21]
    ref.lineq = {'type': Alts([(st_ == 4, 1), (st_ == 5, 2), (ops.and_(st_ != 4, st_ != 5), 1), (ops.and_(st_ != 4, st_ != 5), 2)],
                              'LINEQ type 1 or 2 (1 for solver 4, 2 for solver 5: mirror of the forward conversion)'),
                 'epsilon': None, 'max_iterations': None, 'gauss': None, 'num_orthog': None}
    ref.solver = {}
    new = list(opt)
    new[12] = ops.ite(opt[12] == 2, 0, opt[12])
    for i in (21, 22, 23, 24): new[i] = 0
    if MP:
        for i in (14, 17, 20): new[i] = 0
    ref.parameter['option'] = np_.array(new, dtype=object)
    # history requests -> short output (bare names cannot be resolved and are dropped, as documented)
    short = {}
    g_ = ref.grid
    def known(x, table): return resolve_names and isinstance(x, (str, tuple)) and x in table
    blks = [g_.block[x] if known(x, g_.block) else x for x in ref.history_block]
    blks = [x for x in blks if type(x).__name__ == 't2block']
    if blks: short['block'] = blks
    cons = [g_.connection[x] if known(x, g_.connection) else x for x in ref.history_connection]
    cons = [x for x in cons if type(x).__name__ == 't2connection']
    if cons: short['connection'] = cons
    gens = []
    for x in ref.history_generator:
        if known(x, g_.block): x = g_.block[x]
        if type(x).__name__ == 't2generator': more = [x]
        elif type(x).__name__ == 't2block':       # GOFT lists blocks: the request is for all the generators in that block
            more = [g for g in ref.generatorlist if g.block == x.name]
        else: more = []
        gens += [g for g in more if not any(g is y for y in gens)]
    if gens: short['generator'] = gens
    ref.short_output = short
    ref.history_block, ref.history_connection, ref.history_generator = [], [], []
    ref._sections = present_sections(T, ref)
    return ['keep'] * len(ref.generatorlist)


def run_conversion(T, dat, shape):
    """the call under test (real code); returns the exception or None"""
    import contextlib, io
    try:
        with contextlib.redirect_stdout(io.StringIO()):
            MP = shape.get('MP', False)
            if shape['dir'] == 'toT':
                if shape.get('via') == 'type': dat.type = 'TOUGH2'
                else: dat.convert_to_TOUGH2(warn=shape.get('warn', False), MP=MP)
            else:
                if shape.get('via') == 'type': dat.type = 'AUTOUGH2'
                else:
                    kw = {}
                    if 'simulator_arg' in shape: kw['simulator'] = shape['simulator_arg']
                    if 'eos_arg' in shape: kw['eos'] = shape['eos_arg']
                    dat.convert_to_AUTOUGH2(warn=shape.get('warn', False), MP=MP, **kw)
    except Exception as ex:
        return ex
    return None


def check_conversion(ops, T, G, np_, ref, dat, shape, err, st, orig=None):
    """all obligations of one conversion; ref is the pristine twin of dat
    (same construction), dat has been through run_conversion; orig is dat's
    generator list as it was before the call"""
    toT = shape['dir'] == 'toT'
    tag = 'to_TOUGH2' if toT else 'to_AUTOUGH2'
    if err is not None:
        st.ob(False, '%s/exception/%s: the conversion raised %s: %s' % (tag, type(err).__name__, type(err).__name__, err))
        return
    before_keys = [(g.block, g.name) for g in ref.generatorlist]
    # what the call leaves behind before anything else runs
    st.ob(dat.type == ('TOUGH2' if toT else 'AUTOUGH2'), '%s/type: the model reports the target type' % tag)
    gone = ('SIMUL', 'LINEQ') if toT else ()
    for s in gone: st.ob(s not in dat._sections, '%s/sections-after-call: %s is not in the section list right after the call' % (tag, s))
    if not toT: st.ob('SIMUL' in dat._sections and 'LINEQ' in dat._sections, '%s/sections-after-call: SIMUL and LINEQ are in the section list right after the call' % tag)
    # the section list as write() will see it
    dat.update_sections()
    banned = ('SIMUL', 'LINEQ', 'SHORT') if toT else ('SOLVR', 'FOFT', 'COFT', 'GOFT')
    have = present_sections(T, dat)
    for s in banned:
        st.ob(s not in dat._sections, '%s/banned-section: no %s section' % (tag, s))
        st.ob(s not in have, '%s/banned-data: no %s data' % (tag, s))
    if toT:
        st.ob(not dat.simulator, '%s/banned-data: no simulator string' % tag)
        st.ob('eos' not in dat.multi, '%s/banned-data: no EOS name in MULTI' % tag)
    # the expected model
    side = {}
    if toT:
        fate = expect_to_tough2(ops, T, G, np_, ref, shape, side)
        # both MULKOM-compatibility options set: the model uses the MULKOM formulation (once), so the TOUGH2
        # equivalent is k (1 - porosity), not k (1 - porosity)^2
        for k, ((both, k1), rt) in enumerate(zip(side.get('both_mulkom', []), dat.grid.rocktypelist)):
            if ops.is_num(rt.conductivity):
                st.ob(ops.or_(ops.not_(both), rt.conductivity == k1),
                      '%s/conductivity/rescaled-twice: MOP(10) = 2 together with MOP(23) = 1 (MULKOM-compatible simulator): rock type %d has the '
                      'conductivity scaled by (1 - porosity) once' % (tag, k))
        # extra precision (AUTOUGH2 only): no section may stay designated for the auxiliary file - write() would leave it
        # out of the main file and, for a TOUGH2 model, write no auxiliary file either
        left_xp = [s for s in dat._sections if s in dat.extra_precision]
        st.ob(not dat.extra_precision, '%s/extra-precision-left: no section stays designated for the AUTOUGH2-only extra-precision file (left: %r; '
              'of these write() %s)' % (tag, list(dat.extra_precision), ('omits %r from the main file' % left_xp) if (left_xp and not dat.echo_extra_precision) else 'still echoes all'))
        ref._extra_precision = list(dat._extra_precision)        # (reported above, under its own key)
        ref._echo_extra_precision = dat._echo_extra_precision    # (means nothing without extra-precision sections)
    else:
        # requests held as bare names the grid can resolve are requests for existing blocks / connections: not discarded
        named_ok = True
        for lst, item, objs in named_requests(ref, dat):
            have = dat.short_output.get(lst, []) if isinstance(dat.short_output, dict) else []
            ok = all(any(o is y for y in have) for o in objs)
            named_ok = named_ok and ok
            st.ob(ok, '%s/history/named-request-dropped: the %s history request %r names a %s the grid has, so it has a short-output counterpart'
                  % (tag, lst, item, 'connection' if lst == 'connection' else 'block'))
        fate = expect_to_autough2(ops, T, G, np_, ref, shape, resolve_names=named_ok)
    if toT:
        for k, g in enumerate(dat.generatorlist):
            st.ob(ops.or_(*([g.type == x for x in TOUGH2_TYPES] + [g.type.startswith('COM')])),
                  '%s/generators/unsupported-type-left-in-list: generator %d of the list has a TOUGH2 type' % (tag, k))
        for key, g in dat.generator.items():
            st.ob(ops.or_(*([g.type == x for x in TOUGH2_TYPES] + [g.type.startswith('COM')])),
                  '%s/generators/unsupported-type-left-in-lookup: generator %r of the lookup has a TOUGH2 type' % (tag, key))
    # generators the oracle deletes but the call left in the list are reported by the two
    # obligations above; they are set aside so that the rest of the comparison stays aligned
    left = []
    if orig is not None and len(orig) == len(fate):
        left = [g for g, f in zip(orig, fate) if f == 'delete' and any(g is x for x in dat.generatorlist)]
    check_lookup(ops, st, before_keys, fate, dat, '%s/generators/' % tag, skip=[(g.block, g.name) for g in left])
    full = dat.generatorlist
    if left:
        dat.generatorlist = [x for x in full if not any(x is g for g in left)]
        if 'GENER' not in ref._sections:
            ref.generatorlist = list(left); ref._sections = present_sections(T, ref); ref.generatorlist = []
    try:
        deep_eq(ops, ref, dat, tag + '/model', st)
    finally:
        dat.generatorlist = full


# ---------------------------------------------------------------------------
# Waiwera export: RECT(2 x 1 x 2) built with the real mulgrid.rectangular + t2grid.fromgeo

BLOCK_ALPHABET = ' abATM0123'
EOS_ALPHABET = 'EWCAVTDX2 '
DX, DY, DZ = [100., 150.], [80.], [10., 20.]


def build_export(b, MG, T, G, np_, shape):
    atm = shape.get('atm', 2)
    geo = MG.mulgrid().rectangular(list(DX), list(DY), list(DZ), atmos_type=atm, convention=shape.get('conv', 0),
                                   block_order=shape.get('order'))
    dat = T.t2data()
    dat.title = '  export model '
    dat.filename = 'model.dat'
    dat.grid = G.t2grid().fromgeo(geo)
    g = dat.grid
    g.add_rocktype(G.rocktype('rock2', 0, 2500., 0.2, [1.e-14, 1.e-14, 1.e-15], 2.0, 1000.))
    for k, blk in enumerate(g.blocklist):
        if k % 2 == 1: blk.rocktype = g.rocktype['rock2']
    if shape.get('rocks') == 'sym':
        for k, rt in enumerate(g.rocktypelist):
            rt.porosity, rt.conductivity, rt.dry_conductivity = b.freal('por%d' % k), b.freal('cond%d' % k), b.freal('dry%d' % k)
            rt.density, rt.specific_heat = b.freal('dens%d' % k), b.freal('sph%d' % k)
    A = shape.get('atmos_volume', 1.e25)
    natm = geo.num_atmosphere_blocks
    if shape.get('volumes') == 'sym':
        for k, name in enumerate(geo.block_name_list):
            v = b.freal('vol%d' % k)
            if k < natm: b.assume_any([v <= 0, v >= A])     # atmosphere blocks: zero or huge, whichever the solver likes
            g.block[name].volume = v
    if shape.get('directions') == 'sym':
        for k, con in enumerate(g.connectionlist): con.direction = b.fint('dir%d' % k, 1, 3)
    dat.parameter['default_incons'] = [101325., b.freal('temp0') if shape.get('temperature') == 'sym' else 20., 0.]
    for k, gs in enumerate(shape.get('generators', [])):
        blk = gs.get('block', 0)
        if blk == 'sym': block = b.cells('gb%d' % k, 5, BLOCK_ALPHABET)
        elif isinstance(blk, int): block = geo.block_name_list[blk]
        else: block = blk
        vals = {}
        for f in ('gx', 'ex', 'hg', 'fg'):
            v = gs.get(f, 'sym')
            vals[f] = b.freal('%s%d' % (f, k)) if v == 'sym' else v
        gen = T.t2generator(name=gs.get('name', ' ge%2d' % (k + 1)), block=block, type=gs['type'], ltab=gs.get('ltab', 1),
                            itab=gs.get('itab', ''), **vals)
        nt = gs.get('table', 0)
        if nt:
            gen.ltab = nt
            gen.time = [float(i) * 1.e6 for i in range(nt)]
            gen.rate = [b.freal('rate%d_%d' % (k, i)) for i in range(nt)]
            if gs.get('itab'): gen.enthalpy = [b.freal('enth%d_%d' % (k, i)) for i in range(nt)]
        dat.add_generator(gen)
    e = shape.get('eos', dict(mode='arg', value='EW'))
    dat._c20_eos_arg = None
    if e['mode'] == 'arg':
        v = e['value']
        dat._c20_eos_arg = b.cells('eosarg', v[1], EOS_ALPHABET) if isinstance(v, list) else v
    elif e['mode'] == 'multi':
        cells = b.cells('eos', 4, EOS_ALPHABET)
        dat.multi = dict(num_components=1, num_equations=2, num_phases=2, num_secondary_parameters=6, eos=cells)
        dat.simulator = e.get('name', 'AUTOUGH2.2').ljust(10) + cells
    elif e['mode'] == 'simulator':
        cells = b.cells('eos', e.get('cells', 4), EOS_ALPHABET)
        dat.simulator = e.get('name', 'AUTOUGH2.2').ljust(10) + cells
        mv = e.get('multi', 'absent')
        if mv == 'noeos': dat.multi = dict(num_components=1, num_equations=2, num_phases=2, num_secondary_parameters=6, num_inc=None)
        elif mv == 'blank': dat.multi = dict(num_components=1, num_equations=2, num_phases=2, num_secondary_parameters=6, eos='')
        elif mv == 'none': dat.multi = dict(num_components=1, num_equations=2, num_phases=2, num_secondary_parameters=6, eos=None)
        elif mv == 'spaces': dat.multi = dict(num_components=1, num_equations=2, num_phases=2, num_secondary_parameters=6, eos='    ')
    dat.diffusion = [[-1.e-6, -1.e-6], [-1.e-6, -1.e-6]]      # (EWTD needs a constant diffusivity)
    return dat, geo


def run_export(T, dat, geo, shape):
    """the calls under test; -> {part: ('ok', value) | ('raised', exception)}"""
    import contextlib, io
    A = shape.get('atmos_volume', 1.e25)
    coords = shape.get('mesh_coords', 'xyz')
    out = {}
    def call(part, f):
        try:
            with contextlib.redirect_stdout(io.StringIO()):
                out[part] = ('ok', f())
        except Exception as ex:
            out[part] = ('raised', ex)
    for part in shape['parts']:
        if part == 'rocks': call(part, lambda: dat.rocks_json(geo, A, coords))
        elif part == 'boundaries': call(part, lambda: dat.boundaries_json(geo, list(dat.parameter['default_incons']), A, 'we', coords))
        elif part == 'mesh': call(part, lambda: dat.mesh_json(geo, 'mesh.exo'))
        elif part == 'eos': call(part, lambda: dat.eos_json(dat._c20_eos_arg))
        elif part == 'generators': call(part, lambda: dat.generators_json(geo, shape.get('eosname', 'we'), shape.get('tracer')))
        elif part == 'json': call(part, lambda: dat.json(geo, 'mesh.exo', atmos_volume=A, eos=dat._c20_eos_arg, mesh_coords=coords))
    return out


def exc_text(ex):
    a = ex.args[0] if getattr(ex, 'args', None) else ''
    return a if isinstance(a, str) else repr(a)


def refusal(ex):
    """an explicit 'this input is not supported' exception of the export (a loud, documented refusal)"""
    t = exc_text(ex).lower()
    return type(ex) is Exception and ('not supported' in t or 'not detected' in t or 'unhandled' in t)


def _strip(ops, s):
    return s.strip() if ops.is_text(s) else s


ANY = 'any outcome'

def expected_eos(ops, ref, arg):
    """-> list of (condition, waiwera name | None for 'refused' | ANY): which AUTOUGH2 EOS name the
    model designates (explicit argument, else MULTI, else the trailing part of the simulator
    string).  The argument and the MULTI entry are names: anything but a supported name is
    refused.  For the simulator string the documentation only promises recognition, so a
    tail that is no supported name leaves the outcome open."""
    strict = True
    if arg is not None:
        if isinstance(arg, int) and not isinstance(arg, bool):
            nm = EOS_FROM_INDEX.get(arg)
            return [(True, SUPPORTED_EOS[nm] if nm else None)]
        src = arg
    else:
        src = None
        if ref.multi and 'eos' in ref.multi and ref.multi['eos'] is not None:
            s = _strip(ops, ref.multi['eos'])
            if ops.truth(ops.not_(s == '')): src = s
        if src is None and ref.simulator:
            src = _strip(ops, ref.simulator[10:]); strict = False
        if src is None: return [(True, None)]
    cases, none = [], []
    for k, v in SUPPORTED_EOS.items():
        c = (src == k)
        cases.append((c, v)); none.append(ops.not_(c))
    cases.append((ops.and_(*none), None if strict else ANY))
    return cases


def check_export(ops, MG, T, G, np_, ref, refgeo, dat, geo, shape, res, st):
    """ref / refgeo: pristine twin; res: run_export's result on dat"""
    A = shape.get('atmos_volume', 1.e25)
    natm = refgeo.num_atmosphere_blocks
    names = list(refgeo.block_name_list)
    index = dict((n, k - natm) for k, n in enumerate(names))
    g = ref.grid
    def interior(blk): return ops.and_(blk.volume > 0, blk.volume < A)
    def partition(tag, types):
        for n in names:
            blk = g.block[n]
            cnt = [sum(1 for c in t['cells'] if c == index[n]) for t in types]
            own = [rt.name for rt in g.rocktypelist].index(blk.rocktype.name)
            inn = interior(blk)
            st.ob(ops.or_(ops.not_(inn), sum(cnt) == 1 and cnt[own] == 1),
                  '%s/partition: non-boundary block %r (cell %d) is in exactly one cell list, that of its rock type (counts %r)' % (tag, n, index[n], cnt))
            st.ob(ops.or_(inn, sum(cnt) == 0), '%s/partition: boundary block %r is in no cell list (counts %r)' % (tag, n, cnt))
    for part, (status, val) in res.items():
        tag = 'export/' + part
        if status == 'raised' and not refusal(val):
            st.ob(False, '%s/exception/%s: %s_json raised %s: %s' % (tag, type(val).__name__, part, type(val).__name__, exc_text(val)))
            continue
        if part == 'rocks':
            if status == 'raised': st.ob(False, '%s/refused: %s' % (tag, exc_text(val))); continue
            types = val['rock']['types']
            st.ob([t['name'] for t in types] == [rt.name for rt in g.rocktypelist], '%s/types: one entry per rock type, in order' % tag)
            for ti, (t, rt) in enumerate(zip(types, g.rocktypelist)):
                for f, key in (('density', 'density'), ('porosity', 'porosity'), ('conductivity', 'wet_conductivity'), ('specific_heat', 'specific_heat')):
                    st.ob(t[key] == getattr(rt, f), '%s/properties: rock %d %s is the rock type\'s' % (tag, ti, key))
                dry = rt.dry_conductivity
                st.ob(t['dry_conductivity'] == ops.ite(dry > 0, dry, rt.conductivity), '%s/properties: rock %d dry conductivity (wet one when not given)' % (tag, ti))
            partition(tag, types)
            st.ob(all(isinstance(c, int) and any(c == index[n] for n in names) for t in types for c in t['cells']), '%s/partition: every listed cell is a block index' % tag)
        elif part == 'boundaries':
            if status == 'raised': st.ob(False, '%s/refused: %s' % (tag, exc_text(val))); continue
            got = []
            for bc in val['boundaries']:
                faces = bc['faces'] if isinstance(bc['faces'], list) else [bc['faces']]
                for f in faces: got += list(f['cells'])
            # expected faces: one per connection between a boundary block and a non-boundary one
            for con in g.connectionlist:
                b0, b1 = con.block
                i0, i1 = interior(b0), interior(b1)
                for bb, ii, cnd in ((b0, b1, ops.and_(ops.not_(i0), i1)), (b1, b0, ops.and_(ops.not_(i1), i0))):
                    k = index[ii.name]
                    st.ob(ops.or_(ops.not_(cnd), any(c == k for c in got)),
                          '%s/faces: the face between boundary block %r and cell %d (%r) is listed' % (tag, bb.name, k, ii.name))
            nexp = 0
            for con in g.connectionlist:
                i0, i1 = interior(con.block[0]), interior(con.block[1])
                nexp = nexp + ops.ite(ops.or_(ops.and_(i0, ops.not_(i1)), ops.and_(i1, ops.not_(i0))), 1, 0)
            st.ob(nexp == len(got), '%s/faces: as many faces as boundary / non-boundary connections (%d listed)' % (tag, len(got)))
        elif part == 'mesh':
            if status == 'raised': st.ob(False, '%s/refused: %s' % (tag, exc_text(val))); continue
            st.ob(val['mesh']['filename'] == 'mesh.exo', '%s/filename' % tag)
            faces = val['mesh'].get('faces', [])
            listed = dict((tuple(f['cells']), f['permeability_direction']) for f in faces)
            st.ob(len(listed) == len(faces), '%s/faces: no face listed twice' % tag)
            nlisted = 0
            for con in g.connectionlist:
                n0, n1 = con.block[0].name, con.block[1].name
                k0, k1 = index[n0], index[n1]
                lay0, lay1 = refgeo.layer_name(n0), refgeo.layer_name(n1)
                if lay0 != lay1: natural = 3
                else:
                    c0, c1 = refgeo.column[refgeo.column_name(n0)].centre, refgeo.column[refgeo.column_name(n1)].centre
                    natural = 1 if abs(c1[0] - c0[0]) >= abs(c1[1] - c0[1]) else 2
                d = None
                for key in ((k0, k1), (k1, k0)):
                    if key in listed: d = listed[key]
                if k0 < 0 or k1 < 0:
                    st.ob(d is None, '%s/faces: connection %r-%r to the atmosphere is not listed' % (tag, n0, n1)); continue
                override = ops.not_(con.direction == natural)
                st.ob(ops.or_(ops.not_(override), (d is not None) and (d == con.direction)),
                      '%s/faces: connection %r-%r with an overridden permeability direction is listed with it' % (tag, n0, n1))
                st.ob(ops.or_(override, d is None), '%s/faces: connection %r-%r with the natural direction %d is not listed' % (tag, n0, n1, natural))
        elif part == 'eos':
            cases = expected_eos(ops, ref, ref._c20_eos_arg)
            if status == 'raised':
                st.ob(ops.or_(*[c for c, v in cases if v is None or v is ANY]),
                      '%s/refused-a-supported-name: eos_json raised %r although the model designates a supported EOS' % (tag, exc_text(val)))
            else:
                name = val[0]['eos']['name']
                st.ob(ops.or_(*[c for c, v in cases if v == name or v is ANY]), '%s/name: the EOS %r is the one the model designates' % (tag, name))
                if name == 'w':
                    st.ob(val[0]['eos'].get('temperature') == ref.parameter['default_incons'][1], '%s/temperature: isothermal temperature from the default initial conditions' % tag)
        elif part == 'generators':
            if status == 'raised':                   # explicit refusal of a generator configuration: must be one the export documents
                st.ob(justified_refusal(ops, ref.generatorlist), '%s/refused-without-cause: generators_json refused (%s) a list of supported generators' % (tag, exc_text(val)))
                continue
            check_sources(ops, st, tag, ref, val, names, index)
        elif part == 'json':
            if status == 'raised': continue
            st.ob(val['title'] == 'export model', '%s/title' % tag)
            check_sources(ops, st, tag, ref, val, names, index)
            cases = expected_eos(ops, ref, ref._c20_eos_arg)
            st.ob(ops.or_(*[c for c, v in cases if v == val['eos']['name'] or v is ANY]), '%s/eos: the EOS %r is the one the model designates' % (tag, val['eos']['name']))
            if shape.get('volumes') == 'sym':
                # the whole export uses ONE boundary threshold (the atmos_volume it was given) for rocks and boundaries
                partition(tag, val['rock']['types'])
            else:
                cells = sorted(c for t in val['rock']['types'] for c in t['cells'])
                st.ob(cells == sorted(index[n] for n in names if index[n] >= 0), '%s/partition: every underground block in exactly one rock cell list' % tag)


UNSUPPORTED_GEN = ['CO2 ', 'FEED', 'HLOS', 'MAKE', 'POWR', 'TOST', 'VOL.', 'WBRE', 'WFLO', 'XIN2']

def justified_refusal(ops, gens):
    why = []
    for gn in gens:
        why += [gn.type == x for x in UNSUPPORTED_GEN]
        if gn.type == 'TMAK': why.append(True if gn.hg is None else gn.hg >= 0)       # unscaled total make-up
        if gn.type == 'DELV': why.append(False if gn.ltab is None else gn.ltab > 1)   # multi-layer well on deliverability
    return ops.or_(*why) if why else False


def check_sources(ops, st, tag, ref, val, names, index):
    gens = ref.generatorlist
    sources = val.get('source', [])
    plain = [gn for gn in gens if gn.type != 'TMAK']
    st.ob(len(sources) == len(plain), '%s/one-source-per-generator: %d sources for %d non-group generators' % (tag, len(sources), len(plain)))
    groups = val.get('network', {}).get('group', [])
    ntmak = len(gens) - len(plain)
    st.ob(sum(1 for gr in groups if 'scaling' in gr) == ntmak, '%s/groups: one make-up group per TMAK generator' % tag)
    if len(sources) != len(plain): return
    for k, (s, gn) in enumerate(zip(sources, plain)):
        cell = s.get('cell', 'missing')
        alts = []
        for n in names:
            exp = index[n] if index[n] >= 0 else None
            alts.append(ops.and_(gn.block == n, cell == exp if exp is not None else cell is None))
        alts.append(ops.and_(ops.and_(*[ops.not_(gn.block == n) for n in names]), cell is None))
        st.ob(ops.or_(*alts), '%s/cell-index: source %d has the cell index of its block (got %r)' % (tag, k, cell))
    nm = [s['name'] for s in sources]
    for i in range(len(nm)):
        for j in range(i + 1, len(nm)):
            if ops.is_text(nm[i]) and ops.is_text(nm[j]) and len(nm[i]) and len(nm[j]):
                st.ob(ops.not_(nm[i] == nm[j]), '%s/unique-names: sources %d and %d have different names' % (tag, i, j))
