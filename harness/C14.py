"""C14 - IAPWS-97 consistency (partial claim, DESIGN.md section 4 / C14).

The REAL functions of /repo/IAPWS97.py (reloaded by vx.loader, coefficient
tables lifted to exact rationals) are executed on symbolic inputs; every
obligation is built from the terms that execution produced (return values and
locals captured from the real frames with sys.settrace) - no formula of the
module is copied here.  Decided clauses:

 1. tsat(sat(t)) = t on [0.01, tcritical]: (a) tsat's own range test accepts
    sat(t); (b) the value is t - a proof script of small solver steps (the
    monolithic query is beyond nlsat) plus a time-capped bug-hunting query.
 2. b23t(b23p(t)) = t within 1e-6 K on [350, 590] and b23p(b23t(p)) = p within
    1e-3 Pa on [b23p(350), 100 MPa].
 3. cowat / supst / super: the two captured derivative sums are the partial
    derivatives of ONE potential (mixed partials agree, as a polynomial
    identity in the power_array base values and their reciprocals) and the
    returned pair is tied to the sums by the IAPWS-97 defining relations.
 4. region(t, p) names a region whose validity domain (closure) contains the
    state and returns None exactly outside [0.01, 800] x [0, 100 MPa].
 5. visc(d, t) > 0.
"""
import time
from fractions import Fraction
import z3
from vx import sym, loader, report
from vx.sym import SReal, SBool
from harness.thermo_common import (lift, capture, first, last, allv, MissingLocal, sqrt_constraints,
                                   symbols, subst_seq, solve, Script, deriv, fr)

PID = 'C14'
SRC = 'IAPWS97.py'
TABLES = ['nr1', 'n0r2', 'nr2', 'nr3', 'nr4', 'nr23', 'h0v', 'h1v']

# published constants of the IAPWS-IF97 release (trusted base of clause 3)
R_GAS = 0.461526e3
T0_K = 273.15
PUBLISHED = {1: dict(pstar=16.53e6, tstar=1386.0), 2: dict(pstar=1.0e6, tstar=540.0),
             3: dict(dstar=322.0, tstar=647.096)}
TOL_T = Fraction(1, 10 ** 6)       # K
TOL_P23 = Fraction(1, 10 ** 3)     # Pa

_LD = None
def _load():
    global _LD
    if _LD is None:
        _LD = loader.load(['IAPWS97'])
        lift(_LD.IAPWS97, TABLES)
    return _LD


def _mv(m, e):
    return sym.model_value(m, e)


def _reach_witness(c, names):
    r, m = c.reachable()
    if r != 'sat': return r, None
    return r, {k: _mv(m, v) for k, v in names.items()}


# ---------------------------------------------------------------------------
# clause 1: sat / tsat

def task_sat_tsat(hunt_ms=8000, second=False):
    I = _load().IAPWS97
    failures, samples, distinct = [], [], set()
    info = dict(steps=[], hunt=None, chain_complete=False)
    TLO, THI = 0.01, float(I.tcritical)

    def h(c):
        T = c.real('T', TLO, THI)
        K1 = [T.e >= fr(TLO), T.e <= fr(THI)]
        try:
            p_ret, log1, sq1 = capture(SRC, I.sat, T, only=('sat',))
        except (ValueError, ZeroDivisionError, OverflowError) as ex:
            r, w = _reach_witness(c, dict(t=T.e))
            if r == 'sat':
                failures.append(dict(key='sat_tsat/sat-raises-%s' % type(ex).__name__,
                                     what='sat(t) raises inside [0.01, tcritical]', replay=dict(kind='sat_tsat', t=w['t'])))
                return 'sat raises'
            if r != 'unsat': c.unknowns.append(dict(label='feasibility of a raising path of sat', info=None))
            return 'sat raises (infeasible/unknown)'
        if p_ret is None:
            r, w = _reach_witness(c, dict(t=T.e))
            if r == 'sat':
                failures.append(dict(key='sat_tsat/sat-returns-None-inside-range',
                                     what='sat(t) is None inside [0.01, tcritical]', replay=dict(kind='sat_tsat', t=w['t'])))
            elif r != 'unsat': c.unknowns.append(dict(label='feasibility of sat -> None', info=None))
            return 'sat none'
        P = c.real('P', 1.0, 1.0e9)
        n0 = len(c.pc)
        try:
            t_ret, log2, sq2 = capture(SRC, I.tsat, P, only=('tsat',))
        except (ValueError, ZeroDivisionError, OverflowError) as ex:
            r, w = _reach_witness(c, dict(p=P.e))
            if r == 'sat':
                failures.append(dict(key='sat_tsat/tsat-raises-%s' % type(ex).__name__,
                                     what='tsat(p) raises inside its own operating range', replay=dict(kind='tsat_raises', p=w['p'])))
                return 'tsat raises'
            if r != 'unsat': c.unknowns.append(dict(label='feasibility of a raising path of tsat', info=None))
            return 'tsat raises (infeasible/unknown)'
        if t_ret is None:
            return 'tsat out of range (None)'
        guard = [k for k in c.pc[n0:] if c.vars_of(k) <= {'P'}]
        sc = Script(c, distinct, timeout_ms=30000, second=second)
        try:
            l1, l2 = log1['sat'][0], log2['tsat'][0]
            theta = first(l1, 'theta').e; a = first(l1, 'a').e; b = first(l1, 'b').e; cq = first(l1, 'c').e
            beta_T = allv(l1, 'x')[0].e
            b2 = first(l2, 'beta2').e; b1 = first(l2, 'beta').e
            e = first(l2, 'e').e; f = first(l2, 'f').e; g = first(l2, 'g').e
            d = first(l2, 'd').e
        except (MissingLocal, AttributeError, IndexError, KeyError) as ex:
            c.unknowns.append(dict(label='lemma chain cannot be built (captured local missing: %s)' % ex, info=None))
            return 'chain not built'
        pT = p_ret.e
        comp = lambda t: z3.substitute(t, (P.e, pT))
        Ks = sqrt_constraints(sq1)
        K2 = [comp(k) for k in sqrt_constraints(sq2)]
        if len(Ks) != 2 or len(K2) != 8:
            c.unknowns.append(dict(label='lemma chain cannot be built (%d+%d root definitions, expected 2+8)' % (len(Ks), len(K2)), info=None))
            return 'chain not built'
        tcomp = comp(t_ret.e)
        guardc = [comp(k) for k in guard]
        Th, BT, E, F, G, Dv = z3.Reals('Theta Beta E F G Dv')
        thlo = sym.numeral_value(z3.substitute(theta, (T.e, fr(TLO))))
        thhi = sym.numeral_value(z3.substitute(theta, (T.e, fr(THI))))
        if thlo is None or thhi is None:
            c.unknowns.append(dict(label='lemma chain cannot be built (theta at the end points)', info=None))
            return 'chain not built'
        gTh = [(theta, Th)]
        chain = []
        def S(label, hyps, goal, gens=()):
            chain.append(label)
            return sc.step(label, hyps, goal, gens)
        F0 = z3.And(theta >= z3.RealVal(thlo), theta <= z3.RealVal(thhi))
        S('L0 theta(t) stays between its end-point values', K1, F0)
        F1 = beta_T > 0
        S('L1 sat: root x(t) > 0', [F0] + Ks, F1, [gTh])
        F2 = a * beta_T * beta_T + b * beta_T + cq == 0
        S('L2 sat: a x^2 + b x + c = 0', [F0] + Ks, F2, [gTh])
        F3 = z3.And(b1 == beta_T, b2 == beta_T * beta_T)
        S('L3 tsat at p = sat(t): beta = x(t), beta2 = x(t)^2', [F1] + K2[:4], F3, [[(beta_T, BT)]])
        F4 = e * theta * theta + f * theta + g == 0
        S('L4 regrouping: a x^2+b x+c = e theta^2+f theta+g (both frames)', [F2, F3], F4, [[(beta_T, BT)], gTh])
        F5 = 2 * e * theta + f >= 0
        S('L5 branch: 2 e theta + f >= 0 along the curve', [F0, F3] + Ks, F5, [gTh])
        F6 = e * theta + f != 0
        S('L6 denominator: e theta + f != 0 along the curve', [F0, F3] + Ks, F6, [gTh])
        F7 = d == theta
        S('L7 tsat selects the root d = theta(t)', [F4, F5, F6] + K2[4:6], F7, [[(e, E), (f, F), (g, G)], gTh])
        F8 = tcomp == T.e
        S('L8 tsat selects the root t', K1 + [F7] + K2[6:8], F8, [[(d, Dv)]])
        complete = sc.all_proved(chain)
        info['chain_complete'] = complete
        # (a) range: tsat's own guard accepts sat(t)
        for gk, gkc in zip(guard, guardc):
            lab = 'range: tsat accepts p = sat(t): %s' % z3.simplify(gk)
            r = sc.step(lab, [F0] + Ks, gkc, [gTh])
            if r == 'sat':
                w = None
                for T0 in (THI, TLO):
                    rr, dt, m, _ = solve(K1 + Ks + [T.e == fr(T0), z3.Not(gkc)], 20000)
                    if rr == 'sat': w = _mv(m, T.e); break
                if w is None:
                    thv = sc.refuted[-1][1].eval(Th, model_completion=True)
                    rr, dt, m, _ = solve(K1 + [theta == thv], 20000)
                    if rr == 'sat': w = _mv(m, T.e)
                if w is None:
                    c.unknowns.append(dict(label=lab + ' refuted, no concrete t found', info=None))
                else:
                    failures.append(dict(key='sat_tsat/tsat-rejects-sat(t)/%s' % str(z3.simplify(gk)).replace(' ', ''),
                                         what='tsat(sat(t)) is None: sat(t) violates tsat\'s range test %s for t = %s' % (z3.simplify(gk), float(w)),
                                         replay=dict(kind='sat_tsat', t=w)))
            elif r != 'unsat':
                c.unknowns.append(dict(label=lab, info=None))
        # (b) bug-hunting prong, monolithic, time capped
        tol = z3.RealVal(TOL_T)
        bad = z3.Or(tcomp - T.e > tol, T.e - tcomp > tol)
        hyp_all = K1 + Ks + K2 + guardc
        r, dt, m, _ = solve(hyp_all + [bad], hunt_ms)
        c.stats['queries'] += 1; c.stats['solver_s'] += dt
        info['hunt'] = dict(verdict=r, seconds=round(dt, 2), cap_ms=hunt_ms)
        witness = _mv(m, T.e) if r == 'sat' else None
        if witness is None and not complete:
            cands = []
            for lab, mm, gens in sc.refuted:
                v = mm.eval(T.e, model_completion=False)
                if z3.is_rational_value(v): cands.append(_mv(mm, T.e))
                tv = mm.eval(Th, model_completion=False)
                if z3.is_rational_value(tv) or z3.is_algebraic_value(tv):
                    rr, dt, m2, _ = solve(K1 + [theta == tv], 10000)
                    if rr == 'sat': cands.append(_mv(m2, T.e))
            lo, hi = Fraction(TLO), Fraction(THI)
            cands += [lo + (hi - lo) * Fraction(k, 8) for k in (4, 2, 6, 1, 7, 0, 8)]
            for T0 in cands:
                rr, dt, m2, _ = solve(hyp_all + [T.e == z3.RealVal(T0), bad], 15000)
                c.stats['queries'] += 1; c.stats['solver_s'] += dt
                if rr == 'sat': witness = T0; break
        if witness is not None:
            failures.append(dict(key='sat_tsat/tsat(sat(t))!=t',
                                 what='tsat(sat(t)) differs from t by more than 1e-6 K at t = %s' % float(witness),
                                 replay=dict(kind='sat_tsat', t=witness)))
        elif not complete:
            bad_steps = [s['step'] + ':' + s['verdict'] for s in sc.steps if s['step'] in chain and s['verdict'] != 'unsat']
            c.unknowns.append(dict(label='lemma chain incomplete (%s) and no concrete counterexample found' % '; '.join(bad_steps), info=None))
        for lab, r2 in sc.second_disagree:
            c.unknowns.append(dict(label='second solver disagrees on %s: %s' % (lab, r2), info=None))
        info['steps'] = sc.steps
        if not samples:
            samples.append(dict(clause='sat/tsat', lemma_chain=[(s['step'], s['verdict'], s['seconds']) for s in sc.steps],
                                bug_hunting_query=info['hunt'],
                                note='unknown of the bug-hunting query is not inconclusive when every lemma is unsat'))
        return 'chain complete' if complete else 'chain incomplete'

    res = sym.explore(h, sym.Ctx(timeout_ms=20000), max_paths=50)
    if not any(str(p.outcome).startswith('chain') for p in res['paths']) and not failures:
        res['ctx'].unknowns = []
        res['paths'][0].unknowns.append(dict(label='no path reached the lemma chain (vacuous)', info=None))
    return report.summarize('sat_tsat', res, failures, samples,
                            extra=dict(distinct_obligations=len(distinct), steps=info['steps'], hunt=info['hunt'],
                                       chain_complete=info['chain_complete']))


# ---------------------------------------------------------------------------
# clause 2: b23p / b23t

def task_b23(direction):
    I = _load().IAPWS97
    failures, samples, distinct = [], [], set()

    def h(c):
        if direction == 't':
            x = c.real('t', 350.0, 590.0)
            f1, f2, tol, nm = I.b23p, I.b23t, TOL_T, 'b23t(b23p(t))'
        else:
            # lower end: the real b23p at 350 degC (exact)
            tt = z3.Real('t350')
            plo = sym.numeral_value(z3.substitute(I.b23p(SReal(tt)).e, (tt, z3.RealVal(350))))
            x = c.real('p', plo, 100.0e6)
            f1, f2, tol, nm = I.b23t, I.b23p, TOL_P23, 'b23p(b23t(p))'
        try:
            y = f2(f1(x))
        except (ValueError, ZeroDivisionError) as ex:
            r, w = _reach_witness(c, dict(x=x.e))
            if r == 'sat':
                failures.append(dict(key='b23/%s-raises-%s' % (nm, type(ex).__name__), what='%s raises' % nm,
                                     replay=dict(kind='b23', direction=direction, x=w['x'])))
                return 'raises'
            if r != 'unsat': c.unknowns.append(dict(label='feasibility of raising path', info=None))
            return 'raises (infeasible/unknown)'
        ob = z3.And(y.e - x.e <= z3.RealVal(tol), x.e - y.e <= z3.RealVal(tol))
        distinct.add((nm, z3.simplify(ob).hash()))
        r = c.prove(ob, '|%s - x| <= %s' % (nm, float(tol)))
        if r == 'sat':
            w = _mv(c.failures[-1]['model'], x.e)
            failures.append(dict(key='b23/%s-not-inverse' % nm, what='%s differs from its argument by more than %g at %s' % (nm, float(tol), float(w)),
                                 replay=dict(kind='b23', direction=direction, x=w)))
        if not samples:
            samples.append(dict(clause='b23', obligation='|%s - x| <= %g for x in [%s, %s]' % (nm, float(tol), c.pc[0], c.pc[1]), verdict=r))
        return 'checked'

    res = sym.explore(h, sym.Ctx(timeout_ms=60000), max_paths=20)
    return report.summarize('b23/' + direction, res, failures, samples, extra=dict(distinct_obligations=len(distinct)))


# ---------------------------------------------------------------------------
# clause 3: single potential

REGIONS = {
    1: dict(fn='cowat', args=(('t', 0.01, 350.0), ('p', 1.0, 100.0e6)), v1='pi', v2='tau',
            s1=('gampi',), s2=('gamt',)),
    2: dict(fn='supst', args=(('t', 0.01, 800.0), ('p', 1.0, 100.0e6)), v1='pi', v2='tau',
            s1=('gampi',), s2=('gamt0', 'gamtr')),
    3: dict(fn='super', args=(('d', 1.0, 1100.0), ('t', 350.0, 800.0)), v1='delta', v2='tau',
            s1=('phidelta',), s2=('phitau',)),
}
# states used only to turn a refuted polynomial identity into a replayable state
CANDIDATES = {1: [(100, 10e6)], 2: [(300, 1e6)], 3: [(500, 400)]}
GRID = {1: ([5, 50, 100, 150, 200, 250, 300, 345], [1e5, 1e6, 5e6, 20e6, 50e6, 99e6]),
        2: ([5, 50, 100, 200, 300, 349, 400, 500, 600, 700, 795], [1e3, 1e5, 1e6, 5e6, 15e6, 30e6, 60e6, 99e6]),
        3: ([100, 200, 322, 400, 500, 600, 700], [351, 375, 400, 450, 500, 600, 795])}


def _candidates(I, region):
    """(inside the region proper?, state) - decided with the real region()."""
    g1, g2 = GRID[region]
    out = []
    for x1 in g1:
        for x2 in g2:
            if region == 3:
                phys = True
            else:
                try: phys = (I.region(float(x1), float(x2)) == region)
                except Exception: phys = False
            out.append((phys, (Fraction(x1), Fraction(x2))))
    return out


def task_potential(region):
    I = _load().IAPWS97
    cfg = REGIONS[region]
    failures, samples, distinct = [], [], set()

    def h(c):
        (n1, lo1, hi1), (n2, lo2, hi2) = cfg['args']
        a1 = c.real(n1, lo1, hi1); a2 = c.real(n2, lo2, hi2)
        fn = getattr(I, cfg['fn'])
        try:
            ret, log, sq = capture(SRC, fn, a1, a2, only=(cfg['fn'], 'power_array'))
        except ZeroDivisionError:
            return 'ZeroDivisionError path (feasibility of a zero denominator not decided: outside the claim)'
        if ret is None:
            return 'returns None'
        sc = Script(c, distinct, timeout_ms=30000)
        try:
            lg = log[cfg['fn']][0]
            v1 = last(lg, cfg['v1']).e; v2 = last(lg, cfg['v2']).e
            S1 = z3.Sum([last(lg, k).e for k in cfg['s1']]) if len(cfg['s1']) > 1 else last(lg, cfg['s1'][0]).e
            S2 = z3.Sum([last(lg, k).e for k in cfg['s2']]) if len(cfg['s2']) > 1 else last(lg, cfg['s2'][0]).e
            bases = [sym.lift_real(first(pl, 'value')) for pl in log['power_array']]
        except (MissingLocal, KeyError, IndexError, AttributeError) as ex:
            c.unknowns.append(dict(label='region %d: obligations cannot be built (captured local missing: %s)' % (region, ex), info=None))
            return 'not built'
        V1, V2 = z3.Real('V1'), z3.Real('V2')
        bv = [z3.Real('b%d' % k) for k in range(len(bases))]
        bi = [z3.Real('bi%d' % k) for k in range(len(bases))]
        pairs = []
        for k, B in enumerate(bases):
            pairs += [(1 / B, bi[k]), (B, bv[k])]
        pairs += [(v1, V1), (v2, V2)]
        A1 = subst_seq(S1, pairs); A2 = subst_seq(S2, pairs)
        allowed = set(str(x) for x in bv + bi + [V1, V2])
        extra = (symbols(A1) | symbols(A2)) - allowed
        if extra:
            c.unknowns.append(dict(label='region %d: derivative sums depend on %s outside the power_array values' % (region, sorted(extra)), info=None))
            return 'not built'
        # base values as functions of the two potential variables
        dB1, dB2 = [], []
        for k, B in enumerate(bases):
            Bk = subst_seq(B, [(v1, V1), (v2, V2)])
            if symbols(Bk) - {'V1', 'V2'}:
                c.unknowns.append(dict(label='region %d: power_array base %d is not a function of (%s, %s)' % (region, k, cfg['v1'], cfg['v2']), info=None))
                return 'not built'
            dB1.append(deriv(Bk, [(V1, z3.RealVal(1)), (V2, z3.RealVal(0))], {}))
            dB2.append(deriv(Bk, [(V1, z3.RealVal(0)), (V2, z3.RealVal(1))], {}))
        def table(dB, dV1, dV2):
            t = [(V1, z3.RealVal(dV1)), (V2, z3.RealVal(dV2))]
            for k in range(len(bases)):
                t += [(bv[k], dB[k]), (bi[k], -bi[k] * bi[k] * dB[k])]
            return t
        d2_S1 = deriv(A1, table(dB2, 0, 1), {})      # d/d(v2) of the v1-derivative sum
        d1_S2 = deriv(A2, table(dB1, 1, 0), {})      # d/d(v1) of the v2-derivative sum
        ident = d2_S1 == d1_S2
        rel = []
        for k, B in enumerate(bases):
            rel += [bv[k] * bi[k] == 1, bv[k] == subst_seq(B, [(v1, V1), (v2, V2)])]
        lab = 'region %d: d/d%s(%s) == d/d%s(%s)' % (region, cfg['v2'], '+'.join(cfg['s1']), cfg['v1'], '+'.join(cfg['s2']))
        r = sc.step(lab, [], ident, vacuity=False)
        if r != 'unsat':
            r = sc.step(lab + ' (with b*bi = 1, b = B(v1,v2))', rel, ident, timeout_ms=20000, vacuity=False)
        ident_verdict = r
        # ties to the returned pair (published constants; sums generalised)
        tk = (a1.e if n1 == 't' else a2.e) + fr(T0_K)
        R = fr(R_GAS)
        G1, G2, P1, P2 = z3.Reals('S1 S2 P1 P2')
        pub = PUBLISHED[region]
        ties = []
        if region in (1, 2):
            tvar, pvar = a1.e, a2.e
            ties.append(('%s == p / p*' % cfg['v1'], v1 == pvar / fr(pub['pstar']), []))
            ties.append(('%s == T* / T' % cfg['v2'], v2 == fr(pub['tstar']) / tk, []))
            gen = [(S1, G1), (S2, G2)] if len(cfg['s2']) == 1 and len(cfg['s1']) == 1 else None
            rho = fr(pub['pstar']) / (R * tk * S1)
            uu = R * tk * (v2 * S2 - v1 * S1)
            ties.append(('d == p* / (R T gamma_pi)', ret[0].e == rho, 'sums'))
            ties.append(('u == R T (tau gamma_tau - pi gamma_pi)', ret[1].e == uu, 'sums'))
        else:
            dvar = a1.e
            ties.append(('delta == d / rho*', v1 == dvar / fr(pub['dstar']), []))
            ties.append(('tau == T* / T', v2 == fr(pub['tstar']) / tk, []))
            ties.append(('p == d R T delta phi_delta', ret[0].e == dvar * R * tk * v1 * S1, 'sums'))
            ties.append(('u == R T tau phi_tau', ret[1].e == R * tk * v2 * S2, 'sums'))
        tie_bad = []
        sumterms = [last(lg, k).e for k in cfg['s1'] + cfg['s2']]
        gsyms = [z3.Real('Sum_%s' % k) for k in cfg['s1'] + cfg['s2']]
        for tl, goal, mode in ties:
            gens = []
            if mode == 'sums':
                # the sums and the potential variables are opaque here
                gens = [list(zip(sumterms, gsyms)), [(v1, P1), (v2, P2)]]
            hy = [k for k in c.pc[:4]]
            rt_ = sc.step('region %d tie: %s' % (region, tl), hy, goal, gens, vacuity=False)
            if rt_ != 'unsat': tie_bad.append((tl, rt_))
        # failures -> a concrete state for the replay
        if ident_verdict == 'sat' or any(v == 'sat' for _, v in tie_bad):
            back = lambda t: z3.substitute(t, *[(bv[k], bases[k]) for k in range(len(bases))] + [(bi[k], 1 / bases[k]) for k in range(len(bases))] + [(V1, v1), (V2, v2)])
            res_t = back(d2_S1 - d1_S2)
            if region in (1, 2):
                d1_S1 = deriv(A1, table(dB1, 1, 0), {})
                ref_t = back(V2 * d1_S2 - A1 - V1 * d1_S1); res_t = v2 * res_t     # du/dp and its defect, in units of R T / p*
            else:
                ref_t = back(d1_S2)
            w = None
            if ident_verdict == 'sat':
                best = None
                for phys, (x1, x2) in _candidates(I, region):
                    sb = [(a1.e, z3.RealVal(x1)), (a2.e, z3.RealVal(x2))]
                    rv_ = sym.numeral_value(z3.substitute(res_t, *sb)); fv_ = sym.numeral_value(z3.substitute(ref_t, *sb))
                    if rv_ is None or fv_ is None or fv_ == 0: continue
                    ratio = abs(rv_ / fv_)
                    if best is None or (phys, ratio >= Fraction(1, 10 ** 4), ratio) > best[0]:
                        best = ((phys and ratio >= Fraction(1, 10 ** 4), ratio >= Fraction(1, 10 ** 4), ratio), (x1, x2), phys)
                if best is not None:
                    (x1, x2) = best[1]
                    q = [a1.e == z3.RealVal(x1), a2.e == z3.RealVal(x2),
                         res_t * res_t > z3.RealVal(Fraction(1, 10 ** 10)) * ref_t * ref_t]
                    rr, dt, m, _ = solve(q, 20000)
                    c.stats['queries'] += 1; c.stats['solver_s'] += dt
                    if rr == 'sat': w = (x1, x2, best[2], float(best[0][2]))
                if w is None:
                    c.unknowns.append(dict(label=lab + ' refuted as a polynomial identity, but no candidate state shows a relative defect > 1e-5', info=None))
                else:
                    failures.append(dict(key='potential/region%d/mixed-partials' % region,
                                         what='%s: the two derivative sums are not partial derivatives of one potential (state %s=%s, %s=%s%s, relative defect %.3g)' % (
                                             cfg['fn'], n1, w[0], n2, w[1], '' if w[2] else ' [outside the region proper, inside the routine\'s accepted range]', w[3]),
                                         replay=dict(kind='potential', region=region, a1=w[0], a2=w[1])))
            for tl, v in tie_bad:
                if v == 'sat':
                    x1, x2 = CANDIDATES[region][0][0], CANDIDATES[region][0][1]
                    failures.append(dict(key='potential/region%d/tie/%s' % (region, tl.replace(' ', '')),
                                         what='%s: returned value is not %s' % (cfg['fn'], tl),
                                         replay=dict(kind='potential', region=region, a1=x1, a2=x2, tie=tl)))
        for tl, v in tie_bad:
            if v != 'sat': c.unknowns.append(dict(label='region %d tie %s: %s' % (region, tl, v), info=None))
        if ident_verdict not in ('unsat', 'sat'):
            c.unknowns.append(dict(label=lab, info=None))
        if not samples:
            samples.append(dict(clause='single potential', function=cfg['fn'], steps=[(s['step'], s['verdict'], s['seconds']) for s in sc.steps],
                                power_array_bases=[str(z3.simplify(B)) for B in bases],
                                terms_in_sums=[len(last(lg, k).e.children()) for k in cfg['s1'] + cfg['s2']]))
        return 'checked'

    res = sym.explore(h, sym.Ctx(timeout_ms=1500), max_paths=20)
    if not any(p.outcome == 'checked' for p in res['paths']):
        res['paths'][0].unknowns.append(dict(label='region %d: no path reached the obligations' % region, info=None))
    return report.summarize('potential/region%d' % region, res, failures, samples, extra=dict(distinct_obligations=len(distinct)))


# ---------------------------------------------------------------------------
# clause 4: region classifier

def task_region():
    I = _load().IAPWS97
    failures, samples, distinct = [], [], set()

    def h(c):
        t = c.real('t', -50.0, 900.0); p = c.real('p', -1.0e6, 2.0e8)
        try:
            r = I.region(t, p)
        except (ValueError, ZeroDivisionError) as ex:
            rr, w = _reach_witness(c, dict(t=t.e, p=p.e))
            if rr == 'sat':
                failures.append(dict(key='region/raises-%s' % type(ex).__name__, what='region(t,p) raises',
                                     replay=dict(kind='region', t=w['t'], p=w['p'])))
                return 'raises'
            if rr != 'unsat': c.unknowns.append(dict(label='feasibility of raising path of region()', info=None))
            return 'raises (infeasible/unknown)'
        te, pe = t.e, p.e
        inbox = z3.And(te >= fr(0.01), te <= 800, pe >= 0, pe <= fr(100.0e6))
        if r is None:
            ok = z3.Not(inbox); lab = 'None only outside [0.01,800]x[0,100MPa]'
        else:
            if sym.is_sym(r):
                raise sym.Unsupported('symbolic region number')
            r = int(r)
            # the saturation curve is only defined (and only needed) for t <= 350
            satp = None
            if bool((t >= 0.01) & (t <= 350.0)):
                satp = I.sat(t)
            b23 = I.b23p(t)
            lo_band = z3.And(te <= 350, pe >= satp.e) if satp is not None else z3.BoolVal(False)
            if r == 1:
                ok = z3.And(inbox, lo_band)
            elif r == 2:
                below_sat = z3.And(te <= 350, pe <= satp.e) if satp is not None else z3.BoolVal(False)
                ok = z3.And(inbox, z3.Or(below_sat, z3.And(te >= 350, te <= 590, pe <= b23.e), te >= 590))
            elif r == 3:
                ok = z3.And(inbox, te >= 350, te <= 590, pe >= b23.e)
            else:
                ok = z3.BoolVal(False)
            lab = 'region %d only inside (the closure of) its validity domain' % r
        if not z3.is_true(z3.simplify(ok)) and not z3.is_false(z3.simplify(ok)):
            distinct.add((lab, z3.simplify(ok).hash()))
        rv = c.prove(ok, lab)
        if rv == 'sat':
            m = c.failures[-1]['model']
            w = dict(t=_mv(m, te), p=_mv(m, pe))
            failures.append(dict(key='region/returns-%s-outside-domain' % r,
                                 what='region(%s, %s) returns %s' % (float(w['t']), float(w['p']), r),
                                 replay=dict(kind='region', t=w['t'], p=w['p'])))
        # the region named must be one whose equation accepts the state: region 1 -> cowat,
        # region 2 -> supst return a state (not None) for every (t, p) classified that way
        if r in (1, 2):
            fn = I.cowat if r == 1 else I.supst
            try:
                out = fn(t, p)
            except ZeroDivisionError:
                out = 'division'           # gamma_pi = 0: not decided here (see outside-the-claim list)
            if out is None:
                rr, w = _reach_witness(c, dict(t=t.e, p=p.e))
                c.prove(z3.BoolVal(rr == 'unsat'), 'region %d equation returns a state where region() names it' % r)
                if rr == 'sat':
                    failures.append(dict(key='region/%s-none-inside-region-%d' % (fn.__name__, r),
                                         what='region(%s, %s) is %d but %s returns None' % (float(w['t']), float(w['p']), r, fn.__name__),
                                         replay=dict(kind='region-eq', t=w['t'], p=w['p'], region=r)))
                elif rr != 'unsat': c.unknowns.append(dict(label='feasibility of %s returning None inside region %d' % (fn.__name__, r), info=None))
                return 'returns %s, equation None' % r
        if len(samples) < 2:
            samples.append(dict(clause='region', returned=r, path_condition=[str(k)[:80] for k in c.pc[4:8]], obligation=lab, verdict=rv))
        return 'returns %s' % r

    res = sym.explore(h, sym.Ctx(timeout_ms=20000), max_paths=200)
    got = set(p.outcome for p in res['paths'])
    for want in ('returns None', 'returns 1', 'returns 2', 'returns 3'):
        if want not in got and not failures:
            res['paths'][0].unknowns.append(dict(label='region(): no path "%s" (vacuous)' % want, info=None))
    return report.summarize('region', res, failures, samples, extra=dict(distinct_obligations=len(distinct)))


# ---------------------------------------------------------------------------
# clause 5: viscosity positive

def task_visc():
    I = _load().IAPWS97
    failures, samples, distinct = [], [], set()

    def h(c):
        d = c.real('d', 0.0, 1500.0); t = c.real('t', 0.01, 800.0)
        try:
            mu = I.visc(d, t)
        except (ValueError, ZeroDivisionError) as ex:
            rr, w = _reach_witness(c, dict(d=d.e, t=t.e))
            if rr == 'sat':
                pinned = []
                for nm, v in (('d', d.e), ('t', t.e)):
                    r2, _ = c.solve(v != z3.RealVal(w[nm]), full=True)
                    if r2 == 'unsat': pinned.append('%s=%.6g' % (nm, float(w[nm])))
                where = ','.join(pinned) or 'region'
                failures.append(dict(key='visc/raises-%s/at-%s' % (type(ex).__name__, where),
                                     what='visc(%s, %s) raises %s (%s)' % (float(w['d']), float(w['t']), type(ex).__name__, where),
                                     isolated_point=bool(pinned),
                                     replay=dict(kind='visc', d=w['d'], t=w['t'])))
                return 'raises'
            if rr != 'unsat': c.unknowns.append(dict(label='feasibility of raising path of visc()', info=None))
            return 'raises (infeasible/unknown)'
        ob = mu.e > 0
        distinct.add(('visc>0', z3.simplify(ob).hash()))
        rv = c.prove(ob, 'visc(d,t) > 0')
        if rv == 'sat':
            m = c.failures[-1]['model']
            failures.append(dict(key='visc/not-positive', what='visc <= 0', replay=dict(kind='visc', d=_mv(m, d.e), t=_mv(m, t.e))))
        if not samples:
            samples.append(dict(clause='viscosity', obligation='visc(d,t) > 0 for d in [0,1500], t in [0.01,800]; exp(.) uninterpreted with exp > 0', verdict=rv,
                                term=str(mu.e)[:160]))
        return 'checked'

    res = sym.explore(h, sym.Ctx(timeout_ms=30000), max_paths=20)
    if not any(p.outcome == 'checked' for p in res['paths']) and not failures:
        res['paths'][0].unknowns.append(dict(label='visc: no path reached the obligation', info=None))
    return report.summarize('visc', res, failures, samples, extra=dict(distinct_obligations=len(distinct)))


# ---------------------------------------------------------------------------

def _screen_isolated_points(results, rep):
    """A raising path whose path condition pins an input to ONE real value
    (exact division by zero in power_array's always-computed reciprocal) is
    replayed first: on the real module the operand may be a numpy scalar, where
    1.0/0.0 is inf (no exception) in a slot that is never read.  Such a point
    is excluded from the claim and listed; a point where the real code raises
    too stays a failure."""
    import json, os, tempfile
    excluded = []
    for r in results:
        keep = []
        for f in r.get('failures', []):
            if not f.get('isolated_point'):
                keep.append(f); continue
            fd, path = tempfile.mkstemp(suffix='.json', prefix='c14_pt_')
            with os.fdopen(fd, 'w') as fh:
                json.dump(dict(property=PID, key=f['key'], data=report.jsonable(f['replay'])), fh)
            ok, out = report.run_replay(PID, path)
            os.unlink(path)
            rep.replays_done += 1
            if ok: keep.append(f)
            else: excluded.append(dict(point=f['key'], real_code=out.strip()[-200:]))
        r['failures'] = keep
    if excluded:
        rep.extra['excluded_points'] = excluded
        rep.outside.append('isolated points where exact division raises in the engine but the real code (numpy scalar: inf in an unused slot) returns a value: '
                           + '; '.join(e['point'] for e in excluded))


def run(tier, seed, rep):
    _load()
    thorough = tier == 'thorough'
    tasks = [(task_sat_tsat, dict(hunt_ms=60000 if thorough else 8000, second=thorough)),
             (task_b23, dict(direction='t')), (task_b23, dict(direction='p')),
             (task_potential, dict(region=1)), (task_potential, dict(region=2)), (task_potential, dict(region=3)),
             (task_region, {}), (task_visc, {})]
    if seed:
        import random
        random.Random(seed).shuffle(tasks)
    results = report.run_tasks(tasks)
    _screen_isolated_points(results, rep)
    rep.add_results(results)
    for r in results:
        if r.get('name') == 'sat_tsat':
            ex = r.get('extra', {})
            rep.extra['sat_tsat_lemma_chain'] = ex.get('steps')
            rep.extra['sat_tsat_bug_hunting_query'] = ex.get('hunt')
            rep.extra['sat_tsat_chain_complete'] = ex.get('chain_complete')
    rep.bounds += [
        'clause 1: t in [0.01, tcritical] (closed, both end points); exact real arithmetic over the exact values of the float coefficients',
        'clause 2: t in [350, 590] with tolerance 1e-6 K; p in [b23p(350), 100 MPa] with tolerance 1e-3 Pa',
        'clause 3: identity proved for ALL values of the power_array base values (polynomial identity), ties for t,p / d,t in the region boxes',
        'clause 4: t in [-50, 900], p in [-1 MPa, 200 MPa]',
        'clause 5: d in [0, 1500], t in [0.01, 800]']
    rep.outside += [
        'density monotone in pressure; agreement across region boundaries within the formulation tolerances (bivariate degree-40 inequalities)',
        'region 3 of region() against super()\'s validity; definedness of cowat/supst (gamma_pi != 0 not decided: the ZeroDivisionError path is reported, not claimed)',
        'sat(tsat(p)) = p as a separate obligation (follows from clause 1 only on sat([0.01, tcritical]))',
        'IEEE rounding (claims are about the algorithm over the reals)',
        'values of the coefficients themselves (pinned by the repository tests at the published states)']
    rep.assumptions += [
        'math.exp is uninterpreted with exp(x) > 0 (clause 5)',
        'published IAPWS-IF97 constants R = 461.526, p* = 16.53 MPa / 1 MPa, T* = 1386 / 540 / 647.096 K, rho* = 322, 0 degC = 273.15 K (clause 3 ties)',
        'sat/tsat: the monolithic query tsat(sat(t)) != t answers unknown within the cap; this is NOT counted as inconclusive when every step of the lemma chain is unsat (the chain is then a complete proof); if the chain cannot be built or a step is not unsat and no counterexample is found the result is inconclusive',
        'local variable names theta,a,b,c,x (sat), beta2,beta,e,f,g,d (tsat), gampi,gamt,gamt0,gamtr,phidelta,phitau,pi,tau,delta are used to capture terms from the real frames']
    rep.trusted += ['formal differentiation of z3 terms (harness/thermo_common.deriv)', 'IAPWS-IF97 defining relations rho = p*/(R T gamma_pi), u = R T (tau gamma_tau - pi gamma_pi), p = rho R T delta phi_delta, u = R T tau phi_tau']
    rep.process_failures()
    return rep.finish(rule='one obligation per proof-script step / per path of region() / per clause: hypotheses AND NOT goal must be unsat; '
                      'distinct = distinct non-constant formulas by z3 AST hash')
