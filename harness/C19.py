"""C19 - transfers between geometries are total, nearest-based, identity on equal grids.

Pairs of small rectangular geometries (<= 3x2x3) are built by the REAL
mulgrid.rectangular (reloaded from /repo) from SYMBOLIC spacings, origins and
column surfaces; scipy.spatial is unimportable in the reloaded modules, so the
real column_mapping runs its own fallback branch.  Shapes, the 3x3
atmosphere-type combinations, naming conventions, number of primary variables
and generator layouts are enumerated; everything numeric is symbolic.

Families of tasks:
  map    sourcegeo.block_mapping(geo, True): no exception; every underground
         target block is mapped to an existing source block whose column
         minimises the squared centre distance and whose layer minimises
         |centre difference| (moved to the column's first layer below ground
         when above the surface); atmosphere blocks go to the corresponding
         source atmosphere block when one exists (source type 0 -> the single
         block, 1 & 1 -> the nearest column's) and may be absent otherwise.
  self   geo.block_mapping(geo) is the identity.
  incon  t2incon.transfer_from: state of every target block = state of the
         mapped source block (average / broadcast / default for atmosphere
         blocks per combination), order = target block order, source unchanged.
  data   t2data.transfer_from on identical geometries keeps every generator
         (block, name, type, rate, enthalpy, tables) and the total generation;
         also between geometries that differ only in their atmosphere type.
  refine one copy of a geometry is refined in place by the REAL refine_layers();
         mappings refined <-> original, self-mapping and incon transfer are
         checked against the harness's own description of the refined layers.
  (move: see task_move.  Configurations added in round 4: source initial
  conditions stored in another order; names containing digits.)

Oracles are written here and do not call the code under test: column centres
are origin + partial sums + half a spacing, layer centres likewise, names are
rebuilt from the naming convention.
"""
import time
import z3
from fractions import Fraction as F
from vx import sym, loader, report, fastctx, snorm
from vx.sym import SReal
from harness.c19_common import own_block_name, LAYOUTS, DEFAULT_ATM, TOPCAT, BOTCAT, generator_plan

PID = 'C19'

_LD = None
def _load():
    global _LD
    if _LD is None:
        _LD = loader.load(['mulgrids', 't2grids', 't2incons', 't2data'])
        snorm.install(_LD, ['geometry', 'mulgrids', 't2grids', 't2incons', 't2data'])
    return _LD


def E(v):
    return sym.lift_real(v)


# ---------------------------------------------------------------------------
# symbolic geometry + independent description

class GeoInfo(object):
    """Oracle-side description of a rectangular geometry (z3 terms)."""
    pass


def make_geo(c, mg, tag, shape, atm, conv, surf_mode, like=None, lo=None, hi=None, chars=None):
    """Build a geometry with the real rectangular() from symbolic numbers.
    like: (GeoInfo, how) - 'same' reuses all symbols, 'shift' the spacings with a
    new origin, 'resurf' all but the surfaces."""
    nx, ny, nz = shape
    def sp(axis, n):
        out = []
        for i in range(n):
            v = c.real('%s%s%d' % (tag, axis, i), 0, strict_lo=True) if lo is None else c.real('%s%s%d' % (tag, axis, i), lo, hi)
            out.append(v)
        return out
    if like is not None:
        src = like[0]
        dx, dy, dz = src.dx, src.dy, src.dz
        org = src.org
        if like[1] == 'shift':
            org = [SReal(src.org[k].e + c.real('%sshift%d' % (tag, k)).e) for k in range(3)]
        elif like[1] == 'shiftz':
            org = [src.org[0], src.org[1], SReal(src.org[2].e + c.real('%sshift2' % tag).e)]
        elif like[1] in ('refinex', 'refinez'):
            # every source column (layer) is cut in two at a symbolic position strictly inside it
            def cut(d, axis):
                out = []
                for i, v in enumerate(d):
                    a = c.real('%scut%s%d' % (tag, axis, i), 0, strict_lo=True)
                    c.add(a.e < E(v))
                    out += [a, SReal(E(v) - a.e)]
                return out
            if like[1] == 'refinex': dx = cut(dx, 'x')
            else: dz = cut(dz, 'z')
        elif like[1] not in ('same', 'resurf', 'shiftz'): raise KeyError(like[1])
        if (len(dx), len(dy), len(dz)) != tuple(shape): raise ValueError('shape %r does not fit relation %s' % (shape, like[1]))
    else:
        dx, dy, dz = sp('dx', nx), sp('dy', ny), sp('dz', nz)
        org = [c.real('%so%s' % (tag, a)) for a in 'xyz']
    kw = dict(chars=chars) if chars else {}      # chars: the characters rectangular() may use in names (default a-z)
    geo = mg.mulgrid().rectangular(list(dx), list(dy), list(dz), convention=conv, atmos_type=atm, origin=list(org), **kw)
    gi = GeoInfo()
    gi.tag, gi.shape, gi.atm, gi.conv, gi.chars = tag, shape, atm, conv, chars
    gi.dx, gi.dy, gi.dz, gi.org = dx, dy, dz, org
    # oracle terms
    def partial(o, d):
        out, acc = [], E(o)
        for v in d:
            out.append((acc, acc + E(v) / 2, acc + E(v)))
            acc = acc + E(v)
        return out
    px, py = partial(org[0], dx), partial(org[1], dy)
    gi.ncol = nx * ny
    gi.cx = [px[k % nx][1] for k in range(gi.ncol)]
    gi.cy = [py[k // nx][1] for k in range(gi.ncol)]
    gi.area = [E(dx[k % nx]) * E(dy[k // nx]) for k in range(gi.ncol)]
    gi.lbot, gi.lcen, gi.ltop = [E(org[2])], [E(org[2])], [E(org[2])]
    acc = E(org[2])
    for v in dz:
        gi.ltop.append(acc); acc = acc - E(v)
        gi.lbot.append(acc); gi.lcen.append(acc + E(v) / 2)
    gi.nlay = nz
    gi.colname = [col.name for col in geo.columnlist]
    gi.layname = [lay.name for lay in geo.layerlist]
    if len(gi.colname) != gi.ncol or len(gi.layname) != nz + 1:
        raise sym.EngineAbort('rectangular() did not build the expected shape')
    if surf_mode == 'sym':
        if like is not None and like[1] == 'same': gi.surf = like[0].surf
        else:
            gi.surf = []
            for k in range(gi.ncol):
                s = c.real('%ssurf%d' % (tag, k))
                c.add(s.e > gi.lbot[-1])          # every column has at least one layer
                gi.surf.append(s.e)
        for k, col in enumerate(geo.columnlist):
            col.surface = SReal(gi.surf[k])
            geo.set_column_num_layers(col)
        geo.setup_block_name_index()
        geo.setup_block_connection_name_index()
    else:
        gi.surf = [E(org[2])] * gi.ncol
    gi.atmcol = ['ATM', ' 0', '  0', 'ATM'][conv] if atm == 0 else None
    # name tables (own naming rule)
    gi.under = {}      # block name -> (layer index, column index)
    for li in range(1, nz + 1):
        for k in range(gi.ncol):
            gi.under[own_block_name(conv, gi.layname[li], gi.colname[k])] = (li, k)
    gi.atmblocks = {}  # block name -> column index or None
    if atm == 0: gi.atmblocks[own_block_name(conv, gi.layname[0], gi.atmcol)] = None
    elif atm == 1:
        for k in range(gi.ncol): gi.atmblocks[own_block_name(conv, gi.layname[0], gi.colname[k])] = k
    return geo, gi


def exists(gi, li, k):
    """oracle: block (layer li, column k) is part of the grid"""
    return gi.surf[k] > gi.lbot[li]


def first_below(gi, li, k):
    """oracle: li is the column's first layer (from the top) with its bottom below ground"""
    f = gi.lbot[li] < gi.surf[k]
    if li > 1: f = z3.And(f, gi.lbot[li - 1] >= gi.surf[k])
    return f


def dist2(s, j, t, k):
    return (s.cx[j] - t.cx[k]) * (s.cx[j] - t.cx[k]) + (s.cy[j] - t.cy[k]) * (s.cy[j] - t.cy[k])


def nearest_col(s, j, t, k):
    return z3.And(*[dist2(s, j, t, k) <= dist2(s, jj, t, k) for jj in range(s.ncol) if jj != j]) if s.ncol > 1 else z3.BoolVal(True)


def zabs(e):
    return z3.If(e >= 0, e, -e)


def nearest_lay(s, l, t, li):
    d = zabs(s.lcen[l] - t.lcen[li])
    return z3.And(*[d <= zabs(s.lcen[ll] - t.lcen[li]) for ll in range(1, s.nlay + 1) if ll != l]) if s.nlay > 1 else z3.BoolVal(True)


def expected_layer(s, sc, sl, t, li):
    """oracle: sl is a legitimate source layer for target layer li in source column sc"""
    alts = []
    for l in range(1, s.nlay + 1):
        ok = []
        if l == sl: ok.append(s.surf[sc] > s.lbot[l])
        ok.append(z3.And(s.surf[sc] <= s.lbot[l], first_below(s, sl, sc)))
        alts.append(z3.And(nearest_lay(s, l, t, li), z3.Or(*ok)))
    return z3.Or(*alts)


def block_list_check(c, geo, gi, distinct):
    """The real block_name_list (path-dependent, concrete) lists exactly the
    blocks the oracle says exist, atmosphere first."""
    names = list(geo.block_name_list)
    natm = len(gi.atmblocks)
    ok = names[:natm] == list(gi.atmblocks.keys())
    conj = []
    under = names[natm:]
    for nm, (li, k) in gi.under.items():
        conj.append(exists(gi, li, k) if nm in under else z3.Not(exists(gi, li, k)))
    for nm in under:
        if nm not in gi.under: ok = False
    f = z3.And(z3.BoolVal(bool(ok)), *conj)
    distinct.add(('blocklist', z3.simplify(f).hash()))
    return c.prove(f, 'block list of %s = atmosphere blocks + existing underground blocks' % gi.tag)


def model_numbers(m, gis, extra=None):
    out = {}
    for gi in gis:
        out[gi.tag] = dict(shape=list(gi.shape), atm=gi.atm, conv=gi.conv,
                           dx=[sym.model_value(m, E(v)) for v in gi.dx], dy=[sym.model_value(m, E(v)) for v in gi.dy],
                           dz=[sym.model_value(m, E(v)) for v in gi.dz], origin=[sym.model_value(m, E(v)) for v in gi.org],
                           surf=[sym.model_value(m, v) for v in gi.surf], chars=getattr(gi, 'chars', None))
    if extra: out.update(extra)
    return out


# ---------------------------------------------------------------------------
# map

def check_mapping(c, s, t, sgeo, tgeo, mapping, colmap, distinct, fail):
    """All obligations on one block_mapping result (concrete names, symbolic conditions)."""
    tnames = list(tgeo.block_name_list)
    for nm in tnames:
        if nm in t.atmblocks:
            k = t.atmblocks[nm]
            if s.atm == 0:
                want = list(s.atmblocks.keys())[0]
                okc = mapping.get(nm) == want
                if c.holds(bool(okc), 'atmosphere block -> the single source atmosphere block') == 'sat':
                    fail('atmosphere/not-single-source-block', 'target atmosphere block %r -> %r, expected %r' % (nm, mapping.get(nm), want))
            elif s.atm == 1 and t.atm == 1:
                got = mapping.get(nm)
                if got not in s.atmblocks:
                    if c.refute_path('atmosphere block -> a source atmosphere block') == 'sat':
                        fail('atmosphere/not-a-source-atmosphere-block', 'target atmosphere block %r -> %r' % (nm, got))
                else:
                    f = nearest_col(s, s.atmblocks[got], t, k)
                    distinct.add(('atmcol', z3.simplify(f).hash()))
                    if c.prove(f, 'atmosphere block -> atmosphere block of the nearest source column') == 'sat':
                        fail('atmosphere/not-nearest-column', 'target atmosphere block %r -> %r which is not over the nearest column' % (nm, got))
            continue
        if nm not in t.under:
            if c.refute_path('target block list holds only oracle-known names') == 'sat': fail('unknown-target-block', repr(nm))
            continue
        li, k = t.under[nm]
        got = mapping.get(nm)
        if got is None:
            if c.refute_path('mapping is total on underground blocks') == 'sat': fail('not-total', 'underground block %r has no image' % nm)
            continue
        if got not in s.under:
            if c.refute_path('image is an underground source block name') == 'sat': fail('image-not-a-source-block', '%r -> %r' % (nm, got))
            continue
        sl, sc = s.under[got]
        f = z3.And(exists(s, sl, sc), nearest_col(s, sc, t, k), expected_layer(s, sc, sl, t, li))
        distinct.add(('image', z3.simplify(f).hash()))
        r = c.prove(f, 'image exists, nearest column, nearest layer / first layer below ground')
        if r == 'sat':
            m = c.failures[-1]['model']
            tv = lambda e: bool(sym.model_value(m, e))
            if not tv(exists(s, sl, sc)): sub = 'image-block-does-not-exist'
            elif not tv(nearest_col(s, sc, t, k)): sub = 'not-nearest-column'
            else: sub = 'wrong-layer'
            fail('underground/' + sub, 'target block %r -> %r' % (nm, got))
    if colmap is not None:
        for k, cn in enumerate(t.colname):
            got = colmap.get(cn)
            if got not in s.colname:
                if c.refute_path('column mapping is total') == 'sat': fail('column-mapping-not-total', repr(cn))
                continue
            f = nearest_col(s, s.colname.index(got), t, k)
            if c.prove(f, 'column mapping -> nearest source column') == 'sat':
                fail('column-mapping/not-nearest', '%r -> %r' % (cn, got))


def task_map(sshape, tshape, sa, ta, conv, surf, rel, chars=None):
    ld = _load()
    mg = ld.mulgrids
    failures, samples, distinct = [], [], set()
    name = 'map/%dx%dx%d->%dx%dx%d/atm%d->%d/conv%d/%s/%s' % (sshape + tshape + (sa, ta, conv, surf, rel)) + ('/chars=%s' % chars if chars else '')

    def h(c):
        sgeo, s = make_geo(c, mg, 's', sshape, sa, conv, surf, chars=chars)
        tgeo, t = make_geo(c, mg, 't', tshape, ta, conv, surf, like=(s, rel) if rel != 'free' else None, chars=chars)
        def fail(sub, what, exc=None):
            m = c.failures[-1]['model']
            key = 'block_mapping/%s%s' % ('names-with-digits/' if chars else '', sub)
            failures.append(dict(key=key, what='%s: %s' % (name, what),
                                 replay=model_numbers(m, [s, t], dict(fn='map'))))
        if block_list_check(c, sgeo, s, distinct) == 'sat': fail('source-block-list', 'block list wrong')
        if block_list_check(c, tgeo, t, distinct) == 'sat': fail('target-block-list', 'block list wrong')
        try:
            mapping, colmap = sgeo.block_mapping(tgeo, True)
        except Exception as ex:
            if c.refute_path('block_mapping raises no exception') == 'sat':
                fail('atm_src%d_tgt%d/%s' % (sa, ta, type(ex).__name__), 'block_mapping raised %s: %s' % (type(ex).__name__, ex))
            return 'raised'
        check_mapping(c, s, t, sgeo, tgeo, mapping, colmap, distinct, fail)
        if len(samples) < 1:
            samples.append(dict(task=name, mapping=dict(sorted(mapping.items())[:8]), path_conditions=len(c.pc)))
        return 'mapped'

    res = sym.explore(h, fastctx.FastCtx(timeout_ms=60000), max_paths=6000)
    return report.summarize(name, res, failures, samples, extra=dict(distinct_obligations=len(distinct)))


# ---------------------------------------------------------------------------
# move: map, move the source geometry in place, map again (current centres)

def _kdtree_stub_module(ld):
    """Contract model of scipy.spatial.cKDTree for the scipy branch of column_mapping: the tree COPIES the points it is
    built from; query(x) returns the index of a point at minimal Euclidean distance from x among them (first on ties)."""
    import types
    import numpy as _np
    m = types.ModuleType(ld.pkg + '._absent_scipy_spatial')
    class cKDTree(object):
        def __init__(self, data):
            self.data = [[v for v in p] for p in data]      # copied: later edits of the arrays do not reach the tree
            self.n = len(self.data)
            self.m = len(self.data[0]) if self.data else 0
        def query(self, x):
            xs = [v for v in x]
            d2 = []
            for p in self.data:
                acc = 0
                for a, b in zip(p, xs): acc = acc + (a - b) * (a - b)
                d2.append(acc)
            best = 0
            for i in range(1, len(d2)):
                if d2[i] < d2[best]: best = i
            c = sym.ctx()
            if c is not None: c.stubs_hit.add('scipy.spatial.cKDTree (contract: copies points, query = argmin of squared distance)')
            return sym.ssqrt(d2[best]) if not sym.is_sym(d2[best]) else snorm.SNorm(z3.simplify(E(d2[best]), som=True)), best
    m.cKDTree = cKDTree
    return m


def _set_kdtree(ld, on):
    import sys as _sys
    key = ld.pkg + '._absent_scipy_spatial'
    if on: _sys.modules[key] = _kdtree_stub_module(ld)
    else: _sys.modules.pop(key, None)


def moved(gi, shift):
    """oracle description of gi after translate(shift) (shift: three z3 terms)"""
    g = GeoInfo()
    g.__dict__.update(gi.__dict__)
    g.cx = [v + shift[0] for v in gi.cx]; g.cy = [v + shift[1] for v in gi.cy]
    g.lbot = [v + shift[2] for v in gi.lbot]; g.lcen = [v + shift[2] for v in gi.lcen]; g.ltop = [v + shift[2] for v in gi.ltop]
    g.surf = [v + shift[2] for v in gi.surf]
    return g


def task_move(sshape, tshape, sa, ta, conv, surf, rel, kdtree):
    """block_mapping, then sourcegeo.translate(symbolic shift), then block_mapping again: the second mapping must be
    nearest-based for the centres the geometry has NOW.  kdtree=True runs the scipy branch of column_mapping against
    the contract stub above, kdtree=False the module's own fallback branch."""
    ld = _load()
    mg = ld.mulgrids
    failures, samples, distinct = [], [], set()
    name = 'move/%dx%dx%d->%dx%dx%d/atm%d->%d/conv%d/%s/%s/%s' % (sshape + tshape + (sa, ta, conv, surf, rel, 'kdtree' if kdtree else 'fallback'))
    tag = 'kdtree' if kdtree else 'fallback'

    def h(c):
        _set_kdtree(ld, kdtree)
        try:
            sgeo, s = make_geo(c, mg, 's', sshape, sa, conv, surf)
            tgeo, t = make_geo(c, mg, 't', tshape, ta, conv, surf, like=(s, rel) if rel != 'free' else None)
            shift = [c.real('move%d' % k) for k in range(3)]
            stage = ['before-move']
            def fail(sub, what):
                m = c.failures[-1]['model']
                failures.append(dict(key='block_mapping/%s-%s/%s' % (stage[0], tag, sub), what='%s: %s' % (name, what),
                                     replay=model_numbers(m, [s, t], dict(fn='move', kdtree=kdtree,
                                                                          shift=[sym.model_value(m, v.e) for v in shift]))))
            try:
                mapping, colmap = sgeo.block_mapping(tgeo, True)
                check_mapping(c, s, t, sgeo, tgeo, mapping, colmap, distinct, fail)
                sgeo.translate(list(shift))
                stage[0] = 'after-move'
                s2 = moved(s, [v.e for v in shift])
                mapping2, colmap2 = sgeo.block_mapping(tgeo, True)
            except Exception as ex:
                if c.refute_path('map / translate / map raises no exception') == 'sat':
                    fail(type(ex).__name__, 'raised %s: %s' % (type(ex).__name__, ex))
                return 'raised'
            if block_list_check(c, sgeo, s2, distinct) == 'sat': fail('source-block-list', 'block list wrong after the move')
            check_mapping(c, s2, t, sgeo, tgeo, mapping2, colmap2, distinct, fail)
            if len(samples) < 1:
                samples.append(dict(task=name, before=dict(sorted(mapping.items())[:4]), after=dict(sorted(mapping2.items())[:4])))
            return 'mapped'
        finally:
            _set_kdtree(ld, False)

    res = sym.explore(h, fastctx.FastCtx(timeout_ms=60000), max_paths=6000)
    return report.summarize(name, res, failures, samples, extra=dict(distinct_obligations=len(distinct)))


# ---------------------------------------------------------------------------
# refine: one side of the pair is produced by the REAL refine_layers() from the other one

def refined_info(gi, geo, factor, layers):
    """oracle description of gi after refine_layers(layers, factor): every chosen layer (1-based indices) is cut into
    `factor` equal parts, nothing else changes (columns, surfaces, top elevation, atmosphere arrangement); the names are
    read from the refined geometry."""
    g = GeoInfo()
    g.__dict__.update(gi.__dict__)
    g.tag = gi.tag + 'r'
    dz = []
    for li, v in enumerate(gi.dz, 1):
        if li in layers: dz += [SReal(E(v) / factor)] * factor
        else: dz.append(v)
    g.dz = dz
    g.shape = (gi.shape[0], gi.shape[1], len(dz))
    g.nlay = len(dz)
    g.lbot, g.lcen, g.ltop = [E(gi.org[2])], [E(gi.org[2])], [E(gi.org[2])]
    acc = E(gi.org[2])
    for v in dz:
        g.ltop.append(acc); acc = acc - E(v)
        g.lbot.append(acc); g.lcen.append(acc + E(v) / 2)
    g.colname = [col.name for col in geo.columnlist]
    g.layname = [lay.name for lay in geo.layerlist]
    if g.colname != gi.colname or len(g.layname) != g.nlay + 1 or g.layname[0] != gi.layname[0]:
        raise sym.EngineAbort('refine_layers() did not build the expected layer structure: %r' % (g.layname,))
    g.under = {}
    for li in range(1, g.nlay + 1):
        for k in range(g.ncol):
            g.under[own_block_name(g.conv, g.layname[li], g.colname[k])] = (li, k)
    g.atmblocks = {}
    if g.atm == 0: g.atmblocks[own_block_name(g.conv, g.layname[0], g.atmcol)] = None
    elif g.atm == 1:
        for k in range(g.ncol): g.atmblocks[own_block_name(g.conv, g.layname[0], g.colname[k])] = k
    return g


def task_refine(shape, sa, ta, conv, factor, which, nvar=2):
    """Two copies of one geometry with symbolic numbers and per-column surfaces; the first is refined IN PLACE by the
    real refine_layers(layers, factor).  Then: block list of the refined geometry, refined -> original and
    original -> refined block mappings (all map obligations, against the oracle's own layer structure), self-mapping
    of the refined geometry, and t2incon.transfer_from refined -> original (state of the mapped block)."""
    ld = _load()
    mg, ti = ld.mulgrids, ld.t2incons
    failures, samples, distinct = [], [], set()
    name = 'refine/%dx%dx%d/atm%d->%d/conv%d/factor%d/%s' % (shape + (sa, ta, conv, factor, which))
    nz = shape[2]
    layers = {'all': list(range(1, nz + 1)), 'top': [1], 'bottom': [nz], 'mid': [2]}[which]

    def h(c):
        rgeo, s0 = make_geo(c, mg, 's', shape, sa, conv, 'sym')
        ogeo, o = make_geo(c, mg, 't', shape, ta, conv, 'sym', like=(s0, 'same'))
        stage = ['refine_layers']
        def fail(sub, what):
            m = c.failures[-1]['model']
            failures.append(dict(key='refine_layers/%s/%s' % (stage[0], sub), what='%s: %s' % (name, what),
                                 replay=model_numbers(m, [s0, o], dict(fn='refine', factor=factor, layers=layers, nvar=nvar))))
        def raised(ex):
            if c.refute_path('refine_layers / block_mapping / transfer_from raise no exception') == 'sat':
                fail(type(ex).__name__, 'raised %s: %s' % (type(ex).__name__, ex))
            return 'raised'
        try:
            if which == 'all': rgeo.refine_layers(factor=factor)
            else: rgeo.refine_layers([rgeo.layerlist[li].name for li in layers], factor=factor)
        except Exception as ex: return raised(ex)
        r = refined_info(s0, rgeo, factor, layers)
        if block_list_check(c, rgeo, r, distinct) == 'sat': fail('block-list', 'block list of the refined geometry is wrong')
        stage[0] = 'refined->original'
        try: m1, cm1 = rgeo.block_mapping(ogeo, True)
        except Exception as ex: return raised(ex)
        check_mapping(c, r, o, rgeo, ogeo, m1, cm1, distinct, fail)
        stage[0] = 'original->refined'
        try: m2, cm2 = ogeo.block_mapping(rgeo, True)
        except Exception as ex: return raised(ex)
        check_mapping(c, o, r, ogeo, rgeo, m2, cm2, distinct, fail)
        stage[0] = 'self'
        try: m3 = rgeo.block_mapping(rgeo)
        except Exception as ex: return raised(ex)
        bad = [nm for nm in rgeo.block_name_list if m3.get(nm) != nm]
        if c.holds(not bad, 'self-mapping of the refined geometry is the identity') == 'sat':
            fail('not-identity', repr([(b, m3.get(b)) for b in bad][:4]))
        stage[0] = 'incon-refined->original'
        src = ti.t2incon()
        state = {}
        for bi, nm in enumerate(list(r.atmblocks.keys()) + list(r.under.keys())):
            state[nm] = [c.real('v_%d_%d' % (bi, j)) for j in range(nvar)]
        for nm in rgeo.block_name_list: src[nm] = ti.t2blockincon(list(state[nm]), nm)
        inc = ti.t2incon()
        try: inc.transfer_from(src, rgeo, ogeo)
        except Exception as ex: return raised(ex)
        for nm in ogeo.block_name_list:
            if nm in o.atmblocks: continue
            a = m1.get(nm)
            if a not in state or a not in rgeo.block_name_list or nm not in inc._block or len(inc[nm].variable) != nvar:
                if c.refute_path('underground state = state of the mapped source block') == 'sat': fail('underground-state', 'block %r' % nm)
                continue
            f = z3.And(*[E(g) == w.e for g, w in zip(inc[nm].variable, state[a])])
            distinct.add(('state', z3.simplify(f).hash()))
            if c.prove(f, 'underground state = state of the mapped source block') == 'sat': fail('underground-state', 'block %r' % nm)
        if len(samples) < 1:
            samples.append(dict(task=name, refined_layers=r.layname, refined_to_original=dict(sorted(m1.items())[:6])))
        return 'mapped'

    res = sym.explore(h, fastctx.FastCtx(timeout_ms=60000), max_paths=6000)
    return report.summarize(name, res, failures, samples, extra=dict(distinct_obligations=len(distinct)))


def task_self(shape, atm, conv, surf, chars=None):
    """chars: characters rectangular() builds names from; with a digit among them some column names end in a digit, so
    that TOUGH2's (a3, i2) name rule alters the block names of single-digit layers ('  1' + ' 1' -> '  101')"""
    ld = _load()
    mg = ld.mulgrids
    failures, samples, distinct = [], [], set()
    name = 'self/%dx%dx%d/atm%d/conv%d/%s' % (shape + (atm, conv, surf)) + ('/chars=%s' % chars if chars else '')
    ktag = '/names-with-digits' if chars else ''

    def h(c):
        geo, g = make_geo(c, mg, 's', shape, atm, conv, surf, chars=chars)
        try:
            mapping = geo.block_mapping(geo)
        except Exception as ex:
            if c.refute_path('block_mapping raises no exception') == 'sat':
                failures.append(dict(key='self-mapping%s/%s' % (ktag, type(ex).__name__), what=name + ': raised %s: %s' % (type(ex).__name__, ex),
                                     replay=model_numbers(c.failures[-1]['model'], [g], dict(fn='self'))))
            return 'raised'
        bad = [nm for nm in geo.block_name_list if mapping.get(nm) != nm]
        if block_list_check(c, geo, g, distinct) == 'sat' or \
           c.holds(not bad, 'self-mapping is the identity on every block') == 'sat':
            failures.append(dict(key='self-mapping%s/not-identity' % ktag, what='%s: %r' % (name, [(b, mapping.get(b)) for b in bad][:4]),
                                 replay=model_numbers(c.failures[-1]['model'], [g], dict(fn='self'))))
        if len(samples) < 1: samples.append(dict(task=name, blocks=len(geo.block_name_list)))
        return 'mapped'

    res = sym.explore(h, fastctx.FastCtx(timeout_ms=60000), max_paths=6000)
    return report.summarize(name, res, failures, samples, extra=dict(distinct_obligations=len(distinct) + 1))


# ---------------------------------------------------------------------------
# incon

def task_incon(sshape, tshape, sa, ta, conv, surf, rel, nvar, order='geo'):
    """order: the order in which the source's blocks are stored in the source t2incon - 'geo' (the geometry's block
    order, atmosphere first), 'reversed', or 'rotated' (first block moved to the end).  A t2incon is addressed by block
    name; TOUGH2 reads INCON by name, so every order is a legal source."""
    ld = _load()
    mg, ti = ld.mulgrids, ld.t2incons
    failures, samples, distinct = [], [], set()
    name = 'incon/%dx%dx%d->%dx%dx%d/atm%d->%d/conv%d/%s/%s/nvar%d' % (sshape + tshape + (sa, ta, conv, surf, rel, nvar))
    if order != 'geo': name += '/' + order

    def h(c):
        sgeo, s = make_geo(c, mg, 's', sshape, sa, conv, surf)
        tgeo, t = make_geo(c, mg, 't', tshape, ta, conv, surf, like=(s, rel) if rel != 'free' else None)
        src = ti.t2incon()
        state = {}
        # symbols are tied to the block's identity (not to its position in the path-dependent list)
        allnames = list(s.atmblocks.keys()) + list(s.under.keys())
        for bi, nm in enumerate(allnames):
            state[nm] = [c.real('v_%d_%d' % (bi, j)) for j in range(nvar)]
        por = {nm: c.real('por_%d' % bi) for bi, nm in enumerate(allnames)}
        stored = list(sgeo.block_name_list)
        if order == 'reversed': stored.reverse()
        elif order == 'rotated': stored = stored[1:] + stored[:1]
        for nm in stored:
            src[nm] = ti.t2blockincon(list(state[nm]), nm, porosity=por[nm])
        before = [(b.block, list(b.variable), b.porosity) for b in src._blocklist]
        def fail(sub, what):
            m = c.failures[-1]['model']
            vals = {nm: [sym.model_value(m, v.e) for v in vs] for nm, vs in state.items() if nm in sgeo.block_name_list}
            failures.append(dict(key='t2incon.transfer_from/atm_src%d_tgt%d/%s%s' % (sa, ta, sub, '' if order == 'geo' else '/source-order-' + order),
                                 what='%s: %s' % (name, what),
                                 replay=model_numbers(m, [s, t], dict(fn='incon', nvar=nvar, state=vals, order=order))))
        inc = ti.t2incon()
        try:
            inc.transfer_from(src, sgeo, tgeo)
            mapping, colmap = sgeo.block_mapping(tgeo, True)
        except Exception as ex:
            if c.refute_path('transfer_from raises no exception') == 'sat':
                fail(type(ex).__name__, 'raised %s: %s' % (type(ex).__name__, ex))
            return 'raised'
        tn = list(tgeo.block_name_list)
        if c.holds(inc.blocklist == tn, 'result holds exactly the target blocks, in target order') == 'sat':
            fail('block-list', 'result blocks %r, target blocks %r' % (inc.blocklist[:6], tn[:6]))
            return 'checked'
        for nm in tn:
            got = inc[nm].variable
            if nm in t.atmblocks:
                k = t.atmblocks[nm]
                if s.atm == 2: want = [z3.RealVal(str(v)) for v in DEFAULT_ATM]
                elif s.atm == 0: want = [v.e for v in state[list(s.atmblocks.keys())[0]]]
                elif t.atm == 0:       # average over the source columns' atmosphere blocks
                    keys = list(s.atmblocks.keys())
                    want = [z3.Sum(*[state[a][j].e for a in keys]) / len(keys) for j in range(nvar)]
                else:
                    a = own_block_name(conv, s.layname[0], colmap[t.colname[k]])
                    want = [v.e for v in state[a]] if a in state else None
                lab = 'atmosphere state (src type %d -> tgt type %d)' % (s.atm, t.atm)
                sub = 'atmosphere-state'
            else:
                a = mapping.get(nm)
                want = [v.e for v in state[a]] if a in state and a in sgeo.block_name_list else None
                lab = 'underground state = state of the mapped source block'
                sub = 'underground-state'
            if want is None or len(got) != len(want):
                if c.refute_path(lab) == 'sat': fail(sub, 'block %r: %d values, expected %s' % (nm, len(got), 'none' if want is None else len(want)))
                continue
            f = z3.And(*[E(g) == w for g, w in zip(got, want)])
            distinct.add((lab, z3.simplify(f).hash()))
            if c.prove(f, lab) == 'sat': fail(sub, 'block %r gets %r' % (nm, got))
            if nm not in t.atmblocks:
                fp = E(inc[nm].porosity) == por[mapping[nm]].e if inc[nm].porosity is not None else z3.BoolVal(False)
                if c.prove(fp, 'porosity travels with the state') == 'sat': fail('porosity', 'block %r' % nm)
        # mapping itself is checked against the oracle as in the map family
        check_mapping(c, s, t, sgeo, tgeo, mapping, colmap, distinct,
                      lambda sub, what: failures.append(dict(key='block_mapping/' + sub, what=name + ': ' + what,
                                                             replay=model_numbers(c.failures[-1]['model'], [s, t], dict(fn='map')))))
        after = [(b.block, list(b.variable), b.porosity) for b in src._blocklist]
        same = len(before) == len(after) and all(
            b0[0] == b1[0] and len(b0[1]) == len(b1[1]) and all(x is y for x, y in zip(b0[1], b1[1])) and b0[2] is b1[2]
            for b0, b1 in zip(before, after))
        if c.holds(bool(same), 'source initial conditions unchanged') == 'sat':
            fail('source-altered', 'source t2incon changed by the transfer')
        if len(samples) < 1:
            samples.append(dict(task=name, target_blocks=len(tn), example=[str(inc[tn[-1]].variable[0])[:80]]))
        return 'checked'

    res = sym.explore(h, fastctx.FastCtx(timeout_ms=60000), max_paths=6000)
    return report.summarize(name, res, failures, samples, extra=dict(distinct_obligations=len(distinct)))


# ---------------------------------------------------------------------------
# data: t2data.transfer_from on identical geometries

TABLEGENS = ['MASS', 'HEAT', 'COM1']

def task_data(shape, atm, conv, layout, preserve, rename, tatm=None):
    """layout: list of generator descriptions (where, type, table?); tatm: atmosphere type of the target geometry
    (default: the source's) - the two geometries are identical in everything else"""
    if tatm is None: tatm = atm
    ld = _load()
    mg, tg, td = ld.mulgrids, ld.t2grids, ld.t2data
    failures, samples, distinct = [], [], set()
    name = 'data/%dx%dx%d/atm%s/conv%d/%s/preserve%d/rename%d' % (shape + (str(atm) if tatm == atm else '%d->%d' % (atm, tatm), conv, layout, int(preserve), int(rename)))
    keybase = 't2data.transfer_from/' if tatm == atm else 't2data.transfer_from/atm_src%d_tgt%d/' % (atm, tatm)

    def h(c):
        sgeo, s = make_geo(c, mg, 's', shape, atm, conv, 'default', lo=F(1, 1000), hi=F(10 ** 5))
        tgeo, t = make_geo(c, mg, 't', shape, tatm, conv, 'default', like=(s, 'same'))
        dat = td.t2data()
        dat.grid = tg.t2grid().fromgeo(sgeo)
        under = [nm for nm in sgeo.block_name_list if nm in s.under]
        topcat, botcat = TOPCAT[conv], BOTCAT[conv]
        gens = []
        for gi_, nm, blk, typ, ntab, enth, follows, where, ren in generator_plan(conv, layout, s.colname, s.layname):
            # name after the transfer: top / bottom generators are named category + column of their block, all
            # others keep their name unless rename_generators is set (docstring of transfer_generators_from)
            follows = ren if (where != 'interior' or rename) else nm
            kw = dict(name=nm, block=blk, type=typ)
            if ntab:
                kw['ltab'] = ntab
                kw['time'] = [c.real('g%d_t%d' % (gi_, j)) for j in range(ntab)]
                kw['rate'] = [c.real('g%d_r%d' % (gi_, j)) for j in range(ntab)]
                if enth:
                    kw['itab'] = 'E'
                    kw['enthalpy'] = [c.real('g%d_h%d' % (gi_, j)) for j in range(ntab)]
            else:
                kw['gx'] = c.real('g%d_gx' % gi_)
                kw['ex'] = c.real('g%d_ex' % gi_)
            g = td.t2generator(**kw)
            dat.add_generator(g); gens.append((g, kw, follows))
        snapshot = [(g.name, g.block, g.type, g.ltab, g.itab, g.gx, g.ex, list(g.time), list(g.rate), list(g.enthalpy)) for g, _, _ in gens]
        d2 = td.t2data()
        def fail(sub, what):
            m = c.failures[-1]['model']
            failures.append(dict(key=keybase + sub, what='%s: %s' % (name, what),
                                 replay=model_numbers(m, [s, t], dict(fn='data', layout=layout, preserve=preserve, rename=rename,
                                                                      values={d.name(): sym.model_value(m, d()) for d in m.decls() if d.arity() == 0 and d.name().startswith('g')}))))
        try:
            d2.transfer_from(dat, sgeo, tgeo, top_generator=[topcat], bottom_generator=[botcat],
                             rename_generators=rename, preserve_generation_totals=preserve)
        except Exception as ex:
            if c.refute_path('transfer_from raises no exception') == 'sat':
                fail(type(ex).__name__, 'raised %s: %s' % (type(ex).__name__, ex))
            return 'raised'
        out = list(d2.generatorlist)
        if c.holds(len(out) == len(gens), 'same number of generators') == 'sat':
            fail('generator-count', '%d generators became %d' % (len(gens), len(out)))
            return 'checked'
        def eqnum(a, b):
            if a is None or b is None: return z3.BoolVal(a is None and b is None)
            return E(a) == E(b)
        for (g, kw, expname), snap in zip(gens, snapshot):
            # expname: the name the generator must have now (its own, or category + column of its block)
            cand = [o for o in out if o.block == snap[1] and o.name == expname]
            if len(cand) != 1:
                if c.refute_path('generator kept (block, name)') == 'sat':
                    fail('generator-lost' if not [o for o in out if o.block == snap[1]] else 'generator-name',
                         'generator %r in block %r should now be %r in that block; result has %r' % (snap[0], snap[1], expname, [(o.block, o.name) for o in out]))
                continue
            o = cand[0]
            parts = [z3.BoolVal(o.type == snap[2] and o.ltab == snap[3] and o.itab == snap[4] and
                                len(o.time) == len(snap[7]) and len(o.rate) == len(snap[8]) and len(o.enthalpy) == len(snap[9])),
                     eqnum(o.gx, snap[5]), eqnum(o.ex, snap[6])]
            parts += [eqnum(a, b) for a, b in zip(o.time, snap[7])] + [eqnum(a, b) for a, b in zip(o.rate, snap[8])] + \
                     [eqnum(a, b) for a, b in zip(o.enthalpy, snap[9])]
            f = z3.And(*parts)
            distinct.add(('gen', z3.simplify(f).hash()))
            if c.prove(f, 'generator preserved: type, rate, enthalpy, tables') == 'sat':
                fail('generator-changed', '%r:%r' % (snap[1], snap[0]))
        tot0 = z3.Sum(*([E(sn[5]) for sn in snapshot if not sn[3]] + [z3.RealVal(0)]))
        tot1 = z3.Sum(*([E(o.gx) for o in out if not o.ltab] + [z3.RealVal(0)]))
        if c.prove(tot0 == tot1, 'total (constant-rate) generation preserved') == 'sat': fail('total-generation', 'sum of gx differs')
        for j in range(3):
            r0 = [E(sn[8][j]) for sn in snapshot if sn[3] and len(sn[8]) > j]
            r1 = [E(o.rate[j]) for o in out if o.ltab and len(o.rate) > j]
            if r0 or r1:
                if c.prove(z3.Sum(*(r0 + [z3.RealVal(0)])) == z3.Sum(*(r1 + [z3.RealVal(0)])), 'total table generation preserved at time %d' % j) == 'sat':
                    fail('total-generation', 'sum of table rates differs')
        after = [(g.name, g.block, g.type, g.ltab, g.itab, g.gx, g.ex, list(g.time), list(g.rate), list(g.enthalpy)) for g, _, _ in gens]
        same = len(dat.generatorlist) == len(gens) and all(
            a[:5] == b[:5] and a[5] is b[5] and a[6] is b[6] and all(x is y for x, y in zip(a[7] + a[8] + a[9], b[7] + b[8] + b[9]))
            for a, b in zip(snapshot, after))
        if c.holds(bool(same), 'source generators unchanged') == 'sat': fail('source-altered', 'source generators changed')
        if len(samples) < 1:
            samples.append(dict(task=name, generators=[(o.block, o.name, o.type) for o in out]))
        return 'checked'

    res = sym.explore(h, fastctx.FastCtx(timeout_ms=60000), max_paths=3000)
    return report.summarize(name, res, failures, samples, extra=dict(distinct_obligations=len(distinct)))


# ---------------------------------------------------------------------------

def plan(tier):
    T = []
    combos = [(sa, ta) for sa in (0, 1, 2) for ta in (0, 1, 2)]
    if tier == 'quick':
        for sa, ta in combos:
            T.append((task_map, dict(sshape=(2, 1, 2), tshape=(2, 1, 2), sa=sa, ta=ta, conv=0, surf='sym', rel='free')))
            T.append((task_incon, dict(sshape=(2, 1, 2), tshape=(1, 1, 2), sa=sa, ta=ta, conv=0, surf='default', rel='free', nvar=2)))
        for conv in (1, 2):
            T.append((task_map, dict(sshape=(2, 1, 2), tshape=(1, 2, 2), sa=1, ta=1, conv=conv, surf='default', rel='free')))
        T.append((task_map, dict(sshape=(2, 2, 2), tshape=(2, 1, 3), sa=1, ta=0, conv=0, surf='default', rel='free')))
        for atm in (0, 1, 2):
            T.append((task_self, dict(shape=(2, 2, 3), atm=atm, conv=0, surf='sym')))
        T.append((task_self, dict(shape=(3, 2, 3), atm=1, conv=2, surf='default')))
        for nvar in (1, 3, 4):
            T.append((task_incon, dict(sshape=(2, 1, 2), tshape=(2, 1, 2), sa=1, ta=1, conv=0, surf='default', rel='shift', nvar=nvar)))
        T.append((task_data, dict(shape=(2, 1, 2), atm=0, conv=0, layout='A', preserve=False, rename=False)))
        T.append((task_data, dict(shape=(2, 1, 3), atm=1, conv=0, layout='B', preserve=True, rename=False)))
        for preserve in (False, True):
            T.append((task_data, dict(shape=(2, 1, 2), atm=0, conv=0, layout='D', preserve=preserve, rename=False)))
        for kd in (False, True):
            T.append((task_move, dict(sshape=(2, 1, 2), tshape=(2, 1, 2), sa=1, ta=1, conv=0, surf='default', rel='same', kdtree=kd)))
        T.append((task_move, dict(sshape=(2, 1, 2), tshape=(1, 2, 2), sa=0, ta=1, conv=0, surf='default', rel='free', kdtree=True)))
        # round 4: the real refine_layers() on one side; wells that keep / change their names
        T.append((task_refine, dict(shape=(2, 1, 2), sa=1, ta=1, conv=0, factor=2, which='all')))
        T.append((task_refine, dict(shape=(1, 1, 2), sa=2, ta=0, conv=2, factor=3, which='top')))
        T.append((task_data, dict(shape=(2, 1, 3), atm=2, conv=0, layout='F', preserve=True, rename=False)))
        T.append((task_data, dict(shape=(2, 1, 3), atm=0, conv=0, layout='F', preserve=False, rename=True)))
        T.append((task_data, dict(shape=(2, 1, 2), atm=1, conv=2, layout='G', preserve=True, rename=False)))
        # round 4, side observations: the model transfer for differing atmosphere types; source initial conditions stored in
        # another order than the geometry's; column names that end in a digit
        for sa, ta in combos:
            if sa != ta: T.append((task_data, dict(shape=(2, 1, 2), atm=sa, tatm=ta, conv=0, layout='A', preserve=False, rename=False)))
        for sa, ta in ((0, 0), (0, 1), (1, 0), (1, 1)):
            T.append((task_incon, dict(sshape=(2, 1, 2), tshape=(1, 1, 2), sa=sa, ta=ta, conv=0, surf='default', rel='free', nvar=2, order='reversed')))
        T.append((task_self, dict(shape=(3, 1, 2), atm=2, conv=0, surf='default', chars='ab1')))
        T.append((task_map, dict(sshape=(3, 1, 2), tshape=(3, 1, 2), sa=0, ta=0, conv=0, surf='default', rel='shift', chars='ab1')))
        return T
    # thorough
    for sa, ta in combos:
        T.append((task_map, dict(sshape=(2, 1, 2), tshape=(2, 1, 2), sa=sa, ta=ta, conv=0, surf='sym', rel='free')))
        T.append((task_map, dict(sshape=(3, 1, 2), tshape=(2, 1, 3), sa=sa, ta=ta, conv=0, surf='default', rel='free')))
        T.append((task_map, dict(sshape=(2, 2, 2), tshape=(2, 2, 2), sa=sa, ta=ta, conv=0, surf='default', rel='shift')))
        T.append((task_map, dict(sshape=(2, 1, 3), tshape=(2, 1, 3), sa=sa, ta=ta, conv=0, surf='sym', rel='resurf')))
        for nvar in (1, 2, 3, 4):
            T.append((task_incon, dict(sshape=(2, 1, 2), tshape=(1, 1, 2), sa=sa, ta=ta, conv=0, surf='default', rel='free', nvar=nvar)))
        T.append((task_incon, dict(sshape=(2, 1, 2), tshape=(2, 1, 2), sa=sa, ta=ta, conv=0, surf='sym', rel='shift', nvar=2)))
        T.append((task_incon, dict(sshape=(2, 1, 2), tshape=(4, 1, 2), sa=sa, ta=ta, conv=0, surf='default', rel='refinex', nvar=3)))
        T.append((task_incon, dict(sshape=(2, 1, 2), tshape=(2, 1, 4), sa=sa, ta=ta, conv=0, surf='default', rel='refinez', nvar=2)))
    for conv in (1, 2, 3):
        for sa, ta in ((0, 0), (1, 1), (0, 1), (1, 0), (2, 0)):
            T.append((task_map, dict(sshape=(2, 1, 2), tshape=(1, 2, 2), sa=sa, ta=ta, conv=conv, surf='default', rel='free')))
            T.append((task_incon, dict(sshape=(2, 1, 2), tshape=(1, 1, 2), sa=sa, ta=ta, conv=conv, surf='default', rel='free', nvar=2)))
    for sa, ta in ((1, 0), (0, 1), (1, 1)):
        T.append((task_map, dict(sshape=(3, 2, 3), tshape=(3, 2, 3), sa=sa, ta=ta, conv=0, surf='default', rel='same')))
        T.append((task_map, dict(sshape=(3, 2, 3), tshape=(3, 2, 3), sa=sa, ta=ta, conv=0, surf='default', rel='shiftz')))
        T.append((task_incon, dict(sshape=(3, 2, 3), tshape=(3, 2, 3), sa=sa, ta=ta, conv=0, surf='default', rel='shiftz', nvar=2)))
    T.append((task_map, dict(sshape=(3, 1, 3), tshape=(2, 1, 2), sa=0, ta=1, conv=0, surf='default', rel='free')))
    T.append((task_map, dict(sshape=(2, 1, 2), tshape=(3, 1, 3), sa=2, ta=0, conv=0, surf='default', rel='free')))
    T.append((task_map, dict(sshape=(2, 2, 3), tshape=(4, 2, 3), sa=1, ta=1, conv=0, surf='default', rel='refinex')))
    T.append((task_map, dict(sshape=(2, 2, 3), tshape=(2, 2, 6), sa=2, ta=1, conv=0, surf='default', rel='refinez')))
    for atm in (0, 1, 2):
        T.append((task_self, dict(shape=(2, 2, 3), atm=atm, conv=0, surf='sym')))
        T.append((task_self, dict(shape=(3, 2, 3), atm=atm, conv=0, surf='default')))
        for conv in (1, 2, 3):
            T.append((task_self, dict(shape=(3, 2, 2), atm=atm, conv=conv, surf='default')))
    T.append((task_self, dict(shape=(3, 1, 3), atm=1, conv=0, surf='sym')))
    for kd in (False, True):
        for sa, ta in ((0, 0), (1, 1), (1, 0), (2, 1)):
            T.append((task_move, dict(sshape=(2, 1, 2), tshape=(2, 1, 2), sa=sa, ta=ta, conv=0, surf='default', rel='same', kdtree=kd)))
        T.append((task_move, dict(sshape=(2, 2, 2), tshape=(2, 2, 2), sa=1, ta=1, conv=0, surf='default', rel='same', kdtree=kd)))
        T.append((task_move, dict(sshape=(2, 1, 2), tshape=(1, 2, 2), sa=0, ta=1, conv=0, surf='default', rel='free', kdtree=kd)))
        T.append((task_move, dict(sshape=(2, 1, 3), tshape=(2, 1, 3), sa=1, ta=1, conv=0, surf='sym', rel='same', kdtree=kd)))
        T.append((task_move, dict(sshape=(3, 1, 2), tshape=(2, 1, 2), sa=1, ta=0, conv=2, surf='default', rel='free', kdtree=kd)))
    for factor, which, shape, conv, sa, ta in ((2, 'all', (2, 1, 2), 0, 1, 1), (3, 'all', (2, 1, 2), 0, 0, 2), (2, 'top', (2, 1, 3), 1, 2, 1),
                                              (2, 'bottom', (2, 1, 2), 2, 1, 0), (3, 'top', (1, 1, 2), 2, 2, 0), (2, 'mid', (1, 2, 3), 0, 0, 0),
                                              (2, 'all', (1, 2, 2), 3, 2, 2)):
        T.append((task_refine, dict(shape=shape, sa=sa, ta=ta, conv=conv, factor=factor, which=which)))
    # round 4, side observations
    for sa, ta in combos:
        if sa != ta:
            T.append((task_data, dict(shape=(2, 1, 2), atm=sa, tatm=ta, conv=0, layout='A', preserve=False, rename=False)))
            T.append((task_data, dict(shape=(2, 1, 3), atm=sa, tatm=ta, conv=2, layout='F', preserve=True, rename=True)))
    for sa, ta in ((0, 0), (0, 1), (1, 0), (1, 1), (0, 2), (2, 1)):
        for order in ('reversed', 'rotated'):
            T.append((task_incon, dict(sshape=(2, 1, 2), tshape=(1, 1, 2), sa=sa, ta=ta, conv=0, surf='default', rel='free', nvar=2, order=order)))
    T.append((task_incon, dict(sshape=(2, 1, 2), tshape=(2, 1, 2), sa=0, ta=1, conv=2, surf='sym', rel='shift', nvar=3, order='reversed')))
    for conv, atm in ((0, 0), (0, 1), (0, 2), (3, 0), (1, 1), (1, 2), (2, 0)):
        T.append((task_self, dict(shape=(3, 1, 2), atm=atm, conv=conv, surf='default', chars='ab1')))
    T.append((task_self, dict(shape=(3, 1, 2), atm=1, conv=0, surf='sym', chars='a12')))
    for sa, ta in ((0, 0), (1, 1), (2, 0)):
        T.append((task_map, dict(sshape=(3, 1, 2), tshape=(3, 1, 2), sa=sa, ta=ta, conv=0, surf='default', rel='shift', chars='ab1')))
    T.append((task_map, dict(sshape=(3, 1, 2), tshape=(2, 1, 2), sa=1, ta=1, conv=1, surf='default', rel='free', chars='ab1')))
    for layout in ('F', 'G'):
        for preserve in (False, True):
            for rename in (False, True):
                T.append((task_data, dict(shape=(2, 1, 3), atm=0, conv=0, layout=layout, preserve=preserve, rename=rename)))
        T.append((task_data, dict(shape=(2, 1, 3), atm=1, conv=1, layout=layout, preserve=True, rename=False)))
        T.append((task_data, dict(shape=(2, 1, 3), atm=2, conv=2, layout=layout, preserve=False, rename=True)))
        T.append((task_data, dict(shape=(2, 2, 3), atm=2, conv=0, layout=layout, preserve=True, rename=False)))
    for layout in ('D', 'E'):
        for preserve in (False, True):
            T.append((task_data, dict(shape=(2, 1, 2), atm=0, conv=0, layout=layout, preserve=preserve, rename=False)))
            T.append((task_data, dict(shape=(2, 2, 3), atm=1, conv=0, layout=layout, preserve=preserve, rename=True)))
        T.append((task_data, dict(shape=(2, 1, 3), atm=2, conv=2, layout=layout, preserve=False, rename=False)))
    for layout in ('A', 'B', 'C'):
        for preserve in (False, True):
            for rename in (False, True):
                T.append((task_data, dict(shape=(2, 1, 2), atm=0, conv=0, layout=layout, preserve=preserve, rename=rename)))
            T.append((task_data, dict(shape=(2, 2, 3), atm=1, conv=0, layout=layout, preserve=preserve, rename=False)))
        if layout == 'A':
            T.append((task_data, dict(shape=(3, 1, 3), atm=2, conv=0, layout=layout, preserve=True, rename=False)))
        T.append((task_data, dict(shape=(2, 1, 3), atm=1, conv=2, layout=layout, preserve=False, rename=False)))
        T.append((task_data, dict(shape=(2, 1, 3), atm=0, conv=1, layout=layout, preserve=False, rename=True)))
    return T


def run(tier, seed, rep):
    _load()
    tasks = plan(tier)
    import os
    only = os.environ.get('C19_ONLY')          # development aid: run the tasks of one family only (never exits 0)
    if only: tasks = [t for t in tasks if only in t[0].__name__ + repr(sorted(t[1].items()))]
    # the few long tasks first, so that they do not end up at the tail of the pool
    heavy = lambda t: 0 if t[0] is task_move or (t[0] is task_refine and t[1]['factor'] * t[1]['shape'][0] * t[1]['shape'][1] >= 4) or (t[0] is task_data and t[1]['shape'][0] * t[1]['shape'][1] >= 3) or \
        (t[1].get('sshape', (0, 0, 0))[0] * t[1].get('sshape', (0, 0, 0))[1] >= 6) or \
        (t[0] is task_self and t[1]['surf'] == 'sym') else 1
    tasks.sort(key=heavy)
    if seed:
        import random
        random.Random(seed).shuffle(tasks)
    results = report.run_tasks(tasks)
    rep.add_results(results)
    for r in results:
        if not r.get('error') and not r.get('failures') and not any(k in r.get('outcomes', {}) for k in ('mapped', 'checked')):
            rep.harness_error('%s: no path reached its obligations (vacuous): %r' % (r['name'], r.get('outcomes')))
    fams = {}
    for f, kw in tasks: fams[f.__name__] = fams.get(f.__name__, 0) + 1
    shapes = sorted(set('%s->%s %s' % ('x'.join(map(str, kw['sshape'])), 'x'.join(map(str, kw['tshape'])), kw['rel'])
                        for f, kw in tasks if 'sshape' in kw))
    rep.extra['task_families'] = fams
    rep.bounds += ['rectangular geometry pairs built by the real rectangular(): ' + '; '.join(shapes),
                   'spacings: any positive reals; origins: any reals; column surfaces (mode sym): any real above the bottom of the lowest layer, '
                   'independently per column of both geometries; relation free = all numbers of the two geometries independent, '
                   'shift/shiftz = same spacings + symbolic offset, resurf = same grid with independent surfaces, '
                   'refinex/refinez = every source column/layer cut in two at a symbolic position, same = identical numbers',
                   'atmosphere types: all 3x3 combinations (convention 0), 5 combinations for conventions 1-3',
                   'primary variables: 1..4 per block, every value and porosity symbolic',
                   't2data.transfer_from: identical geometries up to 2x2x3 and 3x1x3, spacings in [1e-3, 1e5], generator layouts A/B/C '
                   '(top/bottom/interior, MASS/HEAT/COM1, constant and tabulated rates, enthalpy tables), preserve_totals and rename on/off']
    rep.bounds += ['move family: block_mapping, sourcegeo.translate(symbolic shift), block_mapping again, obligations on the CURRENT centres; '
                   'run on the fallback branch and on the scipy branch of column_mapping against a contract model of cKDTree']
    rep.bounds += ['refine family (round 4): one copy of a geometry (symbolic spacings, origin, per-column surfaces) is refined in place by the REAL '
                   'refine_layers (all layers / top / bottom / one interior layer, factor 2 or 3); block list of the refined geometry, '
                   'refined -> original and original -> refined mappings, self-mapping of the refined geometry and t2incon.transfer_from '
                   'refined -> original are checked against the harness\'s own description of the refined layer structure',
                   't2data.transfer_from also between geometries that differ ONLY in their atmosphere type (all 6 unequal combinations); '
                   'layouts F/G: wells whose names are not derived from a column keep their name unless rename_generators is set and are '
                   'then named category + column of their block (exact names are required for every generator)',
                   't2incon.transfer_from with the source blocks stored in the geometry\'s order, reversed, or rotated by one',
                   'names: rectangular(chars=...) with a digit among the characters (column / layer names ending in a digit, block names '
                   'altered by the (a3, i2) rule) for self-mapping and shifted pairs, conventions 0-3']
    rep.assumptions += ['k-d tree contract (move family, kdtree=True only): cKDTree(points) copies the points; query(x) returns the index of a point at '
                        'minimal squared Euclidean distance among them (first on ties); counterexamples from this branch are replayed with the real scipy',
                        'layouts D/E: a top/bottom generator belongs to the column of its BLOCK; when its name carries another column (or no column) '
                        'it is renamed to category + that column (since round 4 this exact name is required)']
    rep.outside += ['the real scipy k-d tree implementation (its contract is modelled in the move family; all other families run the fallback branch)', 'shipped / irregular geometries as inputs',
                    'pairs with more than 6 freely placed columns per geometry (path explosion: 3x2 on 3x2 free exceeds the budget)',
                    't2data.transfer_from between geometries that differ in more than the atmosphere type (also: different naming conventions, '
                    'source grids whose block volumes differ from the geometry\'s), the incon-file branch of t2data.transfer_from, rock-type transfer',
                    'column refinement by the real refine() (refined pairs in x are built by rectangular() from cut spacings)',
                    'independence of the transferred states from the source AFTER the transfer (shared variable lists), the length of the default atmosphere state',
                    'IEEE rounding (exact real arithmetic)', 'ties in nearest column/layer: any nearest one is accepted']
    rep.assumptions += ['every column has at least one layer (surface above the bottom of the lowest layer)',
                        'stub: norm() kept as its square, norms compared through squares (vx/snorm.py); scipy.spatial unimportable',
                        'oracle: column centre = origin + partial sums + half spacing; layer centre likewise; block (l, k) exists iff surface_k > bottom_l; '
                        'names rebuilt from the convention rule in harness/c19_common.py',
                        'atmosphere blocks: source type 0 -> the single source block; types 1 & 1 -> block over the nearest column; '
                        'otherwise no image is required (coordinator decision, matches fix 37ed9e4)',
                        'a top / bottom generator is named category + column of its block after the transfer; every other generator keeps its name '
                        'unless rename_generators is set (docstrings of transfer_from / transfer_generators_from)']
    rep.functions.update(['mulgrids.py:mulgrid.column_mapping', 'mulgrids.py:mulgrid.layer_mapping', 'mulgrids.py:mulgrid.block_mapping',
                          'mulgrids.py:mulgrid.column_surface_layer', 'mulgrids.py:mulgrid.refine_layers', 't2incons.py:t2incon.transfer_from', 't2data.py:t2data.transfer_from',
                          't2data.py:t2data.transfer_generators_from', 't2data.py:t2data.transfer_rocktypes_from'])
    rep.trusted += ['oracle formulas in harness/C19.py, naming rule in harness/c19_common.py']
    if only: rep.harness_error('C19_ONLY=%r: partial plan, development run only' % only)
    rep.process_failures()
    return rep.finish(rule='one obligation per (shape pair, atmosphere combination, convention, path, target block): '
                           'pc AND NOT(oracle relation) must be unsat; distinct = distinct formulas by z3 AST hash per task')
