"""Replay for C15 on the real t2thermo / IAPWS97 modules (floats, no z3).

Independent concrete oracles: the stated ranges written out with the real
sat()/b23p() evaluated in floats; both region classifiers called directly;
separated_steam_fraction called on the real module with tsat/cowat/supst
replaced by the witness' saturation enthalpies (the same stubbing as in the
symbolic run - the algebra and the clamp are the real code)."""
from fractions import Fraction

DELTA = 1.0e4
TC67 = 647.3 - 273.15
PC67 = 22120000.0


def num(x):
    if isinstance(x, dict) and 'frac' in x:
        return float(Fraction(int(x['frac'][0]), int(x['frac'][1])))
    return x


def in_range(T, fn, t, p):
    if fn == 'cowat':
        return 0.01 <= t <= 350.0 and p <= 1.0e8 and p >= T.sat(t)
    if fn == 'supst':
        if not (0.01 <= t <= 800.0 and p >= 0): return False
        if t <= TC67: return p <= T.sat(t)
        if t <= 590.0: return p <= T.b23p(t)
        return p <= 1.0e8
    if fn == 'sat':
        return 0.01 <= t <= TC67
    if fn == 'tsat':
        return T.sat(0.01) <= p <= PC67
    raise ValueError(fn)


def replay(d):
    import t2thermo as T
    import IAPWS97 as I
    kind = d['kind']
    if kind == 'tsat-start':
        # the residual of tsat's solver at its own starting estimate (fsolve itself is outside the claim)
        import scipy.optimize as so
        p = float(num(d['p']))
        real_fsolve = so.fsolve
        seen = {}
        def fs(f, x0, *a, **k):
            seen['x0'] = x0
            seen['f'] = f(x0)
            return x0
        so.fsolve = fs
        try:
            T.tsat(p, True)
        except TypeError as ex:
            return True, 'tsat(%r, bounds=True): residual at the starting estimate %r raises TypeError: %s' % (p, seen.get('x0'), ex)
        finally:
            so.fsolve = real_fsolve
        return False, 'tsat(%r): residual at the starting estimate %r is %r' % (p, seen.get('x0'), seen.get('f'))
    if kind == 'bounds':
        fn = d['fn']
        t = float(num(d['t'])) if 't' in d else None
        p = float(num(d['p'])) if 'p' in d else None
        if d.get('on_curve') == 'sat': p = T.sat(t)
        elif d.get('on_curve') == 'b23p': p = T.b23p(t)
        import scipy.optimize as so
        real_fsolve = so.fsolve
        if fn == 'tsat':
            # fsolve is outside the claim (only the range test is): same stub as in the symbolic run
            so.fsolve = lambda f, x0, *a, **k: x0
        try:
            if fn == 'cowat': r = T.cowat(t, p, True)
            elif fn == 'supst': r = T.supst(t, p, True)
            elif fn == 'sat': r = T.sat(t, True)
            else: r = T.tsat(p, True)
        except Exception as ex:
            inside = in_range(T, fn, t, p)
            return (type(ex).__name__ in d.get('exc', type(ex).__name__) if d['expect'] == 'raises' else inside,
                    '%s(t=%r, p=%r, bounds=True) raises %s: %s (state %s the stated range)' % (fn, t, p, type(ex).__name__, ex, 'inside' if inside else 'outside'))
        finally:
            so.fsolve = real_fsolve
        none = r is None or (isinstance(r, tuple) and all(x is None for x in r))
        inside = in_range(T, fn, t, p)
        msg = '%s(t=%r, p=%r, bounds=True) returns %s; state is %s the stated range' % (fn, t, p, 'None' if none else 'a value', 'inside' if inside else 'outside')
        if d['expect'] == 'raises': return False, msg
        return (none == inside), msg
    if kind == 'region':
        t, p = float(num(d['t'])), float(num(d['p']))
        r67, r97 = T.region(t, p), I.region(t, p)
        pre = (t <= 350.0 or t > TC67)
        dist = []
        if 0.01 <= t <= 350.0: dist = [abs(p - T.sat(t)), abs(p - I.sat(t))]
        elif TC67 < t <= 590.0: dist = [abs(p - T.b23p(t)), abs(p - I.b23p(t))]
        pre = pre and all(x > DELTA for x in dist)
        return (pre and r67 != r97, 't2thermo.region(%r, %r) = %r, IAPWS97.region = %r; distances to the curves %r (DELTA = %g)' % (t, p, r67, r97, dist, DELTA))
    if kind == 'b23diff':
        t = float(num(d['t']))
        diff = abs(T.b23p(t) - I.b23p(t))
        return (diff >= DELTA, '|b23p67 - b23p97| = %g Pa at t = %r' % (diff, t))
    if kind == 'steam_fraction':
        n = int(d['stages'])
        P = [float(num(d['p%d' % (k + 1)])) for k in range(n)]
        HL = [float(num(d['hl%d' % (k + 1)])) for k in range(n)]
        HS = [float(num(d['hs%d' % (k + 1)])) for k in range(n)]
        ha, hb = float(num(d['h_a'])), float(num(d['h_b']))
        if n == 2 and P[0] == P[1]: P[1] = P[1] * (1 + 1e-12)
        def stub(table):
            def f(t, p, *a, **k):
                return (1.0, table[P.index(p)] - p)
            return f
        old = (T.tsat, T.cowat, T.supst)
        T.tsat = lambda p, *a, **k: 100.0
        T.cowat, T.supst = stub(HL), stub(HS)
        try:
            fa = T.separated_steam_fraction(ha, *P)
            fb = T.separated_steam_fraction(hb, *P)
        except Exception as ex:
            return True, 'separated_steam_fraction raises %s: %s' % (type(ex).__name__, ex)
        finally:
            T.tsat, T.cowat, T.supst = old
        msg = 'stages=%d hl=%r hs=%r: f(%r) = %r, f(%r) = %r' % (n, HL, HS, ha, fa, hb, fb)
        if d['check'] == 'outside-0-1':
            return (not (0.0 <= fa <= 1.0), msg)
        return (ha <= hb and fa > fb, msg)
    return False, 'unknown replay kind %r' % kind
