"""Replay for C11 (and the plan-view part of C10): rebuild the mesh family with
the witness numbers on the REAL mulgrids module, run the same edits, and
evaluate the failed clause with an independent concrete oracle (exact rational
arithmetic on the float coordinates the real code produced).  No z3 here."""
import os
import sys
from fractions import Fraction

sys.path.insert(0, os.path.dirname(os.path.abspath(__file__)))
import c11_common as CC


def num(x):
    if isinstance(x, dict) and 'frac' in x:
        return float(Fraction(int(x['frac'][0]), int(x['frac'][1])))
    if isinstance(x, list): return [num(v) for v in x]
    return x


class ConcEnv(object):
    def __init__(self, values): self.v = {k: num(v) for k, v in values.items()}
    def pos(self, n): return float(self.v[n])
    def free(self, n): return float(self.v.get(n, 0.0))
    def between(self, n, lo, hi): return float(self.v[n])
    def diamond(self, a, b): return float(self.v[a]), float(self.v[b])
    def quadfam(self, a, b): return float(self.v[a]), float(self.v[b])


def F(x): return Fraction(float(x))
def poly_of(col): return [(F(n.pos[0]), F(n.pos[1])) for n in col.node]
def cross(a, b, p): return (b[0] - a[0]) * (p[1] - a[1]) - (b[1] - a[1]) * (p[0] - a[0])
def shoelace(poly):
    n = len(poly)
    return sum(poly[i][0] * poly[(i + 1) % n][1] - poly[(i + 1) % n][0] * poly[i][1] for i in range(n)) / 2
def inside(p, poly): return all(cross(poly[i], poly[(i + 1) % len(poly)], p) > 0 for i in range(len(poly)))
def inside_closed(p, poly, tol=0): return all(cross(poly[i], poly[(i + 1) % len(poly)], p) >= -tol for i in range(len(poly)))


class NoMatch(Exception):
    pass


def find_column(geo, verts):
    """the column whose vertices are (up to rounding) the witness vertices"""
    verts = [(float(x), float(y)) for x, y in num(verts)]
    scale = max([1.0] + [abs(v) for xy in verts for v in xy])
    best = None
    for col in geo.columnlist:
        if col.num_nodes != len(verts): continue
        pts = [(float(n.pos[0]), float(n.pos[1])) for n in col.node]
        for sh in range(len(pts)):
            d = max(max(abs(pts[(i + sh) % len(pts)][0] - verts[i][0]), abs(pts[(i + sh) % len(pts)][1] - verts[i][1])) for i in range(len(pts)))
            if best is None or d < best[0]: best = (d, col)
    if best is None or best[0] > 1e-6 * scale:
        raise NoMatch('no column matches witness vertices %r (best %r)' % (verts, best and best[0]))
    return best[1]


def resolve(geo, step):
    op = step['op']
    if op == 'refine':
        return dict(op='refine', cols=[find_column(geo, v).name for v in step['cols']], bisect=step.get('bisect', False),
                    edge=[find_column(geo, v).name for v in step.get('edge', [])])
    if op == 'split':
        col = find_column(geo, step['col'])
        pn = num(step['node'])
        nd = min(col.node, key=lambda n: abs(float(n.pos[0]) - pn[0]) + abs(float(n.pos[1]) - pn[1]))
        return dict(op='split', col=col.name, node=nd.name)
    if op in ('triangulate', 'decompose_one'):
        return dict(op=op, col=find_column(geo, step['col']).name)
    if op == 'decompose':
        return dict(op='decompose', cols=[find_column(geo, v).name for v in step['cols']])
    if op == 'refine_layers':
        return dict(op='refine_layers', layers=[geo.layerlist[i].name for i in step['layers']], factor=step['factor'])
    raise ValueError(op)


def real_volume(geo):
    tot, n = 0.0, 0
    for lay in geo.layerlist[1:]:
        for col in geo.columnlist:
            if geo.block_name(lay.name, col.name) in geo.block_name_index:
                v = geo.block_volume(lay, col)
                if v is None: return None, n
                tot += float(v); n += 1
    return tot, n


def column_volume(geo, col):
    tot = 0.0
    for lay in geo.layerlist[1:]:
        if geo.block_name(lay.name, col.name) in geo.block_name_index:
            v = geo.block_volume(lay, col)
            if v is not None: tot += float(v)
    return tot


def snapshot(geo):
    return [dict(name=c.name, poly=poly_of(c), surf=c.surface, nl=c.num_layers, area=float(c.area), obj=c) for c in geo.columnlist]


def run_steps(d):
    import mulgrids as M
    fam = d['family']
    geo = CC.build(M, fam, ConcEnv(d['values']))
    before = vol0 = None
    steps = d['steps']
    for si, st in enumerate(steps):
        cs = resolve(geo, st)
        if si == len(steps) - 1:
            before = snapshot(geo)
            vol0, _ = real_volume(geo)
            layers0 = [(float(l.bottom), float(l.top), l.name) for l in geo.layerlist]
            colvol0 = [column_volume(geo, c) for c in geo.columnlist]
        ret = CC.apply_step(M, geo, cs)
        if cs['op'] in ('triangulate', 'subdivide', 'decompose_one'):
            geo.setup_block_name_index(); geo.setup_block_connection_name_index()
    return M, geo, before, vol0, layers0, colvol0


def connection_defects(geo):
    bad = []
    def sides(col):
        n = len(col.node)
        return set(frozenset((col.node[i].name, col.node[(i + 1) % n].name)) for i in range(n))
    cols = geo.columnlist
    side = [sides(c) for c in cols]
    conn = {}
    for con in geo.connectionlist: conn[frozenset(c.name for c in con.column)] = con
    for i in range(len(cols)):
        for j in range(i + 1, len(cols)):
            shared = side[i] & side[j]
            key = frozenset((cols[i].name, cols[j].name))
            if shared and key not in conn: bad.append('missing connection %s' % sorted(key))
            if not shared and key in conn: bad.append('extra connection %s' % sorted(key))
            if shared and key in conn and (conn[key].node is None or frozenset(n.name for n in conn[key].node) not in shared):
                bad.append('connection %s does not carry the shared edge' % sorted(key))
    return bad


def replay(d):
    kind = d['ob']
    try:
        M, geo, before, vol0, layers0, colvol0 = run_steps(d)
    except NoMatch as ex:
        return False, 'could not map the witness onto the real geometry: %s' % ex
    except Exception as ex:
        if kind.startswith('raises-'):
            return type(ex).__name__ == d.get('exception'), 'the edit raises %s: %s' % (type(ex).__name__, ex)
        raise
    if kind.startswith('raises-'): return False, 'the edit does not raise'
    after = snapshot(geo)
    scale_a = max(1e-300, sum(abs(s['area']) for s in before))
    rel = 1e-9
    if kind == 'degenerate':
        import math
        bad = [s['name'] for s in after if abs(s['area']) <= 1e-12 * scale_a or not all(math.isfinite(float(v)) for v in s['obj'].centre)]
        return bool(bad), 'columns with zero area / non-finite centre after the edit: %r' % bad
    if kind == 'total-area':
        a0, a1 = sum(s['area'] for s in before), float(geo.area)
        return abs(a1 - a0) > rel * scale_a, 'mulgrid.area before %.12g, after %.12g' % (a0, a1)
    if kind == 'polygon-area':
        a0, a1 = sum(shoelace(s['poly']) for s in before), sum(shoelace(s['poly']) for s in after)
        return abs(float(a1 - a0)) > rel * scale_a, 'polygon area before %.12g, after %.12g' % (float(a0), float(a1))
    if kind == 'total-volume':
        v1, n = real_volume(geo)
        if v1 is None: return True, 'a listed block has no volume'
        return abs(v1 - vol0) > rel * max(abs(vol0), 1e-300), 'rock volume before %.12g, after %.12g (%d blocks)' % (vol0, v1, n)
    if kind == 'volume-oracle':
        v1, n = real_volume(geo)
        zn = float(geo.layerlist[-1].bottom)
        vo = sum(float(shoelace(s['poly'])) * max(0.0, float(s['surf']) - zn) for s in after if s['surf'] is not None)
        return v1 is None or abs(v1 - vo) > rel * max(abs(vo), 1e-300), 'real block volumes %r, area x height %.12g' % (v1, vo)
    if kind == 'stored-area':
        bad = [(s['name'], s['area'], float(shoelace(s['poly']))) for s in after
               if abs(s['area'] - float(shoelace(s['poly']))) > rel * scale_a or s['area'] <= 0]
        return bool(bad), 'columns whose stored area differs from their polygon (name, stored, polygon): %r' % bad[:4]
    if kind == 'convex':
        bad = [s['name'] for s in after if any(cross(s['poly'][i], s['poly'][(i + 1) % len(s['poly'])], s['poly'][(i + 2) % len(s['poly'])]) < 0
                                                for i in range(len(s['poly'])))]
        return bool(bad), 'columns that are not convex / counter-clockwise: %r' % bad[:6]
    if kind == 'disjoint':
        p = tuple(Fraction(v) for v in num(d['p']))
        hit = [s['name'] for s in after if inside(p, s['poly']) and abs(s['area']) > 0]
        return len(hit) > 1, 'point %r is strictly inside columns %r' % (num(d['p']), hit)
    if kind in ('cover', 'cover-area'):
        if kind == 'cover':
            p = tuple(Fraction(v) for v in num(d['p']))
            old = [(Fraction(x), Fraction(y)) for x, y in num(d['old'])]
            hit = [s['name'] for s in after if inside_closed(p, s['poly'])]
            oldk = [s for s in before if inside(p, s['poly'])]
            return bool(oldk) and not hit, 'point %r inside old column %r lies in the closure of %r' % (num(d['p']), [s['name'] for s in oldk], hit)
        old = [(float(x), float(y)) for x, y in num(d['old'])]
        k = min(before, key=lambda s: sum(abs(float(a[0]) - b[0]) + abs(float(a[1]) - b[1]) for a, b in zip(s['poly'], old)) if len(s['poly']) == len(old) else 1e300)
        tol = Fraction(1, 10 ** 9) * max(1, int(scale_a))
        inner = [s for s in after if all(inside_closed(v, k['poly'], tol) for v in s['poly'])]
        a = sum(float(shoelace(s['poly'])) for s in inner)
        return abs(a - float(shoelace(k['poly']))) > 1e-7 * scale_a, 'old column %s has area %.12g, the %d columns inside it %.12g' % (k['name'], float(shoelace(k['poly'])), len(inner), a)
    if kind == 'inside-old':
        if 'p' not in d:
            return False, 'inheritance of an untouched column: no witness point'
        p = tuple(Fraction(v) for v in num(d['p']))
        tol = Fraction(1, 10 ** 9) * max(1, int(scale_a))
        for k in before:
            if not inside(p, k['poly']): continue
            for s in after:
                if not inside(p, s['poly']): continue
                out = [v for v in s['poly'] if not inside_closed(v, k['poly'], tol)]
                if out: return True, 'column %s contains the point %r of old column %s but has a vertex outside it' % (s['name'], num(d['p']), k['name'])
                if k['surf'] is not None and (s['surf'] is None or float(s['surf']) != float(k['surf'])):
                    return True, 'column %s inside old column %s has surface %r instead of %r' % (s['name'], k['name'], s['surf'], k['surf'])
        return False, 'the column containing the point lies inside the old one and has its surface'
    if kind == 'conformity':
        nodes = [(n.name, (F(n.pos[0]), F(n.pos[1]))) for n in geo.nodelist]
        for s in after:
            if len(s['poly']) < 3 or len(set(n.name for n in s['obj'].node)) != len(s['poly']):
                return True, 'column %s has fewer than 3 distinct nodes' % s['name']
            names = [n.name for n in s['obj'].node]
            for i in range(len(names)):
                a, b = s['poly'][i], s['poly'][(i + 1) % len(names)]
                l2 = (b[0] - a[0]) ** 2 + (b[1] - a[1]) ** 2
                for nm, m in nodes:
                    if nm in (names[i], names[(i + 1) % len(names)]): continue
                    dd = (m[0] - a[0]) * (b[0] - a[0]) + (m[1] - a[1]) * (b[1] - a[1])
                    if abs(cross(a, b, m)) <= Fraction(1, 10 ** 10) * l2 and 0 < dd < l2:
                        return True, 'node %s lies in the open interior of edge %s-%s of column %s' % (nm, names[i], names[(i + 1) % len(names)], s['name'])
        return False, 'no hanging node'
    if kind == 'connections':
        bad = connection_defects(geo)
        return bool(bad), 'connection defects: %r' % bad[:5]
    if kind == 'saved-names':
        import tempfile
        fd, fn = tempfile.mkstemp(suffix='.dat'); os.close(fd)
        try:
            geo.write(fn)
            g2 = M.mulgrid(fn)
        finally:
            os.remove(fn)
        a1, a2 = float(geo.area), float(sum(abs(float(shoelace(poly_of(c)))) for c in g2.columnlist))
        lost = geo.num_columns != g2.num_columns or geo.num_nodes != g2.num_nodes or abs(a1 - a2) > 1e-6 * scale_a
        return lost, 'edited geometry: %d columns, %d nodes, area %.10g; written and read back: %d columns, %d nodes, area %.10g' % (
            geo.num_columns, geo.num_nodes, a1, g2.num_columns, g2.num_nodes, a2)
    if kind.startswith('layers-'):
        return replay_layers(d, kind, geo, before, after, layers0, colvol0)
    return False, 'unknown obligation kind %r' % kind


def replay_layers(d, kind, geo, before, after, old, colvol0):
    new = [(float(l.bottom), float(l.top), l.name, float(l.centre)) for l in geo.layerlist]
    st = d['steps'][-1]
    sel = set(st['layers']) if st['layers'] else set(range(len(old)))
    f = st['factor']
    span = max(1e-300, abs(old[0][0] - old[-1][0]))
    tol = 1e-9 * span
    if kind == 'layers-count':
        exp = 1 + sum(f if i in sel else 1 for i in range(1, len(old)))
        return len(new) != exp, '%d layers expected, %d found' % (exp, len(new))
    if kind == 'layers-atmosphere':
        return (new[0][2] != old[0][2] and old[0][2] not in [n[2] for n in new[1:]]) or abs(new[0][0] - old[0][0]) > tol, 'atmosphere layer %r -> %r' % (old[0], new[0])
    if kind == 'layers-names':
        return len(set(n[2] for n in new)) != len(new) or len(geo.layer) != len(new), 'layer names %r' % [n[2] for n in new]
    if kind == 'layers-chain':
        bad = [i for i in range(1, len(new)) if abs(new[i][1] - new[i - 1][0]) > tol or not new[i][0] < new[i][1] or abs(2 * new[i][3] - new[i][0] - new[i][1]) > tol]
        return bool(bad), 'layers out of chain: %r' % bad
    if kind in ('layers-cover', 'layers-inside'):
        z = num(d['z'])
        ink = [k for k in range(1, len(old)) if old[k][0] < z < old[k][1]]
        inn = [n for n in new[1:] if n[0] < z < n[1]]
        if not ink or any(z == n[0] for n in new): return False, 'witness elevation not strictly inside an old layer'
        if kind == 'layers-cover': return len(inn) != 1, 'elevation %r is in %d new layers' % (z, len(inn))
        k = ink[0]
        return any(n[0] < old[k][0] - tol or n[1] > old[k][1] + tol for n in inn), 'new layer(s) %r against old layer %r' % (inn, old[k])
    if kind == 'layers-equal':
        pos = 1
        for k in range(1, len(old)):
            ff = f if k in sel else 1
            for g in new[pos:pos + ff]:
                if abs((g[1] - g[0]) - (old[k][1] - old[k][0]) / ff) > tol: return True, 'old layer %d is not split evenly: %r' % (k, new[pos:pos + ff])
            pos += ff
        return False, 'even'
    if kind == 'layers-num_layers':
        bad = [(s['name'], s['nl']) for s in after if s['nl'] != sum(1 for n in new[1:] if n[0] < float(s['surf']))]
        return bool(bad), 'columns with the wrong num_layers: %r' % bad[:5]
    if kind == 'layers-surface':
        bad = [s1['name'] for s0, s1 in zip(before, after) if float(s0['surf']) != float(s1['surf'])]
        return bool(bad), 'columns whose surface changed: %r' % bad
    if kind == 'layers-volume':
        bad = []
        for i, col in enumerate(geo.columnlist):
            v = column_volume(geo, col)
            if abs(v - colvol0[i]) > 1e-9 * max(abs(colvol0[i]), 1e-300) and abs(v - colvol0[i]) > 1e-300: bad.append((col.name, colvol0[i], v))
        return bool(bad), 'column rock volumes (name, before, after): %r' % bad[:4]
    return False, 'unknown layer obligation %r' % kind
