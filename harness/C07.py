"""C07 - what a listing shows at a given time does not depend on navigation
(arithmetic kernel only).

The REAL t2listing.set_index / get_index / set_time / set_step / first / last /
next / prev (reloaded from /repo) run on a t2listing object made with __new__
(no file): fulltimes / fullsteps are object arrays of n strictly increasing
symbolic times / steps, _fullpos are concrete distinct offsets, _file is a
stub that records seek(), read_tables is a stub that records the offset it
was entered at and sets _time / _step to the header values of that offset.
The current _index is symbolic in [0, n).

One inductive step per action: from ANY position k0 the action leaves the
object in the state 'positioned directly at index k' (reported index k,
exactly one read_tables, entered at _fullpos[k], reported time/step those of
k), where k is what the property prescribes for the action.
"""
import types
import numpy as np
import z3
from vx import sym, strs, loader, report
from vx.sym import SInt, SReal, SBool

PID = 'C07'

_LD = None
def _load():
    global _LD
    if _LD is None:
        _LD = loader.load(['t2listing'])
    return _LD


class FileStub(object):
    def __init__(self, log): self.log = log; self.pos = None
    def seek(self, pos, *a):
        self.pos = pos
        self.log.append(('seek', pos))
    def tell(self): return self.pos


def make_listing(c, T, n, cls='t2listing', shared=None, k0name='k0'):
    """a listing object 'positioned directly at k0' with k0 symbolic."""
    lst = getattr(T, cls).__new__(getattr(T, cls))
    lst._table = {}           # (no tables in the kernel tier unless attach_tables() adds some)
    if shared is None:
        times = [c.real('t%d' % k) for k in range(n)]
        steps = [c.int('s%d' % k) for k in range(n)]
        c.add(times[0].e >= 0); c.add(steps[0].e >= 0)
        for a, b in zip(times, times[1:]): c.add(a.e < b.e)
        for a, b in zip(steps, steps[1:]): c.add(a.e < b.e)
    else:
        times, steps = shared
    fullpos = [1000 + 137 * k * k + 61 * k for k in range(n)]       # concrete, distinct, increasing
    log = []
    lst._file = FileStub(log)
    ta = np.empty(n, dtype=object); sa = np.empty(n, dtype=object)
    for k in range(n): ta[k] = times[k]; sa[k] = steps[k]
    if cls == 't2listing':
        lst.fulltimes, lst.fullsteps, lst._fullpos = ta, sa, fullpos
        # an AUTOUGH2 listing with short output has MORE output times than full result
        # sets: `times`/`steps`/`_pos` hold n + 2 entries (two short-output times after the
        # first full one), so code that mixes up the two counts is observable
        xt = [c.real('xt%d' % j) for j in range(2)]; xs = [c.int('xs%d' % j) for j in range(2)]
        lo_t, hi_t = times[0].e, (times[1].e if n > 1 else times[0].e + 1000)
        lo_s, hi_s = steps[0].e, (steps[1].e if n > 1 else steps[0].e + 1000)
        c.add(lo_t < xt[0].e); c.add(xt[0].e < xt[1].e); c.add(xt[1].e < hi_t)
        c.add(lo_s < xs[0].e); c.add(xs[0].e < xs[1].e); c.add(xs[1].e < hi_s)
        tl = [times[0]] + xt + list(times[1:]); sl = [steps[0]] + xs + list(steps[1:])
        ta2 = np.empty(n + 2, dtype=object); sa2 = np.empty(n + 2, dtype=object)
        for k in range(n + 2): ta2[k] = tl[k]; sa2[k] = sl[k]
        lst.times, lst.steps = ta2, sa2
        lst._pos = [fullpos[0], fullpos[0] + 11, fullpos[0] + 23] + fullpos[1:]
        def read_tables():
            pos = lst._file.pos
            log.append(('read', pos))
            if pos in fullpos:        # header of the result set that starts here
                lst._time = times[fullpos.index(pos)]; lst._step = steps[fullpos.index(pos)]
            else:
                lst._time = lst._step = None
        lst.read_tables = read_tables
    else:       # toughreact_tecplot: same kernel over times/_pos/read_table
        lst.times, lst._pos = ta, fullpos
        def read_table():
            log.append(('read', lst._file.pos))
        lst.read_table = read_table
    k0 = c.int(k0name, 0, n - 1)
    lst._index = k0
    # 'positioned directly at k0': the header values of k0 are the reported time/step
    lst._time = SReal(select(k0.e, [t.e for t in times])); lst._step = SInt(select(k0.e, [s.e for s in steps]))
    return lst, times, steps, fullpos, log, k0


def select(idx, xs):
    """z3 term xs[idx] for a z3 Int idx known to be in range."""
    e = xs[-1]
    for k in range(len(xs) - 2, -1, -1): e = z3.If(idx == k, xs[k], e)
    return e


ACTIONS = ('index', 'first', 'last', 'next', 'prev', 'time', 'step', 'badhist')
BADHIST_VARIANTS = ('unknown-block', 'unknown-connection', 'two-invalid', 'unknown-table-letter', 'table-not-in-listing')


def _name(c, base):
    from vx.strs import SStr, SChar
    cells = []
    for k in range(5):
        e = z3.Int('%s.%d' % (base, k)); c.add(z3.And(e >= 32, e <= 126)); cells.append(SChar(e))
    return SStr(cells)


def _neq(a, b):
    r = (a == b)
    return z3.Not(r.e) if isinstance(r, SBool) else z3.BoolVal(not r)


def attach_tables(c, T, lst, tag=''):
    """What history() looks at before it touches the file: `_table` (real
    listingtable objects: element table with two symbolic row names,
    connection table with one symbolic pair), `short_types`, `short_indices`."""
    if getattr(lst, '_c07_rows', None) is not None: return lst._c07_rows
    r0, r1, ca, cb = _name(c, tag + 'r0'), _name(c, tag + 'r1'), _name(c, tag + 'ca'), _name(c, tag + 'cb')
    c.add(_neq(r0, r1))
    lst._table = {'element': T.listingtable(['P', 'T'], [r0, r1]),
                  'connection': T.listingtable(['FLOW'], [(ca, cb)], num_keys=2, allow_reverse_keys=True)}
    lst.short_types = ['ESHORT']
    lst.short_indices = {'ESHORT': {0: 0}}
    lst._c07_rows = (r0, r1, ca, cb)
    return lst._c07_rows


def bad_selection(c, T, lst, variant, tag=''):
    """a history selection in which every specification is invalid; the
    names asked for are symbolic, constrained only to be absent from the tables"""
    r0, r1, ca, cb = attach_tables(c, T, lst)
    if variant in ('unknown-block', 'two-invalid'):
        key = _name(c, tag + 'key'); c.add(_neq(key, r0)); c.add(_neq(key, r1))
    if variant in ('unknown-connection', 'two-invalid'):
        ka, kb = _name(c, tag + 'ka'), _name(c, tag + 'kb')
        both = lambda x, y: z3.And(z3.Not(_neq(x, ca)), z3.Not(_neq(y, cb)))
        c.add(z3.Not(both(ka, kb))); c.add(z3.Not(both(kb, ka)))
    if variant == 'unknown-block': return ('e', key, 'P'), [key]
    if variant == 'unknown-connection': return ('c', (ka, kb), 'FLOW'), [ka, kb]
    if variant == 'two-invalid': return [('e', key, 'T'), ('c', (ka, kb), 'FLOW')], [key, ka, kb]
    if variant == 'unknown-table-letter': return ('x', r0, 'P'), [r0]
    if variant == 'table-not-in-listing': return ('g', (r0, r1), 'P'), [r0, r1]
    raise ValueError(variant)


def _text(m, s):
    return ''.join(x if isinstance(x, str) else chr(sym.model_value(m, x.code)) for x in s.cells)


def task_action(action, n, cls='t2listing', variant=None):
    T = _load().t2listing
    name = '%s/%s%s/n%d' % (cls, action, '-' + variant if variant else '', n)
    failures, samples, distinct = [], [], set()
    reached = [0]

    def h(c):
        lst, times, steps, fullpos, log, k0 = make_listing(c, T, n, cls)
        te = [t.e for t in times]; se = [s.e for s in steps]
        arg = None
        moved = None
        raised = None
        names = []
        result = 'n/a'
        try:
            if action == 'badhist':
                sel, names = bad_selection(c, T, lst, variant)
                rows = attach_tables(c, T, lst)
                result = lst.history(sel)
            elif action == 'index':
                arg = c.int('i', -n, n - 1)
                lst.index = arg
            elif action == 'first': lst.first()
            elif action == 'last': lst.last()
            elif action == 'next': moved = lst.next()
            elif action == 'prev': moved = lst.prev()
            elif action == 'time':
                arg = c.real('t')
                lst.time = arg
            elif action == 'step':
                arg = c.int('s')
                lst.step = arg
        except Exception as ex:
            raised = ex
        def rp(m):
            d = dict(cls=cls, action=action, n=n, k0=sym.model_value(m, k0.e),
                     times=[sym.model_value(m, x) for x in te], steps=[sym.model_value(m, x) for x in se])
            if arg is not None: d['arg'] = sym.model_value(m, arg.e)
            if action == 'badhist':
                d['variant'] = variant; d['rows'] = [_text(m, x) for x in attach_tables(c, T, lst)]; d['names'] = [_text(m, x) for x in names]
            return d
        def prove(f, label, what):
            if isinstance(f, SBool): f = f.e
            if isinstance(f, bool): f = z3.BoolVal(f)
            reached[0] += 1
            sf = z3.simplify(f)
            if not (z3.is_true(sf) or z3.is_false(sf)): distinct.add((label, sf.hash()))
            r = c.prove(f, label)
            if r == 'sat':
                failures.append(dict(key='%s/%s%s/%s' % (cls, action, '-' + variant if variant else '', label), what='%s n=%d: %s' % (action, n, what),
                                     replay=rp(c.failures[-1]['model'])))
            return r
        if raised is not None:
            prove(False, 'no-exception', 'raised %s: %s' % (type(raised).__name__, raised))
            return 'raised'
        idx = lst.index
        ie = idx.e if isinstance(idx, SInt) else z3.IntVal(int(idx))
        # what the property prescribes
        if action == 'index': want = z3.If(arg.e < 0, arg.e + n, arg.e)
        elif action == 'first': want = z3.IntVal(0)
        elif action == 'last': want = z3.IntVal(n - 1)
        elif action == 'next': want = z3.If(k0.e < n - 1, k0.e + 1, k0.e)
        elif action == 'prev': want = z3.If(k0.e > 0, k0.e - 1, k0.e)
        elif action == 'badhist': want = k0.e
        else: want = None
        if action == 'badhist':
            prove(result is None, 'returns-none', 'history() with only invalid specifications returned %r' % (result,))
        prove(z3.And(ie >= 0, ie < n), 'index-in-range', 'reported index outside [0, n)')
        if want is not None:
            prove(ie == want, 'reported-index', 'reported index is not the one the action prescribes')
        if action in ('next', 'prev'):
            mv = moved.e if isinstance(moved, SBool) else z3.BoolVal(bool(moved))
            should = (k0.e < n - 1) if action == 'next' else (k0.e > 0)
            prove(mv == should, 'reports-whether-moved', 'return value does not say whether the position changed')
            prove(mv == (ie != k0.e), 'moved-iff-index-changed', 'return value disagrees with the change of the reported index')
        if action in ('time', 'step'):
            xs = te if action == 'time' else [z3.ToReal(x) for x in se]
            a = arg.e if action == 'time' else z3.ToReal(arg.e)
            dist = lambda x: z3.If(x - a >= 0, x - a, a - x)
            dsel = dist(select(ie, xs))
            prove(z3.And(*[dsel <= dist(x) for x in xs]), 'nearest', 'selected result set is not the nearest one')
            prove(z3.And(*[z3.Implies(ie > k, dist(xs[k]) > dsel) for k in range(n)]), 'first-of-nearest',
                  'on a tie the later result set was selected')
            prove(z3.Implies(a < xs[0], ie == 0), 'before-first', 'a value before the first result set does not select index 0')
            prove(z3.Implies(a > xs[-1], ie == n - 1), 'after-last', 'a value after the last result set does not select the last index')
            prove(z3.And(*[z3.Implies(a == xs[k], ie == k) for k in range(n)]), 'exact', 'an exact time/step does not select its own result set')
        # reading: navigation that changes nothing may skip the read (next at the end, prev at the start)
        reads = [x for x in log if x[0] == 'read']
        seeks = [x for x in log if x[0] == 'seek']
        if action == 'badhist':
            prove(not reads and not seeks, 'no-seek-no-read', 'a history request that extracts nothing moved the file offset or re-read the tables: %r' % (log[:4],))
            prove(isinstance(lst.time, SReal) and isinstance(lst.step, SInt) and
                  z3.And(lst.time.e == select(k0.e, te), lst.step.e == select(k0.e, se)), 'reported-time-step',
                  'reported time/step are no longer those of the position before the request')
        elif action in ('next', 'prev') and not reads:
            prove(ie == k0.e, 'no-read-only-when-not-moved', 'position changed without reading the tables')
            prove(not seeks, 'no-seek-when-not-moved', 'file offset moved without reading the tables')
            if cls == 't2listing':
                prove(z3.And(lst.time.e == select(ie, te), lst.step.e == select(ie, se)), 'reported-time-step',
                      'reported time/step are not those of the reported index')
        else:
            prove(len(reads) == 1, 'one-read', 'tables read %d times' % len(reads))
            if reads:
                prove(select(ie, [z3.IntVal(p) for p in fullpos]) == reads[-1][1], 'read-at-offset-of-index',
                      'tables were read at an offset that is not the start of the reported result set')
                prove(bool(log) and log[-1][0] == 'read', 'read-is-last', 'file offset moved again after the tables were read')
                if cls == 't2listing':
                    tm, st = lst.time, lst.step
                    prove(isinstance(tm, SReal) and isinstance(st, SInt), 'header-read', 'time/step not those of a result-set header')
                    if isinstance(tm, SReal) and isinstance(st, SInt):
                        prove(z3.And(tm.e == select(ie, te), st.e == select(ie, se)), 'reported-time-step',
                              'reported time/step are not those of the reported index')
                else:
                    tm = lst.time
                    prove(isinstance(tm, SReal) and tm.e == select(ie, te), 'reported-time', 'reported time is not that of the reported index')
        if len(samples) < 1 and action in ('time', 'next'):
            samples.append(dict(task=name, pc=[str(x)[:80] for x in c.pc[-3:]], reported_index=str(ie)[:80], log=[list(x) for x in log]))
        return 'done:%s' % ('read' if reads else 'no-read')

    res = sym.explore(h, sym.Ctx(timeout_ms=60000), max_paths=20000)
    tr = report.summarize(name, res, failures, samples, extra=dict(distinct_obligations=len(distinct), obligations_reached=reached[0]))
    if reached[0] == 0 and not tr.get('error'): tr['error'] = 'vacuous: no obligation reached'
    return tr


def _do(lst, action, arg):
    if action == 'index': lst.index = arg
    elif action == 'first': lst.first()
    elif action == 'last': lst.last()
    elif action == 'next': return lst.next()
    elif action == 'prev': return lst.prev()
    elif action == 'time': lst.time = arg
    elif action == 'step': lst.step = arg
    elif action == 'badhist': return lst.history(arg)


def task_sequence(actions, n):
    """The statement itself for short histories: after the actions, index,
    time, step and the offset the tables were last read at are those of a
    second object (any position) on which only `index = k` was executed."""
    T = _load().t2listing
    name = 'sequence/%s/n%d' % ('+'.join(actions), n)
    failures, samples, distinct = [], [], set()
    reached = [0]

    def h(c):
        lst, times, steps, fullpos, log, k0 = make_listing(c, T, n)
        args = []
        hnames = {}
        for q, a in enumerate(actions):
            if a == 'badhist':
                sel, nm = bad_selection(c, T, lst, 'unknown-block', tag='q%d' % q)
                args.append(sel); hnames[q] = nm
                continue
            args.append(c.int('i%d' % q, -n, n - 1) if a == 'index' else c.real('t%d_' % q) if a == 'time' else
                        c.int('s%d_' % q) if a == 'step' else None)
        def rp(m):
            d = dict(cls='t2listing', sequence=list(actions), n=n, k0=sym.model_value(m, k0.e),
                     times=[sym.model_value(m, x.e) for x in times], steps=[sym.model_value(m, x.e) for x in steps],
                     args=[None if a is None else dict(names=[_text(m, x) for x in hnames[q]]) if q in hnames else sym.model_value(m, a.e)
                           for q, a in enumerate(args)])
            if hnames: d['rows'] = [_text(m, x) for x in attach_tables(c, T, lst)]
            return d
        def prove(f, label, what):
            if isinstance(f, SBool): f = f.e
            if isinstance(f, bool): f = z3.BoolVal(f)
            reached[0] += 1
            sf = z3.simplify(f)
            if not (z3.is_true(sf) or z3.is_false(sf)): distinct.add((label, sf.hash()))
            if c.prove(f, label) == 'sat':
                failures.append(dict(key='sequence/%s/%s' % ('+'.join(actions), label), what='%s n=%d: %s' % ('+'.join(actions), n, what),
                                     replay=rp(c.failures[-1]['model'])))
        try:
            for a, x in zip(actions, args): _do(lst, a, x)
        except Exception as ex:
            prove(False, 'no-exception', 'raised %s: %s' % (type(ex).__name__, ex)); return 'raised'
        k = lst.index
        ref, _, _, _, log2, _ = make_listing(c, T, n, shared=(times, steps), k0name='kref')
        try:
            ref.index = k
        except Exception as ex:
            prove(False, 'index-in-range', 'the reported index %r cannot be used to position a listing directly (%s)' % (k, type(ex).__name__)); return 'bad-index'
        e = lambda v: v.e if hasattr(v, 'e') else (z3.RealVal(v) if isinstance(v, float) else z3.IntVal(int(v)))
        if any(v is None for v in (lst.time, lst.step, ref.time, ref.step)):
            prove(False, 'header-read', 'tables were read at an offset that is not the start of a result set'); return 'bad-read'
        prove(e(lst.index) == e(ref.index), 'same-index', 'reported index differs from that of a listing positioned directly')
        prove(e(lst.time) == e(ref.time), 'same-time', 'reported time differs from that of a listing positioned directly')
        prove(e(lst.step) == e(ref.step), 'same-step', 'reported step differs from that of a listing positioned directly')
        r1 = [x for x in log if x[0] == 'read']; r2 = [x for x in log2 if x[0] == 'read']
        last1 = r1[-1][1] if r1 else select(k0.e, [z3.IntVal(p) for p in fullpos])      # untouched: still the tables of k0
        prove(len(r2) == 1 and (last1 == r2[-1][1]), 'tables-read-at-same-offset',
              'the tables on display were read at a different offset than on a listing positioned directly')
        return 'done'

    res = sym.explore(h, sym.Ctx(timeout_ms=60000), max_paths=20000)
    tr = report.summarize(name, res, failures, samples, extra=dict(distinct_obligations=len(distinct), obligations_reached=reached[0]))
    if reached[0] == 0 and not tr.get('error'): tr['error'] = 'vacuous: no obligation reached'
    return tr


# ---------------------------------------------------------------------------
# FILE-LEVEL TIER (built on the C06 machinery): the real navigation on the real reader over a
# line file of a shipped listing whose chosen rows carry symbolic digits / signs in EVERY
# result set; oracle = a second reader opened fresh on the same lines and positioned directly.

import os
import itertools
from fractions import Fraction

FILE_MAXFAIL = int(os.environ.get('C07_MAXFAIL', '8') or 8)


def _isnan(x): return isinstance(x, float) and x != x


def _c06():
    from harness import C06
    return C06


def late_tables(P):
    """full result sets (index among the full ones) that print a table the first one does not have"""
    from harness import c06_common as c6
    raw, sets, bounds, fullk = P['raw'], P['sets'], P['bounds'], P['fullk']
    def sigs(ik):
        return set(s for _, s in c6.table_spans(raw, bounds[ik], bounds[ik + 1]))
    base = sigs(fullk[0])
    return [j for j, ik in enumerate(fullk) if sigs(ik) - base]


def nearest_first(xs, a):
    """the property's oracle for time= / step=: index of the value nearest to a, the first on a tie (exact arithmetic)"""
    xs = [Fraction(x) for x in xs]; a = Fraction(a)
    best = min(abs(x - a) for x in xs)
    return [k for k, x in enumerate(xs) if abs(x - a) == best][0]


def alphabet(P):
    """the concrete navigation actions for this file: list of dict(label, kind, arg)"""
    C06 = _c06()
    sets, fullk = P['sets'], P['fullk']
    n = len(fullk)
    times = [sets[ik]['time'] for ik in fullk]
    steps = [sets[ik]['step'] for ik in fullk]
    A = [dict(label=x, kind=x, arg=None) for x in ('first', 'last', 'next', 'prev')]
    seen = set()
    for i in (0, n - 1, n // 2, 1):
        if 0 <= i < n and i not in seen: seen.add(i); A.append(dict(label='index', kind='index', arg=i))
    seen = set()
    for i in (-1, -n, -(n // 2) - 1):
        if -n <= i < 0 and i not in seen: seen.add(i); A.append(dict(label='index-neg', kind='index', arg=i))
    mono_t = all(a < b for a, b in zip(times, times[1:]))
    if mono_t:
        for k in sorted(set([0, n // 2, n - 1])): A.append(dict(label='time-exact', kind='time', arg=times[k]))
        for k in sorted(set([0, n - 2])) if n >= 2 else ():
            a, b = times[k], times[k + 1]
            A.append(dict(label='time-between-low', kind='time', arg=a + 0.25 * (b - a)))
            A.append(dict(label='time-between-high', kind='time', arg=a + 0.75 * (b - a)))
            m = a + 0.5 * (b - a)
            # a tie only where float arithmetic is exact (else the real code's rounded distances decide, not the property)
            if Fraction(m) * 2 == Fraction(a) + Fraction(b) and Fraction(m - a) == Fraction(m) - Fraction(a) and Fraction(b - m) == Fraction(b) - Fraction(m):
                A.append(dict(label='time-tie', kind='time', arg=m))
        A.append(dict(label='time-before', kind='time', arg=times[0] - max(1.0, abs(times[0]))))
        A.append(dict(label='time-after', kind='time', arg=times[-1] * 2 + 1.0))
    if all(s is not None for s in steps) and all(a < b for a, b in zip(steps, steps[1:])):
        for k in sorted(set([0, n // 2, n - 1])): A.append(dict(label='step-exact', kind='step', arg=steps[k]))
        for k in sorted(set([0, n - 2])) if n >= 2 else ():
            a, b = steps[k], steps[k + 1]
            if b - a > 2:
                A.append(dict(label='step-between-low', kind='step', arg=a + 1))
                A.append(dict(label='step-between-high', kind='step', arg=b - 1))
            if (a + b) % 2 == 0: A.append(dict(label='step-tie', kind='step', arg=(a + b) // 2))
        A.append(dict(label='step-before', kind='step', arg=steps[0] - 1))
        A.append(dict(label='step-after', kind='step', arg=steps[-1] + 5))
    # history() with valid selections (C06's shapes): single tuple on the first table, a mixed list over the first two
    tn = P['tablenames']
    v1 = C06.variants(P, (tn[0],))
    A.append(dict(label='history', kind='history', arg=dict(items=v1[0][2], form=v1[0][1], short=True)))
    seq2 = tuple(tn[:2]) if len(tn) > 1 else (tn[0],)
    vm = [v for v in C06.variants(P, seq2) if v[0].startswith('mixed')][0]
    A.append(dict(label='history', kind='history', arg=dict(items=vm[2], form='list', short=not P['has_short'])))
    # a valid table and row with a column the table does not have: history() may refuse (raise), but the
    # listing must afterwards still be where it was
    it = dict(v1[0][2][0]); it['arg'] = (it['arg'][0], it['arg'][1], 'NoSuchColumn')
    A.append(dict(label='history-unknown-column', kind='history', may_raise=True, arg=dict(items=[it], form='tuple', short=True)))
    return A, times, steps


def expected_after(k, act, n, times, steps):
    """index the property prescribes after `act` from index k, and what next/prev must return"""
    kind, arg = act['kind'], act['arg']
    if kind == 'first': return 0, None
    if kind == 'last': return n - 1, None
    if kind == 'next': return min(k + 1, n - 1), k < n - 1
    if kind == 'prev': return max(k - 1, 0), k > 0
    if kind == 'index': return arg % n, None
    if kind == 'time': return nearest_first(times, arg), None
    if kind == 'step': return nearest_first(steps, arg), None
    return k, None


def file_sequences(P, tier, skip=None):
    """the navigation sequences to run on this file: list of dict(start, acts)"""
    A, times, steps = alphabet(P)
    n = len(P['fullk'])
    C06 = _c06()
    starts = C06.starts_for(P, tier)
    out = []
    def add(s0, acts): out.append(dict(start=s0, acts=list(acts)))
    # the F2 class first: result sets that print a table absent at the first time, reached in different orders
    for kk in late_tables(P):
        ix = lambda i: dict(label='index', kind='index', arg=i)
        nx, pv, fi, la = [dict(label=x, kind=x, arg=None) for x in ('next', 'prev', 'first', 'last')]
        if kk > 0:
            add(kk - 1, [ix(kk)]); add(kk - 1, [nx]); add(0, [ix(kk)]); add(kk, [ix(kk - 1), ix(kk)]); add(kk, [pv, nx]); add(kk, [fi, ix(kk)])
            add(kk, [ix(kk - 1), dict(label='index-neg', kind='index', arg=kk - n)])
        if kk == n - 1: add(0, [la]); add(max(kk - 1, 0), [la]); add(kk, [fi, la])
        if kk < n - 1: add(kk + 1, [ix(kk)]); add(kk + 1, [pv])
    # single actions
    # (history() first: a listing on which plain navigation already fails stops the task after a few failures)
    for i, a in enumerate(sorted(A, key=lambda a: a['kind'] != 'history')):
        ss = starts if (tier == 'thorough' or a['kind'] in ('next', 'prev')) else [starts[i % len(starts)], starts[(i + 1) % len(starts)]]
        for s0 in sorted(set(ss)): add(s0, [a])
    # pairs / triples: by label, arguments of a label rotating
    bylab = {}
    for a in A: bylab.setdefault(a['label'], []).append(a)
    labels = list(bylab)
    base = ['first', 'last', 'next', 'prev', 'index', 'index-neg', 'time', 'step', 'history', 'history-unknown-column']
    rot = [0]
    def pick(lab):
        if lab in bylab: c = bylab[lab]
        else: c = [a for a in A if a['label'].startswith(lab + '-')]
        if not c: return None
        rot[0] += 1
        return c[rot[0] % len(c)]
    k = 0
    pairs = list(itertools.product(base, repeat=2)) if tier == 'quick' else list(itertools.product(labels, repeat=2))
    for la_, lb_ in pairs:
        a, b = pick(la_), pick(lb_)
        if a is None or b is None: continue
        add(starts[k % len(starts)], [a, b]); k += 1
    if tier == 'thorough':
        for tr in itertools.product(base, repeat=3):
            acts = [pick(x) for x in tr]
            if any(x is None for x in acts): continue
            add(starts[k % len(starts)], acts); k += 1
    return out


def _apply(lst, act):
    kind, arg = act['kind'], act['arg']
    if kind == 'first': lst.first()
    elif kind == 'last': lst.last()
    elif kind == 'next': return lst.next()
    elif kind == 'prev': return lst.prev()
    elif kind == 'index': lst.index = arg
    elif kind == 'time': lst.time = arg
    elif kind == 'step': lst.step = arg
    elif kind == 'history':
        sel = [x['arg'] for x in arg['items']]
        if arg['form'] == 'tuple': sel = sel[0]
        lst.history(sel, short=arg['short'])
    return None


def _act_json(act):
    if act['kind'] == 'history':
        a = act['arg']
        return [act['label'], 'history', dict(selection=[list(x['arg']) for x in a['items']], form=a['form'], short=a['short'],
                                             may_raise=bool(act.get('may_raise')))]
    return [act['label'], act['kind'], act['arg']]


def task_file_nav(rel, tier, part=0, nparts=1, skip=None, maxseq=None, derive=None):
    C06 = _c06()
    from harness import c06_common as c6
    from harness import C05 as c05
    ld = C06._load()
    P = C06.prepare(rel, derive)
    raw, sets, fullk, tables, oracle = P['raw'], P['sets'], P['fullk'], P['tables'], P['oracle']
    n = len(fullk)
    skip = list(skip or [])
    shape = ('/derived=' + derive if derive else '') + ('/skip=' + '+'.join(skip) if skip else '')
    tnames = [t for t in P['tablenames'] if t not in skip]
    name = 'file/%s%s[%d/%d]' % (rel, shape, part + 1, nparts)
    SF = C06.symbolic_file(P, headers=False)
    lines, cons, symlines = SF['lines'], SF['cons'], SF['symlines']
    allseq = file_sequences(P, tier)
    if maxseq is not None and len(allseq) > maxseq:
        nspecial = sum(1 for _ in late_tables(P)) * 12
        head, tail = allseq[:nspecial], allseq[nspecial:]
        stride = max(1, -(-len(tail) // max(1, maxseq - len(head))))
        allseq = head + tail[::stride]
    seqs = [s for i, s in enumerate(allseq) if i % nparts == part]
    A_, times, steps = alphabet(P)
    budget = c6.budget(len(raw), len(sets))
    failures, samples, distinct = [], [], set()
    counters = dict(sequences=0, actions=0, fresh=0, reached=0, unattributed=0, cells=0)
    base_key = 'file/%s%s' % (rel, shape)

    def open_reader():
        f = c6.LineFile(lines)
        ld.t2listing.io = types.SimpleNamespace(open=lambda *a, **k: f)
        return ld.t2listing.t2listing(P['path'], skip_tables=list(skip)), f

    def h(c):
        for con in cons: c.add(con)
        nfail = [0]

        def fail(seqlab, clause, what, log, formula=False, model=None):
            key = '%s/%s/%s' % (base_key, seqlab, clause)
            if model is None:
                c.stats['obligations'] += 1
                r, _ = c.solve(z3.BoolVal(True))
                if r != 'sat':
                    c.stats['ob_unsat' if r == 'unsat' else 'ob_unknown'] += 1
                    return r
                c.stats['ob_sat'] += 1
            nfail[0] += 1
            failures.append(dict(key=key, what='%s: %s' % (rel, what),
                                 replay=dict(kind='file', file=os.path.join('tests', 'listing', rel), skip_tables=skip, derive=derive,
                                             substitutions=SF['subs_for'](model, list(symlines)), clause=clause,
                                             actions=[_act_json(a) for a in log])))
            return 'sat'

        # ---- the oracle: a reader opened fresh on the same lines, positioned directly at k
        fresh = {}
        def fresh_at(k):
            if k in fresh: return fresh[k]
            counters['fresh'] += 1
            log = [dict(label='index', kind='index', arg=k)]
            try:
                R, fR = open_reader()
                fR.arm(budget)
                R.index = k
                fR.disarm()
            except sym.EngineAbort: raise
            except BaseException as ex:
                if not isinstance(ex, (Exception, c6.NonTermination)): raise
                fail('fresh', 'no-exception', 'a fresh reader positioned at index %d raised %s' % (k, type(ex).__name__), log)
                fresh[k] = None
                return None
            snap = dict(index=R.index, time=R.time, step=R.step, tables={tn: R._table[tn]._data.copy() for tn in R._tablenames},
                        names={tn: list(R._table[tn].row_name) for tn in R._tablenames}, order=list(R._tablenames))
            ik = fullk[k]
            ok = True
            if not (R.index == k and float(R.time) == sets[ik]['time'] and (sets[ik]['step'] is None or R.step == sets[ik]['step'])):
                fail('fresh', 'time-step', 'a fresh reader positioned at index %d reports index/time/step %r/%r/%r, the file prints %r/%r' % (
                    k, R.index, R.time, R.step, sets[ik]['time'], sets[ik]['step']), log); ok = False
            # both readers wrong the same way would go unnoticed: every symbolic cell == the printed cells of result set k
            for tn in R._tablenames:
                for r in tables[tn]['rows']:
                    if oracle.get((tn, r, ik)) is None: continue
                    hit = C06.printed_check(c, P, SF, tn, r, ik, R._table[tn][r], distinct, counters)
                    counters['reached'] += len(tables[tn]['cols'])
                    if hit is not None:
                        fail('fresh', 'printed-value', 'fresh reader at index %d: table %s row %d %s differs from the number printed at that result set' % (
                            k, tn, r, hit[0]), log, model=hit[1])
                        ok = False; break
                if not ok: break
            fresh[k] = snap
            return snap

        def compare(lst, snap, seqlab, log, what0):
            """index / time / step and EVERY cell of EVERY table equal those of the fresh reader"""
            if lst.time is not snap['time'] and not (lst.time == snap['time']) is True or \
               lst.step is not snap['step'] and not (lst.step == snap['step']) is True:
                fail(seqlab, 'time-step', '%s: time/step %r/%r, a fresh reader at that index shows %r/%r' % (what0, lst.time, lst.step, snap['time'], snap['step']), log)
                return False
            if list(lst._tablenames) != snap['order'] or any(list(lst._table[tn].row_name) != snap['names'][tn] for tn in snap['order']):
                fail(seqlab, 'tables', '%s: tables / row names differ from those of a fresh reader' % what0, log); return False
            items, pforms = [], {}
            for tn in snap['order']:
                a, b = lst._table[tn]._data, snap['tables'][tn]
                if a.shape != b.shape:
                    fail(seqlab, 'tables', '%s: table %s has another shape than in a fresh reader' % (what0, tn), log); return False
                ncol = a.shape[1] if a.ndim == 2 else 1
                for i, (u, v) in enumerate(zip(a.flat, b.flat)):
                    if u is v: continue
                    if isinstance(u, SReal) or isinstance(v, SReal):
                        if _isnan(u) or _isnan(v):
                            fail(seqlab, 'tables', '%s: table %s row %d is nan in one reader' % (what0, tn, i // ncol), log); return False
                        ue, ve = sym.lift_real(u), sym.lift_real(v)
                        pu, pv = strs.num_parts(ue), strs.num_parts(ve)
                        lab = '%s:%d:%d' % (tn, i // ncol, i % ncol)
                        if pu is not None and pv is not None:
                            # two numbers read from cells: same sign, digits and exponent (linear; sufficient, not necessary:
                            # a refutation is re-examined by exact value, as in C05)
                            fm = z3.And(*[x_ == y_ for x_, y_ in zip(pu, pv)])
                            pforms[lab] = (0, 0, ue, ve, pu, pv, fm)
                            items.append((fm, lab))
                        else:
                            items.append((ue == ve, lab))
                    elif not (u == v) and not (_isnan(u) and _isnan(v)):
                        fail(seqlab, 'tables', '%s: table %s row %d column %d shows %r, a fresh reader positioned there shows %r' % (
                            what0, tn, i // ncol, i % ncol, u, v), log)
                        return False
                counters['cells'] += a.size
            for f_, lab in items:
                sf = z3.simplify(f_)
                if not z3.is_true(sf): distinct.add(('cell', sf.hash()))
            counters['reached'] += 3
            items = items + [(True, 'index'), (True, 'time-step'), (True, 'tables-concrete-cells')]
            for _ in range(6):
                hit = C06.decide(c, items)
                if hit is None: return True
                lab, m = hit
                if lab in pforms:
                    m = c05._confirm(c, lab, *pforms[lab])
                    if m is None:        # the components differ but the values cannot: drop this cell and look at the others
                        items = [x_ for x_ in items if x_[1] != lab]; continue
                tn, ri, ci = lab.split(':')
                fail(seqlab, 'tables', '%s: table %s row %s column %s differs from what a fresh reader positioned there shows' % (what0, tn, ri, ci), log, model=m)
                return False
            return True

        lst = None
        log = []
        kexp = None
        broken = set()       # action labels whose own step failed in this task: later sequences using them are skipped
        for sq in seqs:
            if nfail[0] >= FILE_MAXFAIL: break
            if any(a['label'] in broken for a in sq['acts']):
                counters['skipped'] = counters.get('skipped', 0) + 1; continue
            counters['sequences'] += 1
            acts = list(sq['acts'])
            if lst is None:
                try:
                    lst, f = open_reader()
                except sym.EngineAbort: raise
                except Exception as ex:
                    fail('open', 'no-exception', 't2listing() raised %s: %s' % (type(ex).__name__, c05._extext(ex)), []); break
                log = []; kexp = 0
            if kexp != sq['start']:
                acts = [dict(label='index', kind='index', arg=sq['start'], positioning=True)] + acts
            done = []
            for act in acts:
                counters['actions'] += 1
                log.append(act)
                if not act.get('positioning'): done.append(act['label'])
                seqlab = '>'.join(done) if done else 'index'
                what0 = 'after %s (start index %d)' % (' > '.join('%s%s' % (a['label'], '' if a['arg'] is None or a['kind'] == 'history' else '=%r' % (a['arg'],)) for a in acts[:acts.index(act) + 1]), sq['start'])
                want, moved_want = expected_after(kexp, act, n, times, steps)
                f.arm(budget)
                err = None
                try:
                    with C06._Alarm(120):
                        moved = _apply(lst, act)
                except c6.NonTermination as ex: err = ('terminates', 'does not return: %s' % ex)
                except sym.EngineAbort:
                    f.disarm(); raise
                except Exception as ex:
                    if not act.get('may_raise'): err = ('no-exception', 'raised %s: %s' % (type(ex).__name__, c05._extext(ex)))
                f.disarm()
                bad = False
                if err is not None:
                    fail(seqlab, err[0], '%s: %s' % (what0, err[1]), log); bad = True
                elif not (isinstance(lst.index, (int, np.integer)) and 0 <= lst.index < n and int(lst.index) == want):
                    fail(seqlab, 'index', '%s: reported index %r, the property prescribes %d (of %d)' % (what0, lst.index, want, n), log); bad = True
                elif moved_want is not None and bool(moved) != moved_want:
                    fail(seqlab, 'moved', '%s: %s() returned %r' % (what0, act['kind'], moved), log); bad = True
                else:
                    snap = fresh_at(want)
                    if snap is None or not compare(lst, snap, seqlab, log, what0): bad = True
                if bad:
                    lst = None      # reopen for the next sequence
                    if not act.get('positioning'): broken.add(act['label'])
                    break
                kexp = want
        if not samples:
            samples.append(dict(task=name, simulator=P['simulator'], result_sets=len(sets), full=n, tables=tnames, sequences=len(seqs),
                                example=[_act_json(a)[:2] + [repr(a['arg'])[:40]] for a in (seqs[len(seqs) // 2]['acts'] if seqs else [])]))
        r, _ = c.reachable()
        if r != 'sat': return 'unreachable'
        return 'checked' if counters['reached'] else 'nothing-reached'

    res = sym.explore(h, sym.Ctx(timeout_ms=10000), max_paths=3, profile_repo=(tier == 'quick' and part == 0 and len(raw) < 1500))
    extra = dict(distinct_obligations=len(distinct), simulator=P['simulator'], sequences=counters['sequences'], actions=counters['actions'],
                 fresh_readers=counters['fresh'], cells_compared=counters['cells'], sequences_skipped_after_failure=counters.get('skipped', 0), symbolic_lines=len(symlines), late_tables=late_tables(P),
                 file_tier=True)
    if not counters['reached']: extra['vacuous'] = True
    seen, keep = {}, []
    for fl in failures:
        seen[fl['key']] = seen.get(fl['key'], 0) + 1
        if seen[fl['key']] <= 2: keep.append(fl)
    return report.summarize(name, res, keep, samples, extra=extra)


FILE_QUICK = ('AUTOUGH2/2/case2.listing', 'AUTOUGH2/3/case3.listing', 'AUTOUGH2/4/case4.listing', 'AUTOUGH2/5/case5.listing',
              'TOUGH2/2/rfp.listing', 'TOUGH2/8/OUTFILE', 'TOUGH2/11/case11.listing',
              'TOUGH2-MP/6/OUTPUT_DATA', 'TOUGH2-MP/7/OUTPUT_DATA', 'TOUGH3/2/OUTPUT', 'TOUGHREACT/2/case2.out',
              'TOUGHplus/1/case1.dat', 'TOUGHplus/4/t3T_out.dat')


def file_tasks(tier):
    from harness import c05_common as cc
    C06 = _c06()
    files = cc.listing_files(loader.REPO)
    if tier == 'quick': files = [f for f in files if f.replace(os.sep, '/') in FILE_QUICK]
    only = [x for x in os.environ.get('C07_FILES', '').split(',') if x]
    if only: files = [f for f in cc.listing_files(loader.REPO) if any(x in f for x in only)]
    tasks = []
    for rel in files:
        # number of sequences by cost: one action re-reads one result set (~18 microseconds per line here);
        # budget per file ~12 s (quick) / ~100 s (thorough) of reading, dealt over <= 4 tasks
        raw = cc.read_lines(os.path.join(loader.REPO, 'tests', 'listing', rel))
        nfull = max(1, sum(1 for l in raw if l.lstrip().lower().startswith('output data after') or l[1:6] == 'EEEEE') or 1)
        if cc.family_of(raw) == 'AUTOUGH2': nfull = max(1, nfull // 2)
        per_seq = 2.5 * (len(raw) / float(nfull)) * 1.8e-5
        budget_s, cap = (12.0, 160) if tier == 'quick' else (100.0, 1100)
        maxseq = int(max(24, min(cap, budget_s / per_seq)))
        nparts = 1 if tier == 'quick' else max(1, min(4, max(maxseq // 300, int(maxseq * per_seq * 2 / 60.0) + 1)))
        for part in range(nparts):
            tasks.append((task_file_nav, dict(rel=rel, tier=tier, part=part, nparts=nparts, maxseq=maxseq)))
        reln = rel.replace(os.sep, '/')
        # shapes: a reader opened with skip_tables (both readers), and derived listings whose later result sets print
        # tables the first one does not have (the class of the TOUGH2/11 defect)
        for sk in FILE_SKIP.get(reln, ()) if tier == 'quick' else FILE_SKIP_THOROUGH.get(reln, ()):
            tasks.append((task_file_nav, dict(rel=rel, tier=tier, maxseq=max(24, maxseq // 3), skip=list(sk))))
        for dv in FILE_DERIVED.get(reln, ()) if tier == 'quick' else FILE_DERIVED_THOROUGH.get(reln, ()):
            tasks.append((task_file_nav, dict(rel=rel, tier=tier, maxseq=max(24, maxseq // 2), derive=dv)))
    return tasks, files


FILE_SKIP = {'TOUGH2/8/OUTFILE': (('connection',),), 'TOUGH2/11/case11.listing': (('connection',),), 'AUTOUGH2/3/case3.listing': (('element',),), 'TOUGHplus/4/t3T_out.dat': (('element1', 'primary'),)}
FILE_SKIP_THOROUGH = dict(FILE_SKIP)
FILE_SKIP_THOROUGH.update({'TOUGH2/8/OUTFILE': (('connection',), ('element',), ('primary', 'generation')),
                           'TOUGH2/11/case11.listing': (('connection',), ('generation',)),
                           'AUTOUGH2/4/case4.listing': (('connection',), ('generation',)),
                           'TOUGH2-MP/6/OUTPUT_DATA': (('element',), ('connection',)),
                           'TOUGHREACT/1/case1.out': (('connection',),),
                           'TOUGHplus/1/case1.dat': (('element1',), ('connection', 'element2'))})
FILE_DERIVED = {'TOUGH2/8/OUTFILE': ('final-primary', 'late-primary'),
                'TOUGH2/2/rfp.listing': ('shortfirst-generation', 'mid-generation', 'keep-2'),
                'AUTOUGH2/4/case4.listing': ('mid-connection',)}
FILE_DERIVED_THOROUGH = {'TOUGH2/2/rfp.listing': ('shortfirst-generation', 'mid-generation', 'keep-2', 'keep-1'),
                         'TOUGH2/7/case7.out': ('shortfirst-generation',),
                         'TOUGH2/11/case11.listing': ('shortfirst-generation', 'keep-2'),      # (its tables are not closed by separator lines: no table removal)
                         'TOUGH2-MP/6/OUTPUT_DATA': ('mid-connection', 'keep-3'),
                         'TOUGHREACT/1/case1.out': ('shortfirst-generation',),
                         'TOUGH3/2/OUTPUT': ('keep-1',),
                         'AUTOUGH2/4/case4.listing': ('keep-3', 'mid-connection', 'mid-generation'),
                         'TOUGHplus/3/1p_out.dat': ('keep-5',),
                         'TOUGH2/8/OUTFILE': ('final-primary', 'late-primary', 'final-connection+primary', 'late-connection', 'mid-primary', 'mid-generation', 'keep-2'),
                         'TOUGH2/9/OUTFILE': ('final-primary', 'late-primary', 'final-connection+primary'),
                         'TOUGH2/4/case4.out': ('final-primary', 'final-connection+primary')}


def run(tier, seed, rep):
    _load()
    ns = (1, 2, 3, 4) if tier == 'quick' else (1, 2, 3, 4, 5, 6)
    tasks = []
    for n in reversed(ns):
        for a in ACTIONS:
            if a == 'badhist':
                for v in BADHIST_VARIANTS:
                    if tier == 'quick' and n not in (1, max(ns)) and v != 'unknown-block': continue
                    tasks.append((task_action, dict(action=a, n=n, variant=v)))
                continue
            tasks.append((task_action, dict(action=a, n=n)))
    for n in reversed(ns if tier == 'thorough' else (1, 2, 3)):
        for a in ACTIONS:
            if a in ('step', 'badhist'): continue
            tasks.append((task_action, dict(action=a, n=n, cls='toughreact_tecplot')))
    import itertools
    nseq = 2 if tier == 'quick' else 3
    for pair in itertools.product(ACTIONS, repeat=2):
        tasks.append((task_sequence, dict(actions=pair, n=nseq)))
    if tier == 'thorough':
        for triple in itertools.product(ACTIONS, repeat=3):
            tasks.append((task_sequence, dict(actions=triple, n=2)))
    ftasks, ffiles = file_tasks(tier)
    if os.environ.get('C07_ONLY') == 'file': tasks = []
    if os.environ.get('C07_ONLY') == 'kernel': ftasks = []
    results = report.run_tasks(ftasks + tasks)         # (the file tasks are the long ones: first in the queue)
    rep.add_results(results)
    nseq = nact = nfresh = ncell = nsym = 0
    for r in results:
        ex = r.get('extra', {})
        if r.get('error') or not ex.get('file_tier'): continue
        if ex.get('vacuous'): rep.harness_error('%s: no obligation was reached' % r['name'])
        if r.get('stats', {}).get('paths', 0) > 1: rep.outside.append('%s: %d paths (a symbolic sign cell forked the reader)' % (r['name'], r['stats']['paths']))
        nseq += ex.get('sequences', 0); nact += ex.get('actions', 0); nfresh += ex.get('fresh_readers', 0)
        ncell += ex.get('cells_compared', 0); nsym += ex.get('symbolic_lines', 0)
    rep.extra['file_tier'] = dict(files=len(ffiles), tasks=len(ftasks), sequences=nseq, actions=nact, fresh_readers=nfresh,
                                  table_cells_compared=ncell, symbolic_lines=nsym)
    rep.bounds += [
        'KERNEL TIER (stub reader):',
    ]
    rep.bounds += ['n = %s result sets with symbolic strictly increasing times (reals) and steps (integers), first >= 0' % (list(ns),),
                   'current position k0 symbolic in [0, n); index argument symbolic in [-n, n); time argument any real; step argument any integer',
                   'one action from an arbitrary position (inductive step: the post-state is again "positioned directly at k"), actions %s' % (list(ACTIONS),),
                   'every sequence of 2 actions on n = %d result sets%s compared with a second object on which only index = k was executed' % (
                       nseq, ' and every sequence of 3 actions on n = 2' if tier == 'thorough' else ''),
                   'the same kernel of toughreact_tecplot (index/first/last/next/prev/time) for n = %s' % (list(ns if tier == 'thorough' else (1, 2, 3)),)]
    rep.bounds += ["action 'badhist' = the real history() with a selection in which EVERY specification is invalid (%s): block / connection names asked for are "
                   'symbolic 5-character names constrained only to be absent from the tables (element table: two symbolic row names, connection table: one symbolic pair); '
                   'obligations: returns None, index/time/step unchanged, no seek, no read; also as a step of every 2-/3-action sequence' % (list(BADHIST_VARIANTS),)]
    rep.bounds += [
        'FILE-LEVEL TIER (real reader on a line file, harness/C06 machinery): %d shipped listing files (%s), %d navigation sequences, %d actions, '
        '%d fresh reference readers, %d table cells compared' % (len(ffiles), 'the smaller files of every flavour incl. TOUGH2/11' if tier == 'quick' else 'all',
                                                                   nseq, nact, nfresh, ncell),
        'file tier, symbolic values: in EVERY result set the lines of the first / interior / last row of every table (and of the first / last row of every SHORT '
        'table) carry a symbolic digit for every digit and a symbolic blank-or-minus cell for every sign position (as C06; layout lines and letterless-exponent '
        'numbers: digits only); %d symbolic lines; result-set headers (times, steps) as shipped' % nsym,
        'file tier, actions: first, last, next, prev, index = i (0, 1, middle, last; -1, -n, an interior negative), time = t (exact printed times of the first / '
        'middle / last result set; a quarter and three quarters between the first two and the last two; the exact midpoint where float arithmetic makes it a true '
        'tie; before the first; after the last), step = s (same classes), history(sel) with a valid single-tuple selection and with a mixed list over two tables',
        'file tier, sequences: every single action from %s starting indices; %s; for result sets that print a table the first one does not have (TOUGH2/11): 12 '
        'orders of reaching them (from the set before by index / next / last, from the first, away and back, by negative index, from the set after); the '
        'number of sequences per file is capped by file size (evenly thinned)' % (
            'two dealt (next / prev: all)' if tier == 'quick' else 'all',
            'one sequence for every ordered pair of the 9 action kinds, arguments and starting index dealt' if tier == 'quick' else
            'one sequence for every ordered pair of the ~20 action classes and every ordered triple of the 9 action kinds, arguments and starting index dealt'),
        'file tier, oracle after EVERY action: reported index == the index the property prescribes (exact-arithmetic nearest / first-on-tie for time and step), '
        'next / prev return whether they moved, time / step and every cell of every table == those of a SECOND reader opened fresh on the same lines and '
        'positioned with index = k (symbolic cells: z3; one fresh reader per k), whose chosen rows in turn == the independent evaluation of the cells printed '
        'for result set k; no exception; each action within the C06 readline budget',
    ]
    rep.outside += ['(kernel tier) table contents: read_tables itself (whole-file parsing) is not executed there; it is executed in the file-level tier',
                    'history() with at least one VALID specification: after the prologue it scans the file (skip_to_table, readline, read_table_line), which needs a '
                    'real listing; only the prologue up to the early exit runs on the stub object',
                    'index arguments outside [-n, n) (IndexError from the list before any state changes)',
                    'NaN times; float rounding of |times - t| (exact reals here)',
                    '(kernel tier) listings with short (AUTOUGH2 SHORT) output where _pos differs from _fullpos (covered by the file tier: AUTOUGH2/3, /5, /6, /7)',
                    '(file tier) the reader keeps its history across sequences (it is reopened only after a failure), so every sequence runs after a long prefix '
                    'of earlier, verified ones; rows other than the chosen ones, names, headers and times are the shipped text; truncated copies of files; '
                    'sequences of 4 actions; rewind(); skip_tables other than the variants listed; toughreact_tecplot files']
    rep.assumptions += ['(kernel tier) stated there, DECIDED in the file-level tier for the shipped files: read_tables entered at _fullpos[k] produces tables (and _time/_step) that depend only on k - no stale rows survive from the previous position',
                        '(file tier) line file instead of a binary file (positions = line numbers); float() of digit / sign cells as in C05 / C06; which line prints which row: C06 pre-run (text scan cross-checked against stepping)',
                        '_fullpos are distinct offsets; fulltimes / fullsteps strictly increasing (as setup_pos builds them from a listing whose times advance)',
                        'stub _file records seek(); stub read_tables records the offset it is entered at and sets _time/_step to the header values of that offset']
    rep.functions.update(['t2listing.py:t2listing.get_index', 't2listing.py:t2listing.set_index', 't2listing.py:t2listing.set_time',
                          't2listing.py:t2listing.set_step', 't2listing.py:t2listing.first', 't2listing.py:t2listing.last',
                          't2listing.py:t2listing.next', 't2listing.py:t2listing.prev', 't2listing.py:t2listing.get_time',
                          't2listing.py:t2listing.get_step', 't2listing.py:t2listing.get_num_fulltimes', 't2listing.py:t2listing.history',
                          't2listing.py:ordered_selection', 't2listing.py:tablename_from_specification', 't2listing.py:listingtable.__init__',
                          't2listing.py:t2listing.read_tables_TOUGH2', 't2listing.py:t2listing.read_tables_AUTOUGH2', 't2listing.py:t2listing.read_tables_TOUGHplus',
                          't2listing.py:t2listing.read_table_TOUGH2', 't2listing.py:t2listing.read_table_AUTOUGH2', 't2listing.py:t2listing.read_header_TOUGH2',
                          't2listing.py:t2listing.read_header_AUTOUGH2', 't2listing.py:t2listing.next_table_TOUGH2', 't2listing.py:t2listing.next_table_AUTOUGH2',
                          't2listing.py:t2listing.next_table_TOUGHplus', 't2listing.py:t2listing.skip_to_table_TOUGH2', 't2listing.py:t2listing.skip_table_TOUGH2'])
    rep.process_failures()
    return rep.finish(rule='one obligation per (action, n, path, label): path condition AND NOT(obligation) must be unsat; '
                      'distinct = non-constant formulas deduplicated by (label, z3 AST hash) per task')
