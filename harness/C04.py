"""C04 - geometry -> TOUGH2 grid conversion is geometrically exact and
index-consistent.

The REAL mulgrid.rectangular / add_node / add_column / add_connection /
add_layers / rotate / translate and t2grid.fromgeo (reloaded from the repo)
run on symbolic spacings, origin, shape parameters, column surfaces,
atmosphere volume and connection distance.  On every path (= one arrangement
of the column surfaces relative to the layer boundaries, and of the shape
parameters, decided by z3) the resulting block and connection lists are
compared with an independent expectation (harness/geo_oracle.py) and every
volume, area, distance, gravity cosine and permeability direction is proved
equal to its geometric definition for ALL values on that path.
"""
import itertools
import math
import sys as _sys
import z3
from fractions import Fraction
from vx import sym, loader, report
from vx.sym import SReal, SInt, SBool
from harness import geo_oracle as GO
from harness import geo_build as GB
from harness import geo_sym as GS

PID = 'C04'

_LD = None
def _load():
    global _LD
    if _LD is None:
        _LD = loader.load(['t2grids'])
    return _LD


# ---------------------------------------------------------------------------
# symbolic inputs per family

def _pos(c, name): return c.real(name, 0, strict_lo=True)

def _origin(c): return [c.real('ox'), c.real('oy'), c.real('oz')]


def make_inputs(c, family, shape, mixmode='full'):
    if family == 'rect':
        nx, ny, nz = shape
        return dict(dx=[_pos(c, 'dx%d' % i) for i in range(nx)], dy=[_pos(c, 'dy%d' % i) for i in range(ny)],
                    dz=[_pos(c, 'dz%d' % i) for i in range(nz)], origin=_origin(c))
    nz = shape
    dz = [_pos(c, 'dz%d' % i) for i in range(nz)]
    if family == 'quadfam':
        a, b = _pos(c, 'a'), _pos(c, 'b')
        c.add(z3.And(a.e + b.e > 1, a.e < 2, a.e < b.e + 1))
        return dict(a=a, b=b, dz=dz, origin=_origin(c))
    # mix5 / triquad
    if mixmode == 'full':
        t = c.real('t'); c.add(z3.And(t.e > Fraction(-1, 2), t.e < Fraction(1, 2)))
        k = c.real('k'); c.add(z3.And(k.e > -1, k.e < 1))
    else:   # 'stretch': shear and slide fixed, stretch / origin / layers / surfaces symbolic
        t, k = Fraction(1, 3), Fraction(1, 4)
    return dict(sx=_pos(c, 'sx'), sy=_pos(c, 'sy'), k=k, t=t, dz=dz, origin=_origin(c))


def _install_exact_trig(ld, table):
    """cos / sin seen by the reloaded modules return the exact rational pair for
    the angles in `table` (degrees -> (cos, sin)); every other angle goes to the
    real math functions (whose float results are lifted to exact rationals)."""
    m = _sys.modules[ld.pkg + '._math']
    if getattr(m, '_c04_exact', None) is not None:
        m._c04_exact.update(table); return
    m._c04_exact = dict(table)
    real_cos, real_sin = m.cos, m.sin
    class Deg(float): pass
    def radians(x):
        r = Deg(math.radians(x)); r.deg = x
        return r
    def _lookup(x):
        d = getattr(x, 'deg', None)
        if d is None: return None
        for a, cs in m._c04_exact.items():
            if abs(abs(d) - a) < 1e-9: return d, cs
        return None
    def cos(x):
        hit = _lookup(x)
        return SReal(z3.RealVal(hit[1][0])) if hit else real_cos(x)
    def sin(x):
        hit = _lookup(x)
        if not hit: return real_sin(x)
        return SReal(z3.RealVal(hit[1][1] if hit[0] > 0 else -hit[1][1]))
    m.radians, m.cos, m.sin = radians, cos, sin


def _slug(label):
    return ''.join(ch if ch.isalnum() else '_' for ch in label).strip('_')


def class_constraint(s, tops, bots, cls):
    """Arrangement classes of a surface s (nz layers): 0 = above the top;
    then going down: 1 = at top of layer 1, 2 = inside layer 1, 3 = at top of
    layer 2 (= bottom of layer 1), 4 = inside layer 2, ..."""
    se = s.e
    if cls == 0: return se > GS.zterm(tops[0])
    k, r = divmod(cls - 1, 2)
    if r == 0: return se == GS.zterm(tops[k])
    return z3.And(se < GS.zterm(tops[k]), se > GS.zterm(bots[k]))


def n_classes(nz): return 2 * nz + 1


def task_fromgeo(family, shape, atm, conv, order, angle, use_map, surf_cols=None, rot=None,
                 translate=False, fix=None, mixmode='full', profile=False):
    """One shape/configuration; all values symbolic.
    family 'rect': shape = (nx, ny, nz); 'mix5' / 'triquad' / 'quadfam': shape = nz.
    surf_cols: columns with a free symbolic surface (None = all); the others
    keep the default surface (top of the geometry).
    fix: optional {column index: class index} restricting a column's surface to
    one arrangement class (only used to split a big task over processes; the
    union of the sub-tasks is the unrestricted task)."""
    ld = _load()
    M, T = ld.mulgrids, ld.t2grids
    failures, samples, distinct = [], [], set()
    perm_cs = GO.perm_cos_sin(angle)
    state = dict(reached=0)
    cfg = dict(family=family, shape=shape, atm=atm, convention=conv, order=order, angle=angle,
               use_map=use_map, rot=rot, translate=translate, mixmode=mixmode)

    def h(c):
        ops = GS.SymOps()
        inp = make_inputs(c, family, shape, mixmode)
        geo, mesh = GB.build(M, family, inp, conv, atm, order)
        ncol = len(mesh['cols'])
        tops, bots, mids = GO.layer_levels(mesh)
        atmvol = _pos(c, 'atmvol'); atmcon = _pos(c, 'atmcon')
        blockmap = GB.make_blockmap(geo) if use_map else {}
        which = list(range(ncol)) if surf_cols is None else list(surf_cols)
        surfaces = [None] * ncol
        for k in which:
            s = c.real('s%d' % k)
            c.add(s.e > GS.zterm(bots[-1]))          # the bottom layer is never empty
            if fix and k in fix: c.add(class_constraint(s, tops, bots, fix[k]))
            surfaces[k] = s
        pivot = shift = None
        if rot:
            _install_exact_trig(ld, {GB.ROT_DEG[rot]: GB.ROT[rot]})
            pivot = (c.real('px'), c.real('py'))
        if translate: shift = [c.real('tx'), c.real('ty'), c.real('tz')]
        mesh2, surf = GB.configure(geo, mesh, angle, atmvol, atmcon, surfaces, rot, pivot, shift)

        # ---- code under test
        grid = T.t2grid().fromgeo(geo, blockmap)

        # ---- independent expectation, obligations
        def record(label, what, model):
            def val(x):
                if x is None or model is None: return None
                return GS.model_num(model, x)
            data = dict(cfg, label=label,
                        inputs={k: ([val(x) for x in v] if isinstance(v, list) else val(v)) for k, v in inp.items()},
                        surfaces=[val(s) for s in surfaces], atmvol=val(atmvol), atmcon=val(atmcon),
                        pivot=[val(p) for p in pivot] if pivot else None,
                        shift=[val(p) for p in shift] if shift else None)
            failures.append(dict(key='%s/%s' % (family, _slug(label)), what=what, replay=data))

        try:
            ex = GO.Expected(ops, mesh2, surf, atm, order, perm_cs, atmvol, atmcon)
            ex.block_cells()
        except ValueError as e:
            return 'oracle: %s' % e
        state['reached'] += 1

        pending = []
        def P(ob, where): pending.append((ob, where))

        def S(ok, label, what):
            r = c.prove(bool(ok), label)
            if r == 'sat':
                rr, m = c.reachable()
                record(label, what, m)

        def prove_one(ob, where):
            r = c.prove(GS.formula(ob), ob[0], info=where)
            if r == 'sat':
                record(ob[0], '%s fails at %s' % (ob[0], where), c.failures[-1]['model'])
            return r

        def discharge():
            """Numeric obligations are sent to the solver one item (column,
            block, connection) at a time as a conjunction; only if that is not
            unsat are the item's obligations tried one by one, to name the
            failing one.  (One query for the whole path was measured 10x slower.)"""
            groups, order_ = {}, []
            for ob, where in pending:
                f = z3.simplify(GS.formula(ob))
                if z3.is_true(f):
                    c.stats['obligations'] += 1; c.stats['ob_unsat'] += 1
                    c.stats['ob_trivial'] = c.stats.get('ob_trivial', 0) + 1
                    continue
                distinct.add((ob[0], f.hash()))
                if where not in groups: groups[where] = []; order_.append(where)
                groups[where].append((f, ob))
            for where in order_:
                fs = groups[where]
                if len(fs) > 1:
                    r = c.prove(z3.And(*[f for f, _ in fs]), 'all obligations of ' + where.split(' ')[0])
                    if r == 'unsat':
                        c.stats['obligations'] += len(fs) - 1; c.stats['ob_unsat'] += len(fs) - 1
                        continue
                    if r == 'sat': c.failures.pop(); c.stats['ob_sat'] -= 1
                    else: c.unknowns.pop(); c.stats['ob_unknown'] -= 1
                    c.stats['obligations'] -= 1
                for f, ob in fs: prove_one(ob, where)

        summary = GB.compare(ex, geo, grid, blockmap, S, P)
        discharge()
        if summary is None: return 'structure differs'
        if len(samples) < 1:
            samples.append(dict(config=cfg, blocks=[b.name for b in grid.blocklist][:12],
                                connections=[[b.name for b in con.block] for con in grid.connectionlist[:8]],
                                example_obligation='volume of block %r: %s == %s' % (
                                    grid.blocklist[-1].name, GS.zterm(grid.blocklist[-1].volume).sexpr()[:200],
                                    GS.zterm(ex.volume(*ex.block_cells()[-1])).sexpr()[:200])))
        return summary

    res = sym.explore(h, GS.FastCtx(timeout_ms=30000), max_paths=20000, profile_repo=profile)
    expect_oracle_error = (order == 'dmplex' and family == 'mix5')
    if state['reached'] == 0 and not expect_oracle_error:
        res['exhausted'] = False          # vacuous: never reached the obligations
    name = '%s%s/atm%d/conv%d/%s/angle%g/%s%s%s%s%s%s' % (
        family, '%dx%dx%d' % tuple(shape) if family == 'rect' else '/nz%d' % shape, atm, conv, order, angle,
        'map' if use_map else 'nomap',
        '' if surf_cols is None else '/surf:' + ','.join(map(str, surf_cols)),
        '/rot-%s' % rot if rot else '', '/translated' if translate else '',
        '' if family in ('rect', 'quadfam') else '/' + mixmode,
        '' if not fix else '/fix:' + ','.join('%d=%d' % kv for kv in sorted(fix.items())))
    return report.summarize(name, res, failures, samples, extra=dict(distinct_obligations=len(distinct)))


# ---------------------------------------------------------------------------
# catalogue

ATMS, CONVS, ORDERS, ANGLES, MAPS = (0, 1, 2), (0, 1, 2, 3), (None, 'layer_column', 'dmplex'), (0.0, 30.0, 90.0), (False, True)


def split(kw, ncols, nz, nsplit):
    """Split a task over the arrangement classes of its first `nsplit` free columns."""
    cols = list(range(ncols)) if kw.get('surf_cols') is None else list(kw['surf_cols'])
    out = []
    for combo in itertools.product(range(n_classes(nz)), repeat=nsplit):
        k2 = dict(kw); k2['fix'] = dict(zip(cols[:nsplit], combo))
        out.append(k2)
    return out


def catalogue(tier):
    T = []
    def add(**kw): T.append((task_fromgeo, kw))
    first = [True]
    # (1) every configuration of the quantifier's finite space
    for atm, conv, order, angle, mp in itertools.product(ATMS, CONVS, ORDERS, ANGLES, MAPS):
        if tier == 'quick':
            add(family='rect', shape=(2, 1, 2), atm=atm, conv=conv, order=order, angle=angle, use_map=mp,
                surf_cols=[0], profile=first[0])
        else:
            add(family='rect', shape=(2, 1, 2), atm=atm, conv=conv, order=order, angle=angle, use_map=mp,
                profile=first[0])
        first[0] = False
    return T


def run(tier, seed, rep):
    _load()
    tasks = catalogue(tier)
    if seed:
        import random
        random.Random(seed).shuffle(tasks)
    rep.add_results(report.run_tasks(tasks))
    rep.process_failures()
    return rep.finish(rule='one obligation = one (label, z3 formula) per block / connection / column on one path; '
                           'distinct = distinct non-constant simplified formulas by AST hash')
