"""C04 - geometry -> TOUGH2 grid conversion is geometrically exact and
index-consistent.

The REAL mulgrid.rectangular / add_node / add_column / add_connection /
add_layers / rotate / translate and t2grid.fromgeo (reloaded from the repo)
run on symbolic spacings, origin, shape parameters, column surfaces,
atmosphere volume and connection distance.  On every path (= one arrangement
of the column surfaces relative to the layer boundaries, and of the shape
parameters, decided by z3) the resulting block and connection lists are
compared with an independent expectation (harness/geo_oracle.py) and every
volume, area, distance, gravity cosine and permeability direction is proved
equal to its geometric definition for ALL values on that path.
"""
import itertools
import math
import sys as _sys
import z3
from fractions import Fraction
from vx import sym, loader, report
from vx.sym import SReal, SInt, SBool
from harness import geo_oracle as GO
from harness import geo_build as GB
from harness import geo_sym as GS

PID = 'C04'
GROUP_TIMEOUT_MS = 250
MAX_FAILURES_PER_TASK = 6     # a task with this many counterexamples stops exploring further paths
TASK_WALL_S = 1500

_LD = None
def _load():
    global _LD
    if _LD is None:
        _LD = loader.load(['t2grids'])
    return _LD


# ---------------------------------------------------------------------------
# symbolic inputs per family

def _pos(c, name): return c.real(name, 0, strict_lo=True)

def _origin(c): return [c.real('ox'), c.real('oy'), c.real('oz')]


def make_inputs(c, family, shape, mixmode='full'):
    if family == 'rect':
        nx, ny, nz = shape
        return dict(dx=[_pos(c, 'dx%d' % i) for i in range(nx)], dy=[_pos(c, 'dy%d' % i) for i in range(ny)],
                    dz=[_pos(c, 'dz%d' % i) for i in range(nz)], origin=_origin(c))
    nz = shape
    dz = [_pos(c, 'dz%d' % i) for i in range(nz)]
    if family == 'quadfam':
        a, b = _pos(c, 'a'), _pos(c, 'b')
        c.add(z3.And(a.e + b.e > 1, a.e < 2, a.e < b.e + 1))
        return dict(a=a, b=b, dz=dz, origin=_origin(c))
    # mix5 / triquad
    if mixmode == 'full':
        t = c.real('t'); c.add(z3.And(t.e > Fraction(-1, 2), t.e < Fraction(1, 2)))
        k = c.real('k'); c.add(z3.And(k.e > -1, k.e < 1))
    else:   # 'stretch': shear and slide fixed, stretch / origin / layers / surfaces symbolic
        t, k = Fraction(1, 3), Fraction(1, 4)
    return dict(sx=_pos(c, 'sx'), sy=_pos(c, 'sy'), k=k, t=t, dz=dz, origin=_origin(c))


def _install_exact_trig(ld, table):
    """cos / sin seen by the reloaded modules return the exact rational pair for
    the angles in `table` (degrees -> (cos, sin)); every other angle goes to the
    real math functions (whose float results are lifted to exact rationals)."""
    m = _sys.modules[ld.pkg + '._math']
    if getattr(m, '_c04_exact', None) is not None:
        m._c04_exact.clear(); m._c04_exact.update(table)     # task-scoped: never leaks into another task
        return
    m._c04_exact = dict(table)
    real_cos, real_sin = m.cos, m.sin
    class Deg(float): pass
    def radians(x):
        r = Deg(math.radians(x)); r.deg = x
        return r
    def _lookup(x):
        d = getattr(x, 'deg', None)
        if d is None: return None
        for a, cs in m._c04_exact.items():
            if abs(abs(d) - a) < 1e-9: return d, cs
        return None
    def cos(x):
        hit = _lookup(x)
        return SReal(z3.RealVal(hit[1][0])) if hit else real_cos(x)
    def sin(x):
        hit = _lookup(x)
        if not hit: return real_sin(x)
        return SReal(z3.RealVal(hit[1][1] if hit[0] > 0 else -hit[1][1]))
    m.radians, m.cos, m.sin = radians, cos, sin


def _slug(label):
    return ''.join(ch if ch.isalnum() else '_' for ch in label).strip('_')


def make_inputs_b(c, family, shape, inp):
    """A second, independent set of HORIZONTAL inputs for the same shape (the node positions an
    existing geometry is moved to); layers and top elevation are those of `inp`."""
    o = [c.real('oxb'), c.real('oyb'), inp['origin'][2]]
    if family == 'rect':
        nx, ny, nz = shape
        return dict(dx=[_pos(c, 'dxb%d' % i) for i in range(nx)], dy=[_pos(c, 'dyb%d' % i) for i in range(ny)],
                    dz=inp['dz'], origin=o)
    if family == 'quadfam':
        a, b = _pos(c, 'a_b'), _pos(c, 'b_b')
        c.add(z3.And(a.e + b.e > 1, a.e < 2, a.e < b.e + 1))
        return dict(a=a, b=b, dz=inp['dz'], origin=o)
    return dict(sx=_pos(c, 'sxb'), sy=_pos(c, 'syb'), k=inp['k'], t=inp['t'], dz=inp['dz'], origin=o)


def variant_of(rename, raw_surface, preconvert, move, edits):
    """Tag of the non-default ways a geometry reaches its final state (part of failure keys)."""
    v = []
    if rename: v.append('renamed-columns')
    if raw_surface: v.append('surface-assigned-no-refresh')
    if move: v.append('nodes-moved')
    for e in edits or (): v.append('after-' + e[0])
    if preconvert: v.append('second-conversion')
    return '+'.join(v)


def class_constraint(s, tops, bots, cls):
    """Arrangement classes of a surface s (nz layers): 0 = above the top;
    then going down: 1 = at top of layer 1, 2 = inside layer 1, 3 = at top of
    layer 2 (= bottom of layer 1), 4 = inside layer 2, ..."""
    se = s.e
    if cls == 0: return se > GS.zterm(tops[0])
    k, r = divmod(cls - 1, 2)
    if r == 0: return se == GS.zterm(tops[k])
    return z3.And(se < GS.zterm(tops[k]), se > GS.zterm(bots[k]))


def n_classes(nz): return 2 * nz + 1


def task_fromgeo(family, shape, atm, conv, order, angle, use_map, surf_cols=None, rot=None,
                 translate=False, fix=None, mixmode='full', profile=False, built_atm=None,
                 rename=None, raw_surface=False, preconvert=False, move=False, edits=()):
    """One shape/configuration; all values symbolic.
    family 'rect': shape = (nx, ny, nz); 'mix5' / 'triquad' / 'quadfam': shape = nz.
    surf_cols: columns with a free symbolic surface (None = all); the others
    keep the default surface (top of the geometry).
    fix: optional {column index: class index} restricting a column's surface to
    one arrangement class (only used to split a big task over processes; the
    union of the sub-tasks is the unrestricted task).
    Round 4 - the geometry OBJECT reaches its final state by documented in-place operations:
    rename {column index: name}: real rename_column() after construction;
    raw_surface: surfaces are only assigned (`col.surface = s`), nothing else is called;
    preconvert: the geometry is converted once before move / edits (same t2grid object re-used);
    move: every node is moved to the positions of a second symbolic input set, then centre =
    centroid and get_area() as mulgrid.optimize() does;
    edits: [('delete_column', k) | ('delete_layer_bottom',) | ('split_column', k, p)] by the real methods."""
    ld = _load()
    M, T = ld.mulgrids, ld.t2grids
    failures, samples, distinct = [], [], set()
    failed_labels = set()    # once an obligation kind has a counterexample in this task it is not re-proved
    perm_cs = GO.perm_cos_sin(angle)
    state = dict(reached=0)
    expect_oracle_error = (order == 'dmplex' and family == 'mix5')
    cfg = dict(family=family, shape=shape, atm=atm, convention=conv, order=order, angle=angle,
               use_map=use_map, rot=rot, translate=translate, mixmode=mixmode, built_atm=built_atm,
               rename=rename, raw_surface=raw_surface, preconvert=preconvert, move=move, edits=[list(e) for e in edits])
    variant = variant_of(rename, raw_surface, preconvert, move, edits)
    n_bottom_deleted = len([e for e in edits if e[0] == 'delete_layer_bottom'])
    assert not (move and (rot or translate))

    def h(c):
        if len(failures) >= MAX_FAILURES_PER_TASK: return 'not explored: the task already has counterexamples'
        ops = GS.SymOps()
        inp = make_inputs(c, family, shape, mixmode)
        mesh = GB.oracle_mesh(family, inp)
        ncol = len(mesh['cols'])
        tops, bots, mids = GO.layer_levels(mesh)
        atmvol = _pos(c, 'atmvol'); atmcon = _pos(c, 'atmcon')
        which = list(range(ncol)) if surf_cols is None else list(surf_cols)
        surfaces = [None] * ncol
        for k in which:
            s = c.real('s%d' % k)
            c.add(s.e > GS.zterm(bots[-1 - n_bottom_deleted]))          # the bottom layer (of the final geometry) is never empty
            if fix and k in fix: c.add(class_constraint(s, tops, bots, fix[k]))
            surfaces[k] = s
        pivot = shift = None
        _install_exact_trig(ld, {GB.ROT_DEG[rot]: GB.ROT[rot]} if rot else {})
        if rot:
            assert abs(GB.ROT_DEG[rot] - angle) > 1e-6, 'rotation angle must differ from the permeability angle (exact-trig stub)'
            pivot = (c.real('px'), c.real('py'))
        if translate: shift = [c.real('tx'), c.real('ty'), c.real('tz')]
        inp_b = make_inputs_b(c, family, shape, inp) if move else None

        def record(label, what, model):
            def val(x):
                if x is None or model is None: return None
                return GS.model_num(model, x)
            data = dict(cfg, label=label,
                        inputs={k: ([val(x) for x in v] if isinstance(v, list) else val(v)) for k, v in inp.items()},
                        inputs_b=None if inp_b is None else
                        {k: ([val(x) for x in v] if isinstance(v, list) else val(v)) for k, v in inp_b.items()},
                        surfaces=[val(s) for s in surfaces], atmvol=val(atmvol), atmcon=val(atmcon),
                        pivot=[val(p) for p in pivot] if pivot else None,
                        shift=[val(p) for p in shift] if shift else None)
            failures.append(dict(key='%s/%s%s' % (family, variant + '/' if variant else '', _slug(label)), what=what, replay=data))

        # ---- code under test
        try:
            geo, _ = GB.build(M, family, inp, conv, atm if built_atm is None else built_atm, order, mesh)
            # a geometry created with one atmosphere type and switched to another afterwards
            if built_atm is not None: geo.atmosphere_type = atm
            if rename: GB.rename_columns(geo, rename)
            blockmap = GB.make_blockmap(geo) if use_map else {}
            mesh2, surf = GB.configure(geo, mesh, angle, atmvol, atmcon, surfaces, rot, pivot, shift,
                                       refresh=not raw_surface)
            grid, mesh2, surf = GB.edit_and_convert(M, T, geo, blockmap, mesh2, surf, preconvert,
                                                    GB.oracle_mesh(family, inp_b) if move else None, edits)
        except Exception as exn:
            if expect_oracle_error and 'DMPlex' in str(exn):
                return 'documented: %s' % exn       # 10-node blocks have no DMPlex order
            import traceback
            tb = traceback.extract_tb(exn.__traceback__)[-1]
            c.prove(False, 'no exception in geometry construction / fromgeo')
            rr, m = c.reachable()
            record('no exception in geometry construction / fromgeo',
                   '%s: %s at %s:%d' % (type(exn).__name__, exn, tb.filename.split('/')[-1], tb.lineno), m)
            state['reached'] += 1
            return 'raised %s' % type(exn).__name__

        # ---- independent expectation, obligations
        try:
            ex = GO.Expected(ops, mesh2, surf, atm, order, perm_cs, atmvol, atmcon)
            ex.block_cells()
        except ValueError as e:
            return 'oracle: %s' % e
        rr, _m = c.reachable()           # non-vacuity: the whole path condition is satisfiable
        if rr != 'sat': return 'unreachable path condition (%s)' % rr
        state['reached'] += 1

        pending = []
        def P(ob, where): pending.append((ob, where))

        def S(ok, label, what):
            r = c.prove(bool(ok), label)
            if r == 'sat':
                rr, m = c.reachable()
                record(label, what, m)

        def prove_one(ob, where):
            r = c.prove(GS.formula(ob), ob[0], info=where)
            if r != 'unsat': failed_labels.add(ob[0])
            if r == 'sat':
                record(ob[0], '%s fails at %s' % (ob[0], where), c.failures[-1]['model'])
            return r

        def discharge():
            """Numeric obligations are first sent to the solver one item
            (column, block, connection) at a time as a conjunction with a short
            time limit; unless that is unsat the item's obligations are decided
            one by one (which also names the failing one).  One query for a
            whole path was measured 10x slower than the per-item queries, and
            the conjunction of a slanted connection's obligations slower than
            its parts."""
            groups, order_ = {}, []
            for ob, where in pending:
                if ob[0] in failed_labels:
                    c.stats['ob_skipped_after_failure'] = c.stats.get('ob_skipped_after_failure', 0) + 1
                    continue
                f = z3.simplify(GS.formula(ob))
                if z3.is_true(f):
                    c.stats['obligations'] += 1; c.stats['ob_unsat'] += 1
                    c.stats['ob_trivial'] = c.stats.get('ob_trivial', 0) + 1
                    continue
                distinct.add((ob[0], f.hash()))
                if where not in groups: groups[where] = []; order_.append(where)
                groups[where].append((f, ob))
            for where in order_:
                fs = groups[where]
                if len(fs) > 1:
                    r, _ = c.solve(z3.Not(z3.And(*[f for f, _ in fs])), timeout_ms=GROUP_TIMEOUT_MS)
                    if r == 'unsat':
                        c.stats['obligations'] += len(fs); c.stats['ob_unsat'] += len(fs)
                        continue
                for f, ob in fs:
                    if ob[0] not in failed_labels: prove_one(ob, where)

        summary = GB.compare(ex, geo, grid, blockmap, S, P)
        discharge()
        if summary is None: return 'structure differs'
        if len(samples) < 1:
            samples.append(dict(config=cfg, blocks=[b.name for b in grid.blocklist][:12],
                                connections=[[b.name for b in con.block] for con in grid.connectionlist[:8]],
                                example_obligation='volume of block %r: %s == %s' % (
                                    grid.blocklist[-1].name, GS.zterm(grid.blocklist[-1].volume).sexpr()[:200],
                                    GS.zterm(ex.volume(*ex.block_cells()[-1])).sexpr()[:200])))
        return summary

    res = sym.explore(h, GS.FastCtx(timeout_ms=30000), max_paths=20000, wall_s=TASK_WALL_S, profile_repo=profile)
    if state['reached'] == 0 and not expect_oracle_error:
        res['exhausted'] = False          # vacuous: never reached the obligations
    name = '%s%s/atm%d/conv%d/%s/angle%g/%s%s%s%s%s%s%s' % (
        family, '%dx%dx%d' % tuple(shape) if family == 'rect' else '/nz%d' % shape, atm, conv, order, angle,
        'map' if use_map else 'nomap',
        '' if surf_cols is None else '/surf:' + ','.join(map(str, surf_cols)),
        '/rot-%s' % rot if rot else '', '/translated' if translate else '',
        '' if family in ('rect', 'quadfam') else '/' + mixmode,
        ('' if built_atm is None else '/built-as-atm%d' % built_atm) + ('/' + variant if variant else ''),
        '' if not fix else '/fix:' + ','.join('%d=%d' % kv for kv in sorted(fix.items())))
    return report.summarize(name, res, failures, samples, extra=dict(distinct_obligations=len(distinct)))


# ---------------------------------------------------------------------------
# catalogue

ATMS, CONVS, ORDERS, ANGLES, MAPS = (0, 1, 2), (0, 1, 2, 3), (None, 'layer_column', 'dmplex'), (0.0, 30.0, 90.0), (False, True)


def split(kw, ncols, nz, nsplit):
    """Split a task over the arrangement classes of its first `nsplit` free columns."""
    cols = list(range(ncols)) if kw.get('surf_cols') is None else list(kw['surf_cols'])
    out = []
    for combo in itertools.product(range(n_classes(nz)), repeat=nsplit):
        k2 = dict(kw); k2['fix'] = dict(zip(cols[:nsplit], combo))
        out.append(k2)
    return out


def catalogue(tier):
    T = []
    def add(**kw): T.append((task_fromgeo, kw))
    def add_split(nsplit, ncols, nz, **kw):
        for k2 in split(kw, ncols, nz, nsplit): T.append((task_fromgeo, k2))
    quick = (tier == 'quick')
    first = [True]
    # (1) every configuration of the quantifier's finite space (216) on RECT(2x1x2):
    #     quick: surface of column 0 free; thorough: both surfaces free for the 72 configurations
    #     with permeability angle 0, surface of column 0 free for the other 144
    for atm, conv, order, angle, mp in itertools.product(ATMS, CONVS, ORDERS, ANGLES, MAPS):
        add(family='rect', shape=(2, 1, 2), atm=atm, conv=conv, order=order, angle=angle, use_map=mp,
            surf_cols=[0] if (quick or angle != 0.0) else None, profile=first[0])
        first[0] = False
    # (2) RECT(2x2x2): quick = three free surfaces (125 arrangements, the fourth column at the
    #     default surface); thorough = all four free (625 arrangements) for atmosphere type 1 and
    #     three free (125 arrangements) for types 0 and 2
    if quick:
        add_split(2, 3, 2, family='rect', shape=(2, 2, 2), atm=1, conv=0, order=None, angle=30.0, use_map=True,
                  surf_cols=[0, 1, 3])
    else:
        add_split(2, 4, 2, family='rect', shape=(2, 2, 2), atm=1, conv=0, order=None, angle=30.0, use_map=True)
        add_split(1, 3, 2, family='rect', shape=(2, 2, 2), atm=0, conv=1, order='dmplex', angle=0.0, use_map=False, surf_cols=[0, 1, 2])
        add_split(1, 3, 2, family='rect', shape=(2, 2, 2), atm=2, conv=3, order='layer_column', angle=90.0, use_map=True, surf_cols=[1, 2, 3])
    # (3) small shapes with every surface free: rows in x and in y, a single column, a single layer
    for i, (shape, atm) in enumerate([((2, 1, 2), 0), ((2, 1, 2), 1), ((2, 1, 2), 2), ((1, 2, 2), 0), ((1, 2, 2), 1),
                                      ((1, 2, 2), 2), ((1, 1, 2), 0), ((2, 1, 1), 1), ((1, 1, 1), 2)]):
        add(family='rect', shape=shape, atm=atm, conv=(i + 1) % 4, order=ORDERS[i % 3], angle=ANGLES[i % 3], use_map=bool(i % 2))
    # (3b) atmosphere type assigned after construction (every ordered pair of types)
    for i, (a0, a1) in enumerate([(0, 1), (0, 2), (1, 0), (1, 2), (2, 0), (2, 1)]):
        # default surfaces (surf_cols=[]): setting a surface is followed by a refresh of the name lists
        add(family='rect', shape=(2, 1, 2), atm=a1, built_atm=a0, conv=i % 4, order=ORDERS[i % 3], angle=ANGLES[i % 3], use_map=bool(i % 2), surf_cols=[])
    add(family='quadfam', shape=2, atm=0, built_atm=2, conv=1, order=None, angle=0.0, use_map=False, surf_cols=[])
    # (4) rotated (exact rational rotation about a symbolic pivot) and translated (symbolic shift)
    add(family='rect', shape=(2, 1, 2), atm=0, conv=0, order=None, angle=30.0, use_map=False, rot='p345', translate=True, profile=True)
    add(family='rect', shape=(1, 2, 2), atm=1, conv=2, order=None, angle=0.0, use_map=True, rot='q90', surf_cols=[1])
    # (5) irregular: quadrilateral family with a free vertex; triangles/quads/pentagon mesh
    add(family='quadfam', shape=2, atm=0, conv=3, order='dmplex', angle=30.0, use_map=True, surf_cols=[0], profile=True)
    add_split(1, 1, 2, family='mix5', shape=2, atm=1, conv=0, order=None, angle=0.0, use_map=True, surf_cols=[4], mixmode='stretch')
    add_split(1, 1, 2, family='triquad', shape=2, atm=0, conv=2, order='dmplex', angle=0.0, use_map=False, surf_cols=[2], mixmode='stretch')
    add(family='mix5', shape=2, atm=0, conv=0, order='dmplex', angle=0.0, use_map=False, surf_cols=[], mixmode='stretch')   # documented exception
    # (5b) round 4: the geometry OBJECT reaches its final state by documented in-place operations
    R = dict(family='rect', order=None, use_map=False)
    #   converted, nodes moved (what optimize() does), converted again with the same t2grid object
    add(shape=(2, 1, 2), atm=0, conv=0, angle=0.0, surf_cols=[0] if quick else None, preconvert=True, move=True, **R)
    add(family='rect', shape=(1, 2, 2), atm=1, conv=2, order='layer_column', angle=30.0, use_map=True, surf_cols=[1], preconvert=True, move=True)
    add(family='quadfam', shape=2, atm=2, conv=1, order=None, angle=0.0, use_map=False, surf_cols=[] if quick else [1], preconvert=True, move=True)
    add(family='triquad', shape=2, atm=0, conv=3, order='dmplex', angle=0.0, use_map=True, surf_cols=[], mixmode='stretch', preconvert=True, move=True)
    add(shape=(2, 1, 2), atm=1, conv=1, angle=0.0, surf_cols=[1], move=True, **R)                 # moved, converted once
    #   split_column() (quadrilateral -> two triangles), with and without an earlier conversion
    add(shape=(2, 1, 2), atm=0, conv=0, angle=0.0, surf_cols=[0], preconvert=True, edits=[('split_column', 0, 0)], **R)
    add(family='rect', shape=(2, 1, 2), atm=1, conv=2, order='dmplex', angle=30.0, use_map=True, surf_cols=[1], edits=[('split_column', 1, 1)])
    add(family='quadfam', shape=2, atm=2, conv=3, order='dmplex', angle=0.0, use_map=False, surf_cols=[], preconvert=True, edits=[('split_column', 0, 2)])
    #   (2x2: the split column has a neighbour whose connection must move to the new triangle)
    add(shape=(2, 2, 2), atm=0, conv=0, angle=0.0, surf_cols=[], preconvert=True, edits=[('split_column', 0, 0)], **R)
    #   delete_column() / delete_layer() on an existing geometry
    add(shape=(3, 1, 2), atm=0, conv=0, angle=0.0, surf_cols=[0], edits=[('delete_column', 2)], **R)
    add(family='rect', shape=(2, 2, 2), atm=1, conv=1, order='layer_column', angle=0.0, use_map=True, surf_cols=[3], preconvert=True, edits=[('delete_column', 0)])
    add(shape=(2, 1, 3), atm=0, conv=0, angle=0.0, surf_cols=[0], edits=[('delete_layer_bottom',)], **R)
    add(shape=(2, 1, 3), atm=2, conv=2, angle=0.0, surf_cols=[], preconvert=True, edits=[('delete_layer_bottom',)], **R)
    #   column surface assigned through the documented `surface` property only
    for atm in ATMS:
        add(shape=(2, 1, 2), atm=atm, conv=atm, angle=0.0, surf_cols=[0] if (quick or atm != 0) else None, raw_surface=True, **R)
    #   columns renamed with rename_column(): third character a digit / numeric names
    add(shape=(2, 1, 3), atm=0, conv=0, angle=0.0, surf_cols=[0], rename={0: 'ab1'}, **R)
    add(family='rect', shape=(2, 1, 2), atm=1, conv=0, order='dmplex', angle=0.0, use_map=True, surf_cols=[1], rename={0: ' 12', 1: '  7'})
    add(shape=(2, 1, 2), atm=0, conv=3, angle=0.0, surf_cols=[0], rename={0: 'ab1'}, **R)
    add(shape=(2, 1, 2), atm=2, conv=2, angle=0.0, surf_cols=[0], rename={0: ' 12', 1: '  7'}, **R)
    add(shape=(2, 1, 2), atm=1, conv=1, angle=0.0, surf_cols=[0], rename={0: 'a1', 1: ' 7'}, **R)
    if quick: return T
    # ---- thorough only
    # (5c) round 4, more freedom
    add(family='mix5', shape=2, atm=1, conv=0, order=None, angle=0.0, use_map=True, surf_cols=[], mixmode='stretch', preconvert=True, move=True)
    add_split(1, 1, 2, shape=(2, 2, 2), atm=1, conv=1, angle=30.0, surf_cols=[0], preconvert=True, move=True, **R)
    add_split(1, 1, 2, shape=(2, 2, 2), atm=0, conv=0, angle=0.0, surf_cols=[0], preconvert=True, edits=[('split_column', 0, 0)], **R)
    add_split(1, 1, 2, shape=(2, 2, 2), atm=2, conv=2, angle=0.0, surf_cols=[1], edits=[('split_column', 3, 1)], **R)
    add(shape=(2, 2, 2), atm=1, conv=3, angle=0.0, surf_cols=[], preconvert=True, edits=[('split_column', 1, 3), ('split_column', 2, 0)], **R)
    add(family='triquad', shape=2, atm=0, conv=0, order='dmplex', angle=0.0, use_map=False, surf_cols=[3], mixmode='stretch', edits=[('delete_column', 2)])
    add(shape=(2, 2, 3), atm=1, conv=0, angle=0.0, surf_cols=[0, 3], edits=[('delete_column', 1), ('delete_layer_bottom',)], **R)
    add(shape=(2, 2, 2), atm=0, conv=0, angle=0.0, surf_cols=[0, 3], raw_surface=True, **R)
    add(family='quadfam', shape=2, atm=1, conv=2, order='dmplex', angle=0.0, use_map=True, raw_surface=True)
    add(family='rect', shape=(2, 2, 2), atm=0, conv=0, order='dmplex', angle=30.0, use_map=True, surf_cols=[0, 3], rename={0: '  1', 1: ' a1', 3: '123'})
    # (6) RECT(3x2x3): pairs / a triple of free surfaces (7 classes each), the other columns at the default surface
    for atm, pair in ((0, [0, 1]), (1, [1, 4]), (2, [0, 4]), (1, [2, 5])):
        add_split(1, 2, 3, family='rect', shape=(3, 2, 3), atm=atm, conv=atm, order=ORDERS[atm], angle=ANGLES[atm],
                  use_map=bool(atm % 2), surf_cols=pair)
    for cls4 in (0, 2, 6):      # third free column: above the top / inside layer 1 / at the top of the bottom layer
        for k2 in split(dict(family='rect', shape=(3, 2, 3), atm=1, conv=3, order=None, angle=30.0, use_map=True, surf_cols=[0, 1, 4]), 3, 3, 1):
            k2['fix'][4] = cls4
            T.append((task_fromgeo, k2))
    # (7) irregular, more freedom
    add_split(1, 1, 2, family='triquad', shape=2, atm=0, conv=0, order=None, angle=0.0, use_map=False, surf_cols=[0], mixmode='full')
    add_split(1, 1, 2, family='mix5', shape=2, atm=1, conv=3, order='layer_column', angle=30.0, use_map=True, surf_cols=[4], mixmode='full')
    add_split(1, 1, 2, family='triquad', shape=2, atm=2, conv=1, order='dmplex', angle=90.0, use_map=True, surf_cols=[3], mixmode='full')
    for pair, atm in (([0, 2], 0), ([3, 4], 1)):
        add_split(1, 2, 2, family='mix5', shape=2, atm=atm, conv=atm, order=None, angle=0.0, use_map=bool(atm), surf_cols=pair, mixmode='stretch')
    add_split(1, 1, 3, family='mix5', shape=3, atm=1, conv=0, order=None, angle=30.0, use_map=False, surf_cols=[4], mixmode='stretch')
    add_split(1, 2, 2, family='triquad', shape=2, atm=1, conv=2, order='dmplex', angle=0.0, use_map=True, surf_cols=[1, 3], mixmode='stretch')
    for atm in ATMS:
        add(family='quadfam', shape=2, atm=atm, conv=atm + 1, order=ORDERS[atm], angle=ANGLES[atm], use_map=bool(atm % 2))
    add(family='quadfam', shape=3, atm=0, conv=0, order=None, angle=30.0, use_map=True, surf_cols=[1])
    # (8) rotations / translation
    for rot, atm, ang in (('p345', 0, 0.0), ('p51213', 1, 90.0), ('q90', 2, 30.0)):
        add(family='rect', shape=(2, 2, 2), atm=atm, conv=atm, order=None, angle=ang, use_map=bool(atm), rot=rot, translate=(atm != 1), surf_cols=[0, 3])
    add_split(1, 1, 2, family='mix5', shape=2, atm=0, conv=0, order=None, angle=0.0, use_map=False, surf_cols=[4], mixmode='stretch', rot='p345', translate=True)
    return T


def run(tier, seed, rep):
    _load()
    tasks = catalogue(tier)
    if seed:
        import random
        random.Random(seed).shuffle(tasks)
    rep.add_results(report.run_tasks(tasks))
    quick = (tier == 'quick')
    rep.bounds += [
        'values: every spacing / stretch > 0, origin, atmosphere volume > 0 and connection distance > 0, rotation pivot, '
        'translation vector: arbitrary reals (exact real arithmetic, no magnitude bound)',
        'column surfaces: any real above the bottom of the lowest layer, up to and beyond the top of the geometry; every '
        'arrangement relative to the layer boundaries (strictly inside a layer, exactly on a boundary, above the top) is a path',
        'configurations: all 216 = atmosphere {0,1,2} x convention {0..3} x block order {None,layer_column,dmplex} x '
        'permeability angle {0,30,90} x block map {none, concrete map renaming every other block} on RECT(2x1x2) with '
        + ('the surface of column 0 free' if quick else 'both surfaces free (72 configurations with angle 0) or the surface of column 0 free (144)'),
        ('RECT(2x2x2) with 3 free surfaces (125 arrangements), 1 configuration' if quick else
         'RECT(2x2x2) with all 4 surfaces free (625 arrangements, atmosphere type 1) and with 3 free surfaces (125 arrangements, types 0 and 2)'),
        'RECT 2x1x2, 1x2x2 (all surfaces free, every atmosphere type), 1x1x2, 2x1x1, 1x1x1',
        'rotation by the real rotate() at angles with rational cosine/sine (3-4-5' + (', 5-12-13' if not quick else '') +
        ', 90 degrees) about a symbolic pivot, translation by a symbolic vector',
        'irregular: QUADFAM (two quadrilaterals sharing a free vertex (a,b)), MIX5 (2 quadrilaterals, 2 triangles, 1 pentagon; '
        'symbolic stretch sx, sy' + ('' if quick else '; in mode full also symbolic shear k in (-1,1) and vertex slide t in (-1/2,1/2)') +
        '), TRIQUAD (MIX5 without the pentagon, for the dmplex order); 2 layers' + ('' if quick else ' (one MIX5 and one QUADFAM task with 3)') +
        '; one free surface' + ('' if quick else ' or a pair of free surfaces'),
        'round 4 - geometry objects that reach their final state by in-place operations (small shapes: RECT 2x1x2, 1x2x2, 3x1x2, '
        '2x2x2, 2x1x3, QUADFAM, TRIQUAD' + ('' if quick else ', MIX5, 2x2x3') + '; one' + ('' if quick else ' or two') + ' free surface(s)): '
        'fromgeo -> every node moved to a second symbolic position set (+ centre = centroid, get_area(), as optimize() does) -> '
        'fromgeo again into the same t2grid object; split_column() with and without an earlier conversion; delete_column(); '
        'delete_layer() of the bottom layer; surfaces assigned through column.surface only; rename_column() to names whose third '
        'character is a digit / numeric names (conventions 0..3)',
    ]
    if not quick:
        rep.bounds += ['RECT(3x2x3): pairs of free surfaces [0,1] (atm 0), [1,4] and [2,5] (atm 1), [0,4] (atm 2) (49 arrangements each), '
                       'the triple [0,1,4] (147 arrangements: column 4 above the top / inside layer 1 / at the top of the bottom layer); the other columns at the default surface']
    rep.outside += [
        'tilted geometries (gdcx / gdcy non-zero): only the untilted gravity cosines are decided',
        'rotation at angles whose cosine/sine are irrational (cos/sin of symbolic or general angles are not encoded)',
        'columns with more than 5 nodes; the shipped geometries g1..g7 and their refinements as inputs',
        'rectangular sizes beyond 2x2x2 with all surfaces free / 3x2x3 with three free surfaces; more than 3 layers',
        'IEEE rounding: all identities are decided in exact real arithmetic over the exact values of the float constants',
        'the naming functions themselves (column / layer / block name generation is property C17); names are concrete here',
    ]
    rep.assumptions += [
        'the bottom layer of every column is non-empty: surface > bottom of the lowest layer',
        'surfaces are installed the way the library does it: col.surface = s; set_column_num_layers(col); '
        'setup_block_name_index(); setup_block_connection_name_index() - except in the "surface-assigned-no-refresh" tasks, '
        'where only the documented property is assigned (no documented method refreshes the name lists)',
        'node moves are followed by col.centre = col.centroid; col.get_area() for every column (the closing steps of mulgrid.optimize()); '
        'hand-moved nodes without that are outside the claim',
        'split_column(): the named column keeps the triangle (node, next, opposite) in anticlockwise order, the new column is appended '
        'last with (opposite, previous, node) - the documented direction of the split, the assignment of names is as implemented',
        'irregular geometries are assembled like mulgrid.from_gmsh(): add_node, add_column(column(..)), add_connection for every '
        'pair of columns sharing an edge (in sorted order), add_layers, set_default_surface, identify_neighbours, index set-up',
        'math.cos / math.sin of the rotation angle are replaced by the exact rational pair on the unit circle (so that a rotation '
        'preserves lengths exactly in real arithmetic); cos/sin of the permeability angle are the real float values, lifted exactly',
        'MIX5 / QUADFAM shape parameters stay in the stated open ranges, which keep every column convex and anticlockwise',
        'block centre convention as documented in mulgrid.block_centre: layer centre, except (bottom + surface)/2 in a surface block '
        'whose surface is not above the layer top; vertical connection distances are centre-to-interface distances',
        'permeability direction = index of the larger component (first on ties) of the horizontal centre-to-centre vector rotated '
        'clockwise by the permeability angle',
    ]
    rep.trusted += ['harness/geo_oracle.py (shoelace area, fan-triangulation centroid, squared point-line distance, area x height)',
                    'harness/geo_sym.py FastCtx (per-path branch-decision cache, cross-path cache of identical UNSAT queries, '
                    'qfnra-nlsat front end with fall-back to the stock solver)']
    rep.extra['configurations'] = len(ATMS) * len(CONVS) * len(ORDERS) * len(ANGLES) * len(MAPS)
    rep.extra['invalid_models_rechecked'] = sum(r.get('stats', {}).get('invalid_models', 0) + r.get('stats', {}).get('invalid_models_rechecked', 0) for r in rep.results)
    rep.process_failures()
    return rep.finish(rule='one obligation = one (label, z3 formula) per column / block / connection on one path '
                           '(pc AND NOT formula must be unsat); structural list comparisons are concrete per path '
                           '(the path itself is a solver-decided arrangement); distinct = distinct non-constant '
                           'simplified formulas by (label, AST hash) per task')
