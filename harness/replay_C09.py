"""Replay for C09 on the REAL t2grids (no z3): build the concrete grid, take
its physical description from the ordered lists, run the operation, take the
description again and compare with plain Python.  reproduced = the clause
named in the counterexample is violated."""
import contextlib
import io
import os
import sys
from fractions import Fraction

sys.path.insert(0, os.path.dirname(os.path.abspath(__file__)))
from replay_C08 import build, num     # concrete pre-state builder (shared with C08's replay)

RTOL = 1e-9     # floats here; the solver's counterexamples are far outside this


def fixed(name):
    """documented meaning of a block name typed the TOUGH2 way: a blank in the 4th column between two digits is a zero."""
    if len(name) == 5 and name[2] in '0123456789' and name[4] in '0123456789' and name[3] == ' ':
        return name[:3] + '0' + name[4]
    return name


def list_clauses(g, objs_b, objs_c):
    """every block / connection object that was listed before is listed exactly once afterwards; totals of the
    listed volumes / areas (exact sums of the stored floats: only membership can change them here)."""
    bad = {}
    if sorted(id(b) for b in g.blocklist) != sorted(id(b) for b in objs_b):
        bad['blocks-not-all-listed'] = '%d blocks listed, %d before; no longer listed: %r' % (
            len(g.blocklist), len(objs_b), [b.name for b in objs_b if not any(b is x for x in g.blocklist)])
    if sorted(id(x) for x in g.connectionlist) != sorted(id(x) for x in objs_c):
        bad['connections-not-all-listed'] = '%d connections listed, %d before' % (len(g.connectionlist), len(objs_c))
    tot = lambda xs: sum((Fraction(x) for x in xs), Fraction(0))
    vol0, vol1 = tot(b.volume for b in objs_b), tot(b.volume for b in g.blocklist)
    area0, area1 = tot(x.area for x in objs_c), tot(x.area for x in g.connectionlist)
    if vol1 != vol0: bad['listed-volume'] = 'total volume of the listed blocks %r, before %r' % (float(vol1), float(vol0))
    if area1 != area0: bad['listed-area'] = 'total area of the listed connections %r, before %r' % (float(area1), float(area0))
    return bad


def describe(g):
    """name-based physical description of what a data file would contain."""
    blocks = {}
    for b in g.blocklist:
        blocks.setdefault(b.name, []).append((b.volume, b.rocktype.name, None if b.centre is None else tuple(float(x) for x in b.centre)))
    cons = []
    for con in g.connectionlist:
        a, b = con.block[0].name, con.block[1].name
        cons.append(dict(pair=frozenset([a, b]), dist={a: con.distance[0], b: con.distance[1]},
                         nad={a: con.nad1, b: con.nad2}, area=con.area, direction=con.direction,
                         first=a, cos_from_first=con.dircos))
    return blocks, cons


def cmp_connections(before, after, rename=None):
    """returns dict clause -> message for every violated clause."""
    f = (lambda n: rename.get(n, n)) if rename else (lambda n: n)
    bad = {}
    for cb in before:
        pair = frozenset(f(n) for n in cb['pair'])
        match = [ca for ca in after if ca['pair'] == pair]
        if len(match) != 1:
            bad['joins-other-blocks'] = 'connection %r: %d connections join that pair afterwards' % (sorted(pair), len(match)); continue
        ca = match[0]
        rev = ca['first'] != f(cb['first'])
        d_b = {f(n): v for n, v in cb['dist'].items()}
        if d_b != ca['dist']:
            bad['distances-not-swapped' if rev else 'distances-changed'] = \
                'connection %r: own distances before %r, after %r' % (sorted(pair), d_b, ca['dist'])
        n_b = {f(n): v for n, v in cb['nad'].items()}
        if n_b != ca['nad']:
            bad['nad-not-swapped' if rev else 'nad-changed'] = 'connection %r: nad per block before %r, after %r' % (sorted(pair), n_b, ca['nad'])
        want = -cb['cos_from_first'] if rev else cb['cos_from_first']
        if ca['cos_from_first'] != want:
            bad['dircos-not-negated' if rev else 'dircos-changed'] = \
                'connection %r: cosine seen from %r was %r, is now stored as %r seen from %r (should be %r)' % (
                    sorted(pair), cb['first'], cb['cos_from_first'], ca['cos_from_first'], ca['first'], want)
        if ca['area'] != cb['area'] or ca['direction'] != cb['direction']:
            bad['area-direction-changed'] = 'connection %r: area/direction %r -> %r' % (sorted(pair), (cb['area'], cb['direction']), (ca['area'], ca['direction']))
    return bad


def replay(d):
    import t2grids as T
    if d.get('op') == 'vacuous': return False, 'vacuous path condition in the harness (not a counterexample)'
    op, a, clause = d['op'], d['args'], d['clause']
    if op == 'fromgeo_reorder':
        import mulgrids
        geo = mulgrids.mulgrid().rectangular([float(num(x)) for x in a['dx']], [float(num(x)) for x in a['dy']],
                                             [float(num(x)) for x in a['dz']], atmos_type=a['atmos_type'])
        if a.get('surf'):
            for ci, s_ in a['surf']:
                s_ = float(num(s_))
                for lay in geo.layerlist:       # a surface meant to lie exactly on a layer boundary stays there in floats
                    for z_ in (lay.top, lay.bottom):
                        if abs(s_ - z_) <= 1e-9 * max(1., abs(z_)): s_ = z_
                geo.columnlist[ci].surface = s_
            geo.setup_block_name_index(); geo.setup_block_connection_name_index()
        try:
            g = T.t2grid().fromgeo(geo)
        except Exception as ex:
            msg = 'fromgeo(rectangular %r) raised %s: %s' % (a, type(ex).__name__, ex)
            return (clause == 'raised' and bool(a.get('surf'))), msg
        b0, c0 = describe(g)
        objs_b, objs_c = list(g.blocklist), list(g.connectionlist)
        bn = [b.name for b in g.blocklist][::-1]
        exc = None
        if a.get('how', 'explicit') == 'explicit':
            cn = [tuple(b.name for b in con.block)[::-1] for con in g.connectionlist]
            g.reorder(bn, cn)
            want_b, want_c = bn, cn
            head = 'fromgeo(rectangular %r) then reorder with all connections reversed' % (a,)
        else:
            cn = [tuple(b.name for b in con.block) for con in g.connectionlist][::-1]
            if a['scramble'] == 'rev-all': cn = [t[::-1] for t in cn]
            elif a['scramble'] == 'rev-alt': cn = [t[::-1] if q % 2 == 0 else t for q, t in enumerate(cn)]
            if a['scramble'] != 'none': g.reorder(bn, cn)
            try: g.reorder(geo=geo)
            except Exception as ex: exc = '%s: %s' % (type(ex).__name__, ex)
            want_b, want_c = list(geo.block_name_list), [tuple(t) for t in geo.block_connection_name_list]
            head = 'fromgeo(rectangular %r), scrambled (%s), then reorder(geo = geo)' % (a, a['scramble'])
        b1, c1 = describe(g)
        bad = cmp_connections(c0, c1)
        if exc: bad['raised'] = 'raised ' + exc
        if b0 != b1: bad['block-data'] = 'block data changed'
        listed = [b.name for b in g.blocklist]
        if listed != want_b: bad['block-order'] = 'block list %r, expected %r' % (listed, want_b)
        clisted = [tuple(b.name for b in x.block) for x in g.connectionlist]
        if clisted != want_c: bad['connection-order'] = 'connection list %r, expected %r' % (clisted, want_c)
        bad.update(list_clauses(g, objs_b, objs_c))
        if clause in bad: return True, '%s: %s' % (head, bad[clause])
        return False, '%s: clause %r holds (violated: %r)' % (head, clause, bad)
    pre = d['pre']
    g, blocks, rocks, cons = build(T, pre)
    if op == 'writeread':
        import tempfile, shutil
        import numpy as np
        import t2data as TD
        sh, names = pre['shape'], pre['bnames']
        nb, k = sh['nb'], len(sh['cons'])
        for i, b in enumerate(blocks): b.centre = np.array([1.0 * i, 2.0, 3.0])
        dat = TD.t2data(); dat.grid = g
        border, corder = list(range(nb))[::-1], list(range(k))[::-1]
        bad = {}
        tmp = tempfile.mkdtemp()
        try:
            g.reorder([names[i] for i in border], [(names[sh['cons'][q][1]], names[sh['cons'][q][0]]) for q in corder] or None)
            if a.get('rename'): g.rename_blocks(dict((x, y) for x, y in a['rename']), fix_blocknames=False)
            want_names = [blocks[i].name for i in border]
            want_rocks = [blocks[i].rocktype.name for i in border]
            want_pairs = [tuple(b.name for b in cons[q].block) for q in corder]
            fn = os.path.join(tmp, 'c09.dat')
            dat.write(fn)
            g2 = TD.t2data(fn).grid
            if [r.name for r in g2.rocktypelist] != pre['rnames']:
                bad['rocktypes-listed'] = 'rock types read back %r, written %r' % ([r.name for r in g2.rocktypelist], pre['rnames'])
            if [b.name for b in g2.blocklist] != want_names:
                bad['block-order'] = 'blocks read back %r, written %r' % ([b.name for b in g2.blocklist], want_names)
            got = [(b.rocktype.name, g2.rocktypelist.index(b.rocktype)) for b in g2.blocklist]
            want = [(n, pre['rnames'].index(n)) for n in want_rocks]
            if got != want:
                bad['block-rocktype'] = 'blocks %r written with rock types (name, position) %r come back with %r' % (want_names, want, got)
            gotp = [tuple(b.name for b in x.block) for x in g2.connectionlist]
            if gotp != want_pairs: bad['connection-order'] = 'connections read back %r, written %r' % (gotp, want_pairs)
        except Exception as ex:
            bad['raised'] = 'raised %s: %s' % (type(ex).__name__, ex)
        finally:
            shutil.rmtree(tmp, ignore_errors=True)
        head = 'rock types %r, blocks %r: reorder (all reversed)%s, write, read' % (pre['rnames'], names, ', rename %r' % a['rename'] if a.get('rename') else '')
        if clause in bad: return True, '%s: %s' % (head, bad[clause])
        return False, '%s: clause %r holds (violated clauses: %r)' % (head, clause, bad)
    b0, c0 = describe(g)
    names = pre['bnames']
    if op == 'reorder':
        give_b, give_c = a['perm'] is not None, a['cons'] is not None       # a list that is not given must stay as it is
        bn = [names[i] for i in (a['perm'] if give_b else range(len(names)))]
        cn = []
        for k, rev in (a['cons'] if give_c else [[k, 0] for k in range(len(cons))]):
            i, j = pre['shape']['cons'][k]
            cn.append((names[j], names[i]) if rev else (names[i], names[j]))
        exc = None
        try: g.reorder(bn if give_b else None, (cn if cn else None) if give_c else None)
        except Exception as ex: exc = '%s: %s' % (type(ex).__name__, ex)
        b1, c1 = describe(g)
        bad = cmp_connections(c0, c1)
        if exc: bad['raised'] = 'raised ' + exc
        if b0 != b1: bad['block-data'] = 'block data changed: %r -> %r' % (b0, b1)
        if [b.name for b in g.blocklist] != bn: bad['block-order'] = 'block order %r, requested %r' % ([b.name for b in g.blocklist], bn)
        if cn and [tuple(b.name for b in c.block) for c in g.connectionlist] != cn:
            bad['connection-order'] = bad['orientation-not-honoured'] = 'connection list %r, requested %r' % (g.connectionlist, cn)
        bad.update(list_clauses(g, blocks, cons))
        head = 'reorder(%r, %r) on connections %r' % (bn if give_b else None, cn if give_c else None, [(names[i], names[j]) for i, j in pre['shape']['cons']])
    elif op == 'rename_blocks':
        given = dict((k, v) for k, v in a['map'])
        # the map that is to be APPLIED: with fix_blocknames every name in it stands for its fixed form
        fx = fixed if a['fix'] else (lambda n: n)
        mp = dict((fx(k), fx(v)) for k, v in a['map'])
        exc = None
        try:
            if a.get('via') == 't2data':
                import t2data as D
                dat = D.t2data(); dat.grid = g
                handed = dict((v, k) for k, v in a['map']) if a.get('invert') else dict(given)
                dat.rename_blocks(handed, invert=bool(a.get('invert')), fix_blocknames=a['fix'])
            else:
                g.rename_blocks(dict(given), fix_blocknames=a['fix'])
            if a.get('then_reorder'):
                g.reorder([b.name for b in blocks][::-1], [tuple(b.name for b in c.block)[::-1] for c in cons][::-1] or None)
        except Exception as ex: exc = '%s: %s' % (type(ex).__name__, ex)
        b1, c1 = describe(g)
        bad = cmp_connections(c0, c1, rename=mp)
        if exc: bad['raised'] = 'raised ' + exc
        eb = blocks[::-1] if a.get('then_reorder') else blocks
        ec = cons[::-1] if a.get('then_reorder') else cons
        if [id(b) for b in g.blocklist] != [id(b) for b in eb]:
            bad['block-order'] = 'block list %r is not the expected list of the same objects' % (g.blocklist,)
        if [id(x) for x in g.connectionlist] != [id(x) for x in ec]:
            bad['connection-order'] = 'connection list %r is not the expected list of the same objects' % (g.connectionlist,)
        exp = {}
        for n, v in b0.items(): exp.setdefault(mp.get(n, n), []).extend(v)
        if exp != b1: bad['block-data'] = bad['block-name'] = 'blocks expected %r, found %r' % (exp, b1)
        bad.update(list_clauses(g, blocks, cons))
        head = '%srename_blocks(%r%s%s) on %r' % ('t2data.' if a.get('via') == 't2data' else '', given,
                                                  ', fix_blocknames=True' if a['fix'] else '',
                                                  ' [handed over inverted, invert=True]' if a.get('invert') else '', names)
    elif op == 'minc':
        fr = [Fraction(x) for x in a['fractions']]; tot = sum(fr); q = [float(x / tot) for x in fr]
        vol0 = [b.volume for b in blocks]
        nb, nc = len(blocks), len(cons)
        sel = range(nb) if a['blocks'] is None else a['blocks']
        try:
            g.minc(list(a['fractions']), spacing=a['spacing'], num_fracture_planes=a['nfp'],
                   blocks=None if a['blocks'] is None else [names[i] for i in a['blocks']])
        except Exception as ex:
            return False, 'minc raised %s' % ex
        bad = {}
        b1, c1 = describe(g)
        cb = cmp_connections(c0, c1[:nc]); bad.update(cb)
        proc = [i for i in sel if 0. < vol0[i] < 1e25]
        newb, newc = g.blocklist[nb:], g.connectionlist[nc:]
        L = len(q)
        if len(newb) != len(proc) * (L - 1) or len(newc) != len(newb):
            bad['chain'] = '%d new blocks, %d new connections for %d processed blocks and %d levels' % (len(newb), len(newc), len(proc), L)
        else:
            pos = 0
            for i in proc:
                B, V = blocks[i], vol0[i]
                tot_v = B.volume
                if abs(B.volume - V * q[0]) > RTOL * V * q[0]: bad['volume-fraction'] = 'block %r fracture volume %r, expected %r' % (names[i], B.volume, V * q[0])
                last = B
                for m in range(1, L):
                    M, con = newb[pos], newc[pos]; pos += 1
                    tot_v += M.volume
                    if abs(M.volume - V * q[m]) > RTOL * V * q[m]:
                        bad['volume-fraction'] = 'block %r level %d volume %r, expected %r' % (names[i], m, M.volume, V * q[m])
                    if not (con.block[0] is last and con.block[1] is M and M.name == str(m) + names[i][len(str(m)):]
                            and len(M.connection_name) == (1 if m == L - 1 else 2)):
                        bad['chain'] = 'block %r level %d: connection %r, block name %r, %d connections' % (names[i], m, con, M.name, len(M.connection_name))
                    last = M
                if abs(tot_v - V) > RTOL * V: bad['volume-sum'] = 'block %r: continua sum to %r, original %r' % (names[i], tot_v, V)
        for i in range(nb):
            if i not in proc and blocks[i].volume != vol0[i]:
                bad['untouched-volume'] = 'block %r volume %r -> %r' % (names[i], vol0[i], blocks[i].volume)
        head = 'minc(%r) on volumes %r' % (a, vol0)
    elif op == 'embed':
        g2, blocks2, rocks2, cons2 = build(T, a['other'])
        cd = a['con']
        con = T.t2connection([blocks[a['host']], blocks2[a['sub']]], 1, [float(num(cd['d'][0])), float(num(cd['d'][1]))],
                             float(num(cd['area'])), float(num(cd['dircos'])))
        v0 = [b.volume for b in blocks]; v2 = [b.volume for b in blocks2]
        with contextlib.redirect_stdout(io.StringIO()):
            res = g.embed(g2, con)
        if res is None: return False, 'embed refused'
        bad = {}
        ta, tb = sum(b.volume for b in res.blocklist), sum(v0)
        if abs(ta - tb) > RTOL * max(abs(tb), sum(abs(x) for x in v0 + v2)): bad['total-volume'] = 'total volume %r -> %r' % (tb, ta)
        # the result is read by list position and name (an embed that copies its operands is judged by the same clauses)
        names_b = list(pre['bnames']) + list(a['other']['bnames'])
        pairs_c = [tuple(names_b[i] for i in pr) for pr in pre['shape']['cons']] + \
                  [tuple(a['other']['bnames'][i] for i in pr) for pr in a['other']['shape']['cons']] + \
                  [(pre['bnames'][a['host']], a['other']['bnames'][a['sub']])]
        rb = list(res.blocklist)
        if [b.name for b in rb] != names_b: bad['block-lists'] = 'result block list %r, expected %r' % ([b.name for b in rb], names_b)
        else:
            for i in range(len(blocks)):
                ev = v0[i] - sum(v2) if i == a['host'] else v0[i]
                if abs(rb[i].volume - ev) > RTOL * (abs(ev) + sum(abs(x) for x in v2)): bad['host-volumes'] = 'host block %d volume %r expected %r' % (i, rb[i].volume, ev)
            for i in range(len(blocks2)):
                if rb[len(blocks) + i].volume != v2[i]: bad['sub-volumes'] = 'sub block %d volume %r -> %r' % (i, v2[i], rb[len(blocks) + i].volume)
        got_c = [tuple(b.name for b in x.block) for x in res.connectionlist]
        if got_c != pairs_c: bad['connection-lists'] = 'result connection list %r, expected %r' % (got_c, pairs_c)
        else:
            ec = res.connectionlist[-1]
            if list(ec.distance) != [float(num(cd['d'][0])), float(num(cd['d'][1]))] or ec.area != float(num(cd['area'])) or ec.dircos != float(num(cd['dircos'])):
                bad['embedding-connection'] = 'embedding connection carries %r %r %r' % (list(ec.distance), ec.area, ec.dircos)
        head = 'embed(%r) host volumes %r sub volumes %r' % (a, v0, v2)
    else:
        return False, 'unknown op %r' % op
    if clause in bad:
        return True, '%s: %s' % (head, bad[clause])
    return False, '%s: clause %r holds (violated clauses: %r)' % (head, clause, bad)
