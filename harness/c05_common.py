"""C05 helpers shared by the symbolic harness and the concrete replay: plain
text processing of the shipped listing files, written without reference to
t2listing (no z3, no numpy).

* listing_files(repo)      the shipped listing files (backup copies *~ and *.npy skipped)
* extract_tables(path)     first table of each kind: header line, first block of rows
* tokenize_row(row, ...)   the numbers printed in a row with their cell ranges
* printed_keys(row, ...)   the printed block names of a row
* fix_name(name)           documented (a3,i2) blank repair of a block name
"""
import os
import re

KEYLEN = 5


def listing_files(repo):
    root = os.path.join(repo, 'tests', 'listing')
    out = []
    for d, _, fs in os.walk(root):
        for f in fs:
            if f.endswith('.npy') or f.endswith('~'): continue
            out.append(os.path.relpath(os.path.join(d, f), root))
    def keyf(p):
        parts = p.split(os.sep)
        return (parts[0], int(parts[1]) if parts[1].isdigit() else 0, parts[2:])
    return sorted(out, key=keyf)


def read_lines(path):
    with open(path, 'rb') as f:
        data = f.read().decode('latin-1')
    # lines exactly as the reader's readline() returns them (binary mode: '\n' ends a
    # line, a '\r' before it stays in the line)
    parts = data.split('\n')
    return [l + '\n' for l in parts[:-1]] + ([parts[-1]] if parts[-1] else [])


_FLOATISH = re.compile(r'\.[0-9]')
_HEAD0 = ('ELEM.', 'ELEM', 'ELEM1', 'ELEMENT', 'ELEMEN')
_INDEXWORDS = ('INDEX', 'IND.')


def _is_header(line):
    t = line.split()
    if len(t) < 3 or t[0] not in _HEAD0: return None
    for k in (1, 2):
        if t[k] in _INDEXWORDS: return k
    return None


def _kind(tokens, nkeys):
    if nkeys == 1:
        return 'primary' if tokens[2] == 'X1' else 'element'
    if tokens[0].startswith('ELEM1'): return 'connection'
    if tokens[1] == 'SOURCE': return 'generation'
    return None


def family_of(lines):
    """'AUTOUGH2' when the file has AUTOUGH2's EEEEE table markers, else 'TOUGH2'
    (TOUGH2, TOUGH2-MP, TOUGH3, TOUGHREACT, TOUGH+ all print TOUGH2-style tables)."""
    for l in lines:
        if l[1:6] == 'EEEEE' or l[1:7] == 'ESHORT': return 'AUTOUGH2'
    return 'TOUGH2'


def extract_tables(path, max_rows=60, skip_times=0):
    """First table of each kind in the file: list of dicts
    {kind, header, rows (first contiguous block of result lines, <= max_rows), line_no}.
    skip_times = n (TOUGH2 family): the first table of each kind after the (n+1)th
    'OUTPUT DATA AFTER' line, i.e. the tables of result time n (0-based)."""
    lines = read_lines(path)
    fam = family_of(lines)
    out, seen = [], {}
    n = len(lines)
    i = 0
    started = fam == 'AUTOUGH2'
    ntimes = 0
    nelt = 0
    full_marker = -100
    while i < n:
        l = lines[i]
        if not started:
            if 'output data after' in l.lower():
                ntimes += 1
                started = ntimes > skip_times
            i += 1; continue
        if l[1:6] in ('EEEEE', 'CCCCC', 'GGGGG'): full_marker = i
        nk = _is_header(l)
        if nk is None or (fam == 'AUTOUGH2' and i - full_marker > 4):     # AUTOUGH2: full tables only (no SHORT output)
            i += 1; continue
        toks = l.split()
        kind = _kind(toks, nk)
        sig = tuple(toks)
        if kind is None or sig in seen:
            i += 1; continue
        # rows: first block of consecutive lines that carry numbers
        j = i + 1
        while j < n and j < i + 8 and not _FLOATISH.search(lines[j]): j += 1
        between = lines[i + 1:j]
        rows = []
        while j < n and len(rows) < max_rows and _FLOATISH.search(lines[j]) and _is_header(lines[j]) is None \
                and lines[j][1:6] not in ('EEEEE', 'CCCCC', 'GGGGG'):
            rows.append(lines[j]); j += 1
        if rows:
            if kind == 'element' and any(t['kind'].startswith('element') for t in out):
                nelt += 1
                kind = 'element%d' % nelt      # further element tables (TOUGH+)
            if kind not in [t['kind'] for t in out]:
                seen[sig] = True
                out.append(dict(kind=kind, header=l, rows=rows, between=between, line_no=i + 1, family=fam, nkeys=nk,
                                colnames0=toks[nk + 1] if len(toks) > nk + 1 else ''))
        i = j if rows else i + 1
    return fam, out


def choose_rows(rows, nother):
    """(index of the longest row, indices of `nother` other rows chosen for variety:
    most minus signs, shortest, first, last, middle ...)."""
    L = [len(r.rstrip()) for r in rows]
    longest = L.index(max(L))
    cand = []
    order = sorted(range(len(rows)), key=lambda k: (-rows[k].count('-'), k))
    cand.append(order[0])
    cand.append(L.index(min(L)))
    cand += [0, len(rows) - 1, len(rows) // 2, len(rows) // 3, (2 * len(rows)) // 3, 1]
    others = []
    for k in cand:
        if k != longest and k not in others and 0 <= k < len(rows): others.append(k)
    return longest, others[:nother]


# ---------------------------------------------------------------------------
# independent reading of a printed row

def tokenize_row(row, int_first=False):
    """Numbers printed in `row` (a line of a results table), left to right.
    Each token: dict(start, end, sign (index of the sign position or None),
    sign_char, ip=(a,b), fp=(a,b), exp=None|dict(letter, sign, digits=(a,b))).
    Found from the decimal points: fraction digits to the right, an exponent
    (E/D letter, or a bare sign followed by digits that are not the start of
    the next number), at most one integer digit to the left of an exponent-form
    number, all digits to the left of a fixed-point one, and the sign position
    immediately before.  With int_first the integer printed between the row
    index and the first real number is returned as token 0 (ECO2M phase index)."""
    text = row.rstrip('\n')
    n = len(text)
    pts = [k for k, ch in enumerate(text) if ch == '.']
    toks = []
    prev_end = 0
    for ip_, pt in enumerate(pts):
        if pt < prev_end: continue
        nextpt = pts[ip_ + 1] if ip_ + 1 < len(pts) else None
        k = pt + 1
        while k < n and text[k].isdigit(): k += 1
        fp = (pt + 1, k)
        exp = None
        def digit_run(a):
            b = a
            while b < n and text[b].isdigit(): b += 1
            if b < n and text[b] == '.' and b > a: b -= 1     # last digit is the next number's integer digit
            return b
        if k < n and text[k] in 'EeDd':
            k2 = k + 1; es = None
            if k2 < n and text[k2] in '+-': es = k2; k2 += 1
            k3 = digit_run(k2)
            if k3 > k2:
                exp = dict(letter=k, sign=es, digits=(k2, k3)); k = k3
        elif k < n and text[k] in '+-' and fp[1] > fp[0] and k + 1 < n and text[k + 1].isdigit():
            k3 = digit_run(k + 1)
            if k3 > k + 1 and not (k3 < n and text[k3] == '.'):
                exp = dict(letter=None, sign=k, digits=(k + 1, k3)); k = k3
        end = k
        j = pt
        maxint = 1 if exp is not None else n
        while j - 1 >= prev_end and text[j - 1].isdigit() and pt - (j - 1) <= maxint: j -= 1
        if j == pt and fp[1] == fp[0]:
            continue                                           # a lone '.', not a number
        sign = None
        if j - 1 >= prev_end and text[j - 1] in '- ': sign = j - 1
        toks.append(dict(start=sign if sign is not None else j, end=end, sign=sign,
                         sign_char=text[sign] if sign is not None else None,
                         ip=(j, pt), fp=fp, exp=exp, point=pt))
        prev_end = end
    if int_first and toks:
        a = toks[0]['start']
        pre = text[:a]
        m = re.search(r'(\d+)\s*$', pre)
        if m:
            s = m.start(1)
            sign = s - 1 if s - 1 >= 0 and text[s - 1] in '- ' else None
            toks.insert(0, dict(start=sign if sign is not None else s, end=m.end(1), sign=sign,
                                sign_char=text[sign] if sign is not None else None,
                                ip=(s, m.end(1)), fp=(m.end(1), m.end(1)), exp=None, point=None))
    return toks


def token_text_value(text, tok):
    """float of the printed token, by its parts (independent of fortran_float)."""
    from fractions import Fraction
    digs = text[tok['ip'][0]:tok['ip'][1]] + text[tok['fp'][0]:tok['fp'][1]]
    M = int(digs) if digs else 0
    E = -(tok['fp'][1] - tok['fp'][0])
    if tok['exp'] is not None:
        e = int(text[tok['exp']['digits'][0]:tok['exp']['digits'][1]])
        if tok['exp']['sign'] is not None and text[tok['exp']['sign']] == '-': e = -e
        E += e
    sgn = -1 if (tok['sign'] is not None and text[tok['sign']] == '-') else 1
    return float(sgn * M * Fraction(10) ** E)


def fix_name(name):
    """TOUGH2 prints names as (a3, i2): 'AB  7' stands for 'AB 07' when the
    third character is a digit too (documented behaviour of fix_blockname)."""
    if len(name) == 5 and name[2].isdigit() and name[4].isdigit() and name[3] == ' ':
        return name[0:3] + '0' + name[4]
    return name


def printed_keys(row, first_value_start, nkeys):
    """Positions of the printed block names: strip the row index (last integer
    before the values), then each name is the 5 characters ending at the last
    digit of what remains."""
    pre = row[:first_value_start].rstrip()
    k = len(pre)
    while k > 0 and (pre[k - 1].isdigit() or pre[k - 1] == '*'): k -= 1     # row index (or **** overflow)
    pos = []
    for _ in range(nkeys):
        while k > 0 and not pre[k - 1].isdigit(): k -= 1
        if k < KEYLEN: return None
        pos.append(k - KEYLEN)
        k -= KEYLEN
    pos.reverse()
    return pos


# ---------------------------------------------------------------------------
# a miniature listing table in memory, for running the real setup_table_* / read_table_*

class _Raw(object):
    """what file.readline() returns in binary mode: only .decode() is used by t2listing.readline"""
    def __init__(self, line): self.line = line
    def decode(self, encoding=None): return self.line

class LineFile(object):
    """stand-in for t2listing._file: a list of lines (str or symbolic strings);
    positions are line numbers."""
    def __init__(self, lines): self.lines, self.pos = list(lines), 0
    def readline(self):
        if self.pos < len(self.lines):
            l = self.lines[self.pos]; self.pos += 1
        else: l = ''
        return _Raw(l)
    def tell(self): return self.pos
    def seek(self, pos): self.pos = pos
    def close(self): pass


def mini_table_lines(family, kind, header, between, rows):
    """Text of one table holding just `rows`, laid out as the simulator prints it, so that
    the real setup_table_* and read_table_* can be run on it from line 0.
    Returns (lines, index of the first row)."""
    if family == 'AUTOUGH2':
        marker = ' ' + kind[0].upper() * 130 + '\n'
        pre = [marker, ' ' * 50 + kind.upper() + ' TABLE\n', '\n', header, '\n']
        post = [marker, '\n']
    else:
        pre = [header] + list(between)
        post = ['\n', ' ' + '@' * 131 + '\n', '\n']
    return pre + list(rows) + post, len(pre)


def row_index_value(row, first_value_start):
    """the printed row index (integer before the values), or None"""
    m = re.search(r'(\d+)\s*$', row[:first_value_start])
    return int(m.group(1)) if m else None


# ---------------------------------------------------------------------------
# rows of other printed widths (tables that may print incomplete lines) and other result times

def extend_row(row, toks, ncols):
    """`row` with its last printed field repeated until it holds `ncols` numbers (the fields of
    one table are printed with one format, so this is the row the simulator prints when the
    remaining columns apply to it).  None when the row has fewer than 2 numbers (field width
    unknown); the row itself when it already has ncols numbers."""
    if len(toks) >= ncols: return row
    if len(toks) < 2: return None
    body = row.rstrip('\r\n')
    field = body[toks[-2]['end']:toks[-1]['end']]
    return body[:toks[-1]['end']] + field * (ncols - len(toks)) + row[len(body):]


def row_of_width(name_row, base_row, base_toks, w):
    """the row with the names and index of `name_row` and the first `w` printed numbers of
    `base_row` (nothing printed after them: incomplete lines end at their last number)."""
    vstart = base_toks[0]['start']
    body = base_row.rstrip('\r\n')
    return name_row[:vstart] + body[vstart:base_toks[w - 1]['end']] + base_row[len(body):]
