"""C06 helpers shared by the symbolic harness (C06.py) and the concrete replay
(replay_C06.py): plain text processing of a listing file, written without
reference to t2listing's table-walking code (no z3, no numpy).

* LineFile               stand-in for t2listing._file with a readline budget
* scan_sets(lines, fam)  result sets of the file: first line, short or full, printed time / step
* find_row_lines(...)    line numbers that hold a named row of a table in a result set
* column_of_tokens(...)  which printed number of a row belongs to which column
"""
import os
import re
import sys
sys.path.insert(0, os.path.dirname(os.path.abspath(__file__)))
import c05_common as cc


class NonTermination(BaseException):
    """raised by LineFile when a call reads more lines than its budget allows
    (BaseException: no handler of the code under test may swallow it)"""
    pass


class _Raw(object):
    __slots__ = ('line',)
    def __init__(self, line): self.line = line
    def decode(self, encoding=None): return self.line


class LineFile(object):
    """stand-in for t2listing._file: a list of lines (str, or symbolic strings);
    positions are line numbers (t2listing stores tell() results, passes them to seek()
    and compares them with each other, nothing else).  Counts readline calls and
    end-of-file returns since the last arm(); beyond the budget -> NonTermination."""
    def __init__(self, lines):
        self.lines, self.pos = lines, 0
        self.count = self.eofs = 0
        self.limit = self.eof_limit = None
        self.log = None
    def arm(self, limit, eof_limit=1000):
        self.count = self.eofs = 0
        self.limit, self.eof_limit = limit, eof_limit
    def disarm(self):
        self.limit = self.eof_limit = None
    def readline(self):
        self.count += 1
        if self.pos < len(self.lines):
            l = self.lines[self.pos]; self.pos += 1
        else:
            l = ''
            self.eofs += 1
            if self.eof_limit is not None and self.eofs > self.eof_limit:
                raise NonTermination('end of file returned %d times in one call' % self.eofs)
        if self.limit is not None and self.count > self.limit:
            raise NonTermination('%d lines read in one call (budget %d)' % (self.count, self.limit))
        return _Raw(l)
    def tell(self): return self.pos
    def seek(self, pos, whence=0): self.pos = pos
    def close(self): pass


class NLine(str):
    """a line that knows its number (concrete pre-run only)"""
    __slots__ = ('no',)


def numbered(lines):
    out = []
    for i, l in enumerate(lines):
        x = NLine(l); x.no = i
        out.append(x)
    return out


def budget(nlines, nsets):
    return nlines * (nsets + 2)


# ---------------------------------------------------------------------------
# result sets

_AUT_HEAD = re.compile(r'OUTPUT AFTER\s*([0-9*]+)\s*TIME STEPS\s*(\S+)\s*SECONDS')


def scan_sets(lines, fam):
    """[dict(pos=first line of the result set as the reader counts it, short=bool,
             time=float, step=int or None, head=line number holding the time)]"""
    out = []
    if fam == 'AUTOUGH2':
        first_short = None
        for l in lines:
            if l[1:7] in ('ESHORT', 'CSHORT', 'GSHORT'):
                first_short = l[1:7]; break
        for i, l in enumerate(lines):
            m = _AUT_HEAD.search(l)
            if not m or i < 2: continue
            mk = lines[i - 2]
            if mk[1:6] == 'EEEEE': short = False
            elif first_short is not None and mk[1:7] == first_short: short = True
            else: continue
            try: step = int(m.group(1))
            except ValueError: step = None
            out.append(dict(pos=i - 1, short=short, time=float(m.group(2)), step=step, head=i))
    else:
        i, n = 0, len(lines)
        while i < n:
            if lines[i].lstrip().lower().startswith('output data after'):
                j = i + 1
                while j < n and 'total time' not in lines[j].lower(): j += 1
                if j + 1 < n:
                    t = lines[j + 1].split()
                    out.append(dict(pos=j + 1, short=False, time=cc_float(t[0]), step=int(t[1]), head=j + 1))
                i = j + 1
            else: i += 1
    return out


def cc_float(s):
    try: return float(s)
    except ValueError:
        s = s.lower().replace('d', 'e')
        return float(s)


# ---------------------------------------------------------------------------
# tables and rows inside a result set

def header_signature(line):
    """(number of names per row, column words) of a table header line, else None"""
    nk = cc._is_header(line)
    if nk is None: return None
    return nk, tuple(line.split()[nk + 1:])


def table_signature(nkeys, cols):
    return nkeys, tuple(' '.join(cols).split())


def is_separator(line):
    """a line of >= 60 identical punctuation characters, or an AUTOUGH2 table marker"""
    if line[1:6] in ('EEEEE', 'CCCCC', 'GGGGG') or line[1:7] in ('ESHORT', 'CSHORT', 'GSHORT'): return True
    t = line.strip()
    return len(t) >= 60 and t[:60] == t[0] * 60 and not t[0].isalnum()


def table_spans(lines, a, b):
    """header lines in [a, b): list of (line number, signature)"""
    out = []
    for i in range(a, b):
        s = header_signature(lines[i])
        if s is not None: out.append((i, s))
    return out


def table_rows(lines, a, b, sig, int_first, heads=None):
    """rows of the table whose header has signature `sig` in result set [a, b):
    list of (line number, printed names after the (a3,i2) repair, tokens).  The table
    starts at the first such header and ends at the first separator line after a row, at a
    header with another signature, or at b.  Names are printed in fixed columns: their
    positions are found in the first row and hold for every row of the table (a row index
    that has grown into the name field, as in 'al1010', makes a row ambiguous on its own)."""
    heads = table_spans(lines, a, b) if heads is None else heads
    start = end = None
    for i, s in heads:
        if start is None:
            if s == sig: start = i
        elif s != sig:
            end = i; break
    if start is None: return []
    if end is None: end = b
    out, kp = [], None
    for i in range(start + 1, end):
        l = lines[i]
        if out and is_separator(l): break
        if not cc._FLOATISH.search(l) or header_signature(l) is not None: continue
        toks = cc.tokenize_row(l, int_first)
        if not toks: continue
        if kp is None:
            kp = cc.printed_keys(l, toks[0]['start'], sig[0])
            if kp is None: continue
        if toks[0]['start'] < kp[-1] + 5: continue       # not a row of this table
        idx = l[kp[-1] + 5:toks[0]['start']].strip()
        if any(ch.isalpha() for ch in idx): continue     # between names and values: the row index (and a marker such as * or +) only
        out.append((i, tuple(cc.fix_name(l[p:p + 5]) for p in kp), toks))
    return out


def column_of_tokens(toks, ref_ends, ncols, family):
    """column index of each printed number of a row: AUTOUGH2 rows are split on blanks
    (k-th number -> k-th column); TOUGH2-family rows are cut at fixed positions, a number
    belongs to the column whose right end it shares with the reference (longest) row.
    None where a number cannot be attributed."""
    if family == 'AUTOUGH2':
        return [k if k < ncols else None for k in range(len(toks))]
    out = []
    for t in toks:
        out.append(ref_ends.index(t['end']) if t['end'] in ref_ends and ref_ends.index(t['end']) < ncols else None)
    return out


SPEC = {'element': 'e', 'element1': 'e1', 'element2': 'e2', 'connection': 'c', 'generation': 'g', 'primary': 'p'}


def apply_substitutions(lines, subs):
    """lines with the characters of subs = {line number: {column: character}} replaced"""
    out = list(lines)
    for ln, d in subs.items():
        t = list(out[int(ln)])
        for p, ch in d.items(): t[int(p)] = ch
        out[int(ln)] = ''.join(t)
    return out


# ---------------------------------------------------------------------------
# derived listings (C07 file tier): result sets that print more tables than the first one

def derive(lines, kind):
    """A copy of a TOUGH2-style listing in which some tables are not printed at some result
    sets.  kind = 'late-<t>[+<t>]': tables t are removed from the FIRST result set;
    'mid-<t>': removed from the SECOND result set only (present before and after);
    'final-<t>[+<t>]': removed from every result set except the last (what TOUGH2 does when
    only its final printout is complete, as in tests/listing/TOUGH2/11).  A table is removed
    from the line after the separator that precedes its first header up to and including the
    separator that ends it."""
    if not kind: return list(lines)
    mode, names = kind.split('-', 1)
    names = names.split('+')
    lines = list(lines)
    fam = cc.family_of(lines)
    sets = scan_sets(lines, fam)
    bounds = [s['pos'] for s in sets] + [len(lines)]
    if mode == 'keep':
        # 'keep-<k>': a cleanly truncated copy holding the first k result sets (cut at the line that announces set k+1)
        k = int(names[0])
        if k >= len(sets): return lines
        cut = bounds[k]
        while cut > 0 and 'output data after' not in lines[cut].lower() and not _AUT_HEAD.search(lines[cut]): cut -= 1
        if fam == 'AUTOUGH2': cut -= 2
        return lines[:cut]
    if mode == 'shortfirst':
        # 'shortfirst-<t>': at the FIRST result set every row of table t prints only its first two numbers (one, if it
        # has only two), so that later rows are longer than every row seen when the table layout was inferred
        # (generation tables may print incomplete lines)
        done = False
        for i in range(bounds[0], bounds[1]):
            nk = cc._is_header(lines[i])
            if nk is None or cc._kind(lines[i].split(), nk) not in names: continue
            sig = header_signature(lines[i])
            for no, nm, toks in table_rows(lines, bounds[0], bounds[1], sig, False):
                keep = 2 if len(toks) > 2 else 1
                if len(toks) > keep:
                    l = lines[no]
                    lines[no] = l[:toks[keep - 1]['end']] + l[len(l.rstrip('\r\n')):]
                    done = True
            break
        if not done: raise ValueError('derive(%s): no row could be shortened' % kind)
        return lines
    which = [0] if mode == 'late' else [1] if mode == 'mid' else list(range(len(sets) - 1))
    if fam == 'AUTOUGH2':
        # an AUTOUGH2 table is the block from its first marker line to its third one (and the blank line after it)
        for ik in reversed(which):
            for nm in names:
                mk = [i for i in range(max(0, bounds[ik] - 1), bounds[ik + 1]) if lines[i][1:6] == nm[0].upper() * 5]
                if len(mk) < 3: raise ValueError('derive(%s): result set %d does not print %s' % (kind, ik, nm))
                end = mk[2] + (2 if mk[2] + 1 < len(lines) and not lines[mk[2] + 1].strip() else 1)
                del lines[mk[0]:end]
        return lines
    for ik in reversed(which):
        cuts = []
        for i in range(bounds[ik], bounds[ik + 1]):
            nk = cc._is_header(lines[i])
            if nk is None: continue
            k = cc._kind(lines[i].split(), nk)
            if k in names and not any(a <= i <= b for a, b, _ in cuts) and k not in [c[2] for c in cuts]:
                s0 = i
                while s0 > bounds[ik] and not is_separator(lines[s0]): s0 -= 1
                s1, seen = i + 1, False
                while s1 < bounds[ik + 1]:
                    if seen and is_separator(lines[s1]): break
                    if cc._FLOATISH.search(lines[s1]) and header_signature(lines[s1]) is None: seen = True
                    s1 += 1
                if s1 >= bounds[ik + 1] or not is_separator(lines[s0]): raise ValueError('derive(%s): table %s at result set %d not delimited' % (kind, k, ik))
                cuts.append((s0 + 1, s1, k))
        if sorted(c[2] for c in cuts) != sorted(names): raise ValueError('derive(%s): result set %d does not print %s' % (kind, ik, names))
        for a, b, _ in sorted(cuts, reverse=True): del lines[a:b + 1]
    return lines
