"""Replay for C06 on the REAL, un-rewritten t2listing (no z3): the shipped
listing file with the model's digits / signs substituted is written to a real
temporary file; the real t2listing(filename) reads it, every result set is
visited by stepping (reference values), then history(selection, short) is
called from the given starting index under a readline budget and a wall-clock
timeout.  Every clause of the property is evaluated with concrete oracles:
stepping values, and the numbers printed in the file found by the plain-text
scan of c06_common (independent of t2listing's table walking)."""
import os
import shutil
import signal
import sys
import tempfile
sys.path.insert(0, os.path.dirname(os.path.abspath(__file__)))
import c05_common as cc
import c06_common as c6

TIMEOUT_S = 60


class CountingFile(object):
    """the real binary file object with a budget on readline calls"""
    def __init__(self, f, limit, eof_limit=1000):
        self.f, self.limit, self.eof_limit = f, limit, eof_limit
        self.count = self.eofs = 0
    def readline(self, *a):
        self.count += 1
        l = self.f.readline(*a)
        if not l:
            self.eofs += 1
            if self.eofs > self.eof_limit: raise c6.NonTermination('end of file returned %d times in one call' % self.eofs)
        if self.count > self.limit: raise c6.NonTermination('%d lines read in one call (budget %d)' % (self.count, self.limit))
        return l
    def seek(self, *a): return self.f.seek(*a)
    def tell(self): return self.f.tell()
    def close(self): return self.f.close()


def _alarm(sig, frm):
    raise c6.NonTermination('no return within %d s' % TIMEOUT_S)


def _tup(x): return (x,) if isinstance(x, str) else tuple(x)


def _resolve(lst, arg):
    """(table name, row index, reversed) the item asks for, or None (invalid specification)"""
    spec, key, col = arg
    if not isinstance(spec, str) or not spec: return None
    nm = {'e': 'element', 'c': 'connection', 'g': 'generation', 'p': 'primary'}.get(spec[0].lower())
    if nm is None: return None
    if spec[-1].isdigit(): nm += spec[-1]
    if nm not in lst._table: return None
    tab = lst._table[nm]
    if col not in tab.column_name: return None
    names = [_tup(x) for x in tab.row_name]
    if isinstance(key, int):
        return (nm, key if key >= 0 else key + len(names), False) if -len(names) <= key < len(names) else None
    k = _tup(key)
    if k in names: return nm, len(names) - 1 - names[::-1].index(k), False
    if nm == 'connection' and len(k) > 1 and k[::-1] in names: return nm, len(names) - 1 - names[::-1].index(k[::-1]), True
    return None


class _Printed(object):
    """numbers printed in the file, by the text scan"""
    def __init__(self, lines, fam, lst):
        self.lines, self.fam = lines, fam
        self.sets = c6.scan_sets(lines, fam)
        self.bounds = [s['pos'] for s in self.sets] + [len(lines)]
        self.info = {}
        for tn, tab in lst._table.items():
            sig = c6.table_signature(tab.num_keys, tab.column_name)
            int_first = tab.column_name[0] == 'I'
            rows0 = []
            for ik_ in range(len(self.sets)): rows0 += c6.table_rows(lines, self.bounds[ik_], self.bounds[ik_ + 1], sig, int_first)
            ref = None
            for no, nm, toks in rows0:          # the longest row (anywhere in the file; first among equals) fixes the columns of TOUGH2-style tables
                if ref is None or len(lines[no].strip()) > len(lines[ref[0]].strip()): ref = (no, toks)
            names = [_tup(x) for x in tab.row_name]
            self.info[tn] = dict(sig=sig, int_first=int_first, ref_ends=[t['end'] for t in ref[1]] if ref else [], names=names,
                                 ncols=tab.num_columns, cols=list(tab.column_name))
        self._rows = {}
    def rows(self, tn, ik):
        if (tn, ik) not in self._rows:
            ti = self.info[tn]
            d = {}
            for no, nm, toks in c6.table_rows(self.lines, self.bounds[ik], self.bounds[ik + 1], ti['sig'], ti['int_first']):
                d[nm] = (no, toks)
            self._rows[(tn, ik)] = d
        return self._rows[(tn, ik)]
    def value(self, tn, r, ik, col):
        """printed number of (table, row, result set, column); None = row not printed there;
        'n/a' = cannot be attributed (name printed for two rows / unaligned number)"""
        ti = self.info[tn]
        nm = ti['names'][r]
        if ti['names'].count(nm) != 1: return 'n/a'
        hit = self.rows(tn, ik).get(nm)
        if hit is None: return None
        no, toks = hit
        colof = c6.column_of_tokens(toks, ti['ref_ends'], ti['ncols'], self.fam)
        ci = ti['cols'].index(col)
        js = [j for j, cj in enumerate(colof) if cj == ci]
        if not js: return 'n/a' if None in colof else 0.0
        try: return cc.token_text_value(self.lines[no].rstrip('\r\n'), toks[js[0]])
        except OverflowError: return 'n/a'


def replay(d):
    import numpy as np
    import t2listing
    repo = os.environ.get('PYTOUGH_REPO', '/repo')
    path = os.path.join(repo, d['file'])
    raw = cc.read_lines(path)
    lines = c6.apply_substitutions(raw, d.get('substitutions') or {})
    fam = cc.family_of(lines)
    tmp = tempfile.mkdtemp(prefix='c06replay')
    try:
        p2 = os.path.join(tmp, os.path.basename(path))
        with open(p2, 'wb') as fh: fh.write(''.join(lines).encode('latin-1'))
        return _replay(d, np, t2listing, p2, lines, fam)
    finally:
        shutil.rmtree(tmp, ignore_errors=True)


def _replay(d, np, t2listing, p2, lines, fam):
    claimed = d.get('clause')
    nsub = sum(len(v) for v in (d.get('substitutions') or {}).values())
    head = '%s (%d characters substituted), clause %s: ' % (d['file'], nsub, claimed)
    try:
        lst = t2listing.t2listing(p2)
    except Exception as ex:
        return True, head + 't2listing() raised %s: %s' % (type(ex).__name__, str(ex)[:100])
    P = _Printed(lines, fam, lst)
    sets = P.sets
    fullk = [i for i, s in enumerate(sets) if not s['short']]
    if [s['time'] for s in sets] != [float(t) for t in lst.times] or len(fullk) != lst.num_fulltimes:
        return False, head + 'text scan and reader disagree about the result sets (replay oracle not applicable)'
    if 'selection' not in d:
        return False, head + 'no selection in the replay data'
    sel = [(a[0], tuple(a[1]) if isinstance(a[1], list) else a[1], a[2]) for a in d['selection']]
    items = [_resolve(lst, a) for a in sel]
    valid = [(a, it) for a, it in zip(sel, items) if it is not None]
    # reference values by stepping
    ref = {}
    for j, ik in enumerate(fullk):
        try: lst.index = j
        except Exception as ex: return True, head + 'index = %d raised %s: %s' % (j, type(ex).__name__, str(ex)[:100])
        for a, (tn, r, rev) in valid:
            v = lst._table[tn][r][a[2]]
            ref[(tn, r, ik, a[2])] = v
            pv = P.value(tn, r, ik, a[2])
            if pv not in ('n/a', None) and not (pv == v):
                return True, head + 'printed-value: %s row %d column %s at result set %d: stepping shows %r, the file prints %r' % (tn, r, a[2], ik, v, pv)
    start = d.get('start', 0)
    lst.index = start
    before = dict(index=lst.index, time=lst.time, step=lst.step, tables={tn: np.array(t._data, copy=True) for tn, t in lst._table.items()})
    arg = list(sel)
    if d.get('form') == 'tuple': arg = arg[0]
    cf = CountingFile(lst._file, c6.budget(len(lines), len(sets)))
    lst._file = cf
    old = signal.signal(signal.SIGALRM, _alarm)
    signal.setitimer(signal.ITIMER_REAL, TIMEOUT_S)
    try:
        res = lst.history(arg, short=d.get('short', True))
    except c6.NonTermination as ex:
        return True, head + 'terminates: history(%r, short=%r) from index %d does not return: %s (%d lines read in a file of %d lines, %d result sets)' % (
            arg, d.get('short', True), start, ex, cf.count, len(lines), len(sets))
    except Exception as ex:
        return True, head + 'no-exception: history(%r) raised %s: %s' % (arg, type(ex).__name__, str(ex)[:120])
    finally:
        signal.setitimer(signal.ITIMER_REAL, 0); signal.signal(signal.SIGALRM, old)
        lst._file = cf.f
    # shape
    def is_pair(x): return isinstance(x, tuple) and len(x) == 2 and not isinstance(x[0], (tuple, list))
    if d.get('form') == 'tuple' or (len(sel) == 1 and is_pair(res)):
        ok = is_pair(res); res = [res]
    else:
        ok = isinstance(res, list) and all(is_pair(x) for x in res)
    got = None
    if ok and len(res) == len(sel):
        got = [res[i] for i, it in enumerate(items) if it is not None]
        ok = all(len(res[i][1]) == 0 for i, it in enumerate(items) if it is None)
    elif ok and len(res) == len(valid): got = list(res)
    else: ok = False
    if not ok:
        return True, head + 'shape: history(%r) returned %s: not one (times, values) pair per valid item in the order asked for' % (arg, repr(res)[:160])
    for (a, (tn, r, rev)), (tt, vv) in zip(valid, got):
        visit = [ik for ik in range(len(sets)) if not sets[ik]['short'] or (d.get('short', True) and P.value(tn, r, ik, a[2]) is not None)]
        want_t = [sets[ik]['time'] for ik in visit]
        if [float(t) for t in tt] != want_t:
            return True, head + 'times: item %r: times returned %s, times of the result sets visited %s' % (a, list(tt)[:6], want_t[:6])
        if len(vv) != len(visit):
            return True, head + 'values: item %r: %d values for %d result sets' % (a, len(vv), len(visit))
        sg = -1.0 if rev else 1.0
        for k, ik in enumerate(visit):
            if not sets[ik]['short']:
                want = ref[(tn, r, ik, a[2])]
                if not (vv[k] == sg * want):
                    return True, head + '%s: item %r at result set %d: history gives %r, stepping to that result set shows %r%s' % (
                        'reverse-negated' if rev else 'values', a, ik, vv[k], want, ' (to be negated: the connection is named in reverse)' if rev else '')
            pv = P.value(tn, r, ik, a[2])
            if pv not in ('n/a', None) and not (vv[k] == sg * pv):
                return True, head + '%s: item %r at result set %d: history gives %r, the file prints %r' % (
                    'reverse-negated' if rev else 'values', a, ik, vv[k], pv)
    # state afterwards
    if lst.index != before['index']: return True, head + 'restore:index: index %r after the call, %r before' % (lst.index, before['index'])
    if lst.time != before['time'] or lst.step != before['step']:
        return True, head + 'restore:time-step: time/step %r/%r after the call, %r/%r before' % (lst.time, lst.step, before['time'], before['step'])
    for tn, t in lst._table.items():
        if not np.array_equal(t._data, before['tables'][tn]):
            return True, head + 'restore:tables: table %s on display changed' % tn
    # and the reader still steps correctly from there
    return False, head + 'history(%r, short=%r) from index %d returns, equals stepping and the printed numbers at %d result sets, state restored' % (
        arg, d.get('short', True), start, len(sets))
