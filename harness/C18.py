"""C18 - rectgeo inverts fromgeo (unrotated rectangular geometries).

The REAL mulgrid.rectangular -> t2grid.fromgeo -> t2grid.rectgeo ->
t2grid.fromgeo chain (reloaded from the repo) runs on symbolic spacings,
origin, stepped column surfaces, atmosphere volume / connection distance and
volume threshold.  On every path z3 proves, for ALL values on the path, that
the reconstructed geometry has the original node positions (= spacings and
position in x, y), layer elevations (= spacings and position in z), column
surfaces, zero rotation, the same atmosphere arrangement through the block
map, and that fromgeo(geometry', blockmap) reproduces the original grid's
block names, volumes, centres and every connection (blocks, distances, area,
gravity cosine, permeability direction).
"""
import itertools
import z3
from fractions import Fraction
from vx import sym, loader, report
from vx.sym import SReal, SInt, SBool
from harness import geo_oracle as GO
from harness import geo_build as GB
from harness import geo_sym as GS

PID = 'C18'
GROUP_TIMEOUT_MS = 400
MAX_FAILURES_PER_TASK = 6     # a task with this many counterexamples stops exploring further paths
TASK_WALL_S = 1500
ATMOS_VOLUME = 1.e25      # default of mulgrid(atmos_volume=) and of rectgeo(atmos_volume=)

_LD = None
def _load():
    global _LD
    if _LD is None:
        _LD = loader.load(['t2grids'])
    return _LD


def _pos(c, name): return c.real(name, 0, strict_lo=True)

def _slug(label):
    return ''.join(ch if ch.isalnum() else '_' for ch in label).strip('_')


def surface_classes(nz):
    """Arrangement classes of a surface that leaves the bottom layer complete:
    0 = above the top; 1 = at top of layer 1; 2 = inside layer 1; ... ; last = at
    the top of the bottom layer (= 2*(nz-1)+1)."""
    return 2 * (nz - 1) + 2


def class_constraint(s, tops, bots, cls):
    se = s.e
    if cls == 0: return se > GS.zterm(tops[0])
    k, r = divmod(cls - 1, 2)
    if r == 0: return se == GS.zterm(tops[k])
    return z3.And(se < GS.zterm(tops[k]), se > GS.zterm(bots[k]))


def shape_class(shape):
    nx, ny, nz = shape
    return '2D-nx1' if nx == 1 else ('2D-ny1' if ny == 1 else '3D')


def task_rectgeo(shape, atm, conv, conv2=None, free=(), snap='off', fix=None, profile=False, boundary=None):
    """shape (nx, ny, nz); atm: atmosphere type of the geometry and the one
    passed to rectgeo; conv: naming convention of the original geometry; conv2:
    convention passed to rectgeo (None = same); free: columns with a symbolic
    surface (the others stay at the top); snap: 'off' = layer_snap 0 (exact
    inverse, no assumption), 'default' = rectgeo's default 0.1 with the
    assumption that no surface block is thinner than that."""
    ld = _load()
    M, T = ld.mulgrids, ld.t2grids
    nx, ny, nz = shape
    if conv2 is None: conv2 = conv
    failures, samples, distinct = [], [], set()
    failed_labels = set()    # once an obligation kind has a counterexample in this task it is not re-proved
    state = dict(reached=0)
    cfg = dict(shape=list(shape), atm=atm, convention=conv, convention2=conv2, free=list(free), snap=snap, boundary=boundary)
    layer_snap = 0.0 if snap == 'off' else 0.1

    def h(c):
        if len(failures) >= MAX_FAILURES_PER_TASK: return 'not explored: the task already has counterexamples'
        inp = dict(dx=[_pos(c, 'dx%d' % i) for i in range(nx)], dy=[_pos(c, 'dy%d' % i) for i in range(ny)],
                   dz=[_pos(c, 'dz%d' % i) for i in range(nz)], origin=[c.real('ox'), c.real('oy'), c.real('oz')])
        mesh = GB.oracle_mesh('rect', inp)
        ncol = nx * ny
        tops, bots, mids = GO.layer_levels(mesh)
        # atmosphere volume / connection distance stay at the library defaults (rectgeo
        # builds the new geometry with the defaults; see notes) and the volume threshold
        # is rectgeo's default atmos_volume
        maxvol = ATMOS_VOLUME
        surfaces = [None] * ncol
        for k in free:
            s = c.real('s%d' % k)
            c.add(s.e >= GS.zterm(tops[-1]))             # the bottom layer stays complete
            if fix and k in fix: c.add(class_constraint(s, tops, bots, fix[k]))
            surfaces[k] = s
        if snap != 'off':                                 # no surface block thinner than layer_snap
            for k in range(ncol):
                sv = GS.zterm(surfaces[k] if surfaces[k] is not None else tops[0])
                for kk in range(nz):
                    c.add(z3.Or(sv <= GS.zterm(bots[kk]), sv >= GS.zterm(bots[kk]) + Fraction(0.1)))
        if len(free) == ncol:
            # identifiability: the thickness of the top layer is only in the grid
            # if some column reaches the top of the geometry
            c.add(z3.Or(*[surfaces[k].e >= GS.zterm(tops[0]) for k in range(ncol)]))

        def record(label, what, model, extra_key=''):
            def val(x):
                if x is None or model is None: return None
                return GS.model_num(model, x)
            data = dict(cfg, label=label,
                        inputs={k: [val(x) for x in v] for k, v in inp.items()},
                        surfaces=[val(s) for s in surfaces], bvol=val(bvol))
            bkey = '/boundary-bottom' if boundary == 'bottom' else ''     # round 4: input class of the new boundary shapes
            failures.append(dict(key='%s/atm%d%s/%s%s' % (shape_class(shape), atm, bkey, _slug(label), extra_key), what=what, replay=data))

        # ---- forward conversion (C04's subject; here it only produces the input of rectgeo)
        geo, _ = GB.build(M, 'rect', inp, conv, atm, None, mesh)
        mesh_, surf = GB.configure(geo, mesh, 0.0, geo.atmosphere_volume, geo.atmosphere_connection, surfaces)
        grid = T.t2grid().fromgeo(geo)
        for b in grid.blocklist:          # precondition of rectgeo: rock volumes below the threshold
            if not b.atmosphere: c.add(z3.And(GS.zterm(b.volume) > 0, GS.zterm(b.volume) < GS.zterm(maxvol)))
        # the active grid, before any inactive boundary blocks are attached
        act_blocks, act_cons = list(grid.blocklist), list(grid.connectionlist)
        bvol = None
        if boundary:
            # inactive boundary blocks (Dirichlet conditions): volume zero or at least the
            # threshold - a solver decision - attached to the x-max face or on top of each column
            bvol = c.real('bvol')
            c.add(z3.Or(bvol.e == 0, bvol.e >= GS.zterm(maxvol)))
            GB.attach_boundary(T, ld.mulgrids.np, geo, grid, boundary, bvol, inp, nx, ny)
        r0, _m = c.reachable()
        if r0 != 'sat': return 'unreachable preconditions (%s)' % r0

        # ---- code under test
        try:
            geo2, bm = grid.rectgeo(atmos_type=atm, convention=conv2, layer_snap=layer_snap)
            grid2 = T.t2grid().fromgeo(geo2, bm)
        except Exception as exn:
            import traceback
            tb = traceback.extract_tb(exn.__traceback__)
            site = [t for t in tb if 'repo' in t.filename or t.filename.endswith(('t2grids.py', 'mulgrids.py', 'geometry.py'))]
            t_ = site[-1] if site else tb[-1]
            state['reached'] += 1
            c.prove(False, 'rectgeo completes with a finite result')
            rr, m = c.reachable()
            record('rectgeo completes with a finite result',
                   '%s: %s at %s:%d (%s)' % (type(exn).__name__, exn, t_.filename.split('/')[-1], t_.lineno, t_.name), m,
                   '/%s@%s' % (type(exn).__name__, t_.name))
            return 'raised %s in %s' % (type(exn).__name__, t_.name)
        state['reached'] += 1

        pending = []
        def P(label, lhs, rhs, where): pending.append(((label, 'eq', lhs, rhs), where))
        def S(ok, label, what):
            r = c.prove(bool(ok), label)
            if r == 'sat':
                rr, m = c.reachable()
                record(label, what, m)
            return bool(ok)

        # A. spacings and position: node positions, column centres, layer elevations
        V = mesh['verts']
        if S(len(geo2.nodelist) == len(V) and len(geo2.columnlist) == ncol and len(geo2.layerlist) == nz + 1,
             'numbers of nodes, columns and layers recovered',
             'got %d nodes %d columns %d layers' % (len(geo2.nodelist), len(geo2.columnlist), len(geo2.layerlist))):
            for i, (n2, v) in enumerate(zip(geo2.nodelist, V)):
                P('node x (spacing and position recovered)', n2.pos[0], v[0], 'node %d' % i)
                P('node y (spacing and position recovered)', n2.pos[1], v[1], 'node %d' % i)
            for i, c2 in enumerate(geo2.columnlist):
                P('column centre x', c2.centre[0], mesh['centre'][i][0], 'column %d' % i)
                P('column centre y', c2.centre[1], mesh['centre'][i][1], 'column %d' % i)
                # C. surfaces
                P('column surface recovered', c2.surface, surf[i], 'column %d' % i)
            S([c2.num_layers for c2 in geo2.columnlist] == [col.num_layers for col in geo.columnlist],
              'column layer counts recovered', 'num_layers %r vs %r' % ([c2.num_layers for c2 in geo2.columnlist],
                                                                        [col.num_layers for col in geo.columnlist]))
            P('top elevation recovered', geo2.layerlist[0].bottom, tops[0], 'layer 0')
            for k in range(nz):
                l2 = geo2.layerlist[k + 1]
                P('layer top (vertical spacing and position recovered)', l2.top, tops[k], 'layer %d' % (k + 1))
                P('layer bottom (vertical spacing and position recovered)', l2.bottom, bots[k], 'layer %d' % (k + 1))
                P('layer centre', l2.centre, mids[k], 'layer %d' % (k + 1))
        # B. orientation
        pa = geo2.permeability_angle
        if isinstance(pa, (SReal, SInt)): P('permeability angle is zero', pa, 0, 'geometry')
        else: S(pa == 0, 'permeability angle is zero', 'permeability angle %r' % (pa,))
        # D. atmosphere arrangement
        S(geo2.atmosphere_type == atm, 'atmosphere type', 'atmosphere type %r' % (geo2.atmosphere_type,))
        n_atm = {0: 1, 1: ncol, 2: 0}[atm]
        want_atm = [b.name for b in act_blocks[:n_atm]]
        got_atm = [bm.get(n) for n in geo2.block_name_list[:n_atm]]
        S(got_atm == want_atm, 'block map sends the atmosphere blocks to the original atmosphere blocks',
          'mapped %r, original %r' % (got_atm, want_atm))
        S(sorted(bm.keys()) == sorted(geo2.block_name_list), 'block map covers exactly the blocks of the reconstructed geometry',
          'map keys %r, geometry blocks %r' % (sorted(bm.keys()), sorted(geo2.block_name_list)))
        # E. second forward conversion reproduces the grid
        n1, n2_ = [b.name for b in act_blocks], [b.name for b in grid2.blocklist]
        same_blocks = S(n1 == n2_, 'block names reproduced in order', 'original %r, reproduced %r' % (n1, n2_))
        if same_blocks:
            for b1, b2 in zip(act_blocks, grid2.blocklist):
                where = 'block %r' % b1.name
                P('block volume reproduced', b2.volume, b1.volume, where)
                S((b1.centre is None) == (b2.centre is None), 'block centre presence', 'centre of %r' % b1.name)
                if b1.centre is not None and b2.centre is not None:
                    for ax in range(3): P('block centre reproduced', b2.centre[ax], b1.centre[ax], where)
                S(b1.atmosphere == b2.atmosphere, 'atmosphere flag reproduced', 'flag of %r' % b1.name)
        k1 = [tuple(b.name for b in con.block) for con in act_cons]
        k2 = [tuple(b.name for b in con.block) for con in grid2.connectionlist]
        if S(k1 == k2, 'connections reproduced in order and orientation', 'original %r, reproduced %r' % (k1, k2)):
            for c1, c2 in zip(act_cons, grid2.connectionlist):
                where = 'connection %s' % (tuple(b.name for b in c1.block),)
                P('connection distance 1 reproduced', c2.distance[0], c1.distance[0], where)
                P('connection distance 2 reproduced', c2.distance[1], c1.distance[1], where)
                P('connection area reproduced', c2.area, c1.area, where)
                P('connection gravity cosine reproduced', c2.dircos, c1.dircos, where)
                P('connection permeability direction reproduced', c2.direction, c1.direction, where)

        # discharge (per item, conjunction first with a short limit, then one by one)
        def prove_one(ob, where):
            r = c.prove(GS.formula(ob), ob[0], info=where)
            if r != 'unsat': failed_labels.add(ob[0])
            if r == 'sat': record(ob[0], '%s fails at %s' % (ob[0], where), c.failures[-1]['model'])
        groups, order_ = {}, []
        for ob, where in pending:
            if ob[0] in failed_labels:
                c.stats['ob_skipped_after_failure'] = c.stats.get('ob_skipped_after_failure', 0) + 1
                continue
            f = z3.simplify(GS.formula(ob))
            if z3.is_true(f):
                c.stats['obligations'] += 1; c.stats['ob_unsat'] += 1
                c.stats['ob_trivial'] = c.stats.get('ob_trivial', 0) + 1
                continue
            distinct.add((ob[0], f.hash()))
            if where not in groups: groups[where] = []; order_.append(where)
            groups[where].append((f, ob))
        for where in order_:
            fs = groups[where]
            if len(fs) > 1:
                r, _ = c.solve(z3.Not(z3.And(*[f for f, _ in fs])), timeout_ms=GROUP_TIMEOUT_MS)
                if r == 'unsat':
                    c.stats['obligations'] += len(fs); c.stats['ob_unsat'] += len(fs)
                    continue
            for f, ob in fs:
                if ob[0] not in failed_labels: prove_one(ob, where)
        if len(samples) < 1:
            samples.append(dict(config=cfg, blockmap=dict(list(sorted(bm.items()))[:6]),
                                example_obligation='surface of column 0: %s == %s' % (
                                    GS.zterm(geo2.columnlist[0].surface).sexpr()[:200], GS.zterm(surf[0]).sexpr()[:120])))
        return '%d blocks %d connections' % (len(n1), len(k1))

    res = sym.explore(h, GS.FastCtx(timeout_ms=30000), max_paths=5000, wall_s=TASK_WALL_S, profile_repo=profile)
    if state['reached'] == 0: res['exhausted'] = False
    name = 'rect%dx%dx%d/atm%d/conv%d->%d/free:%s/snap-%s%s%s' % (
        nx, ny, nz, atm, conv, conv2, ','.join(map(str, free)) or '-', snap,
        '' if not fix else '/fix:' + ','.join('%d=%d' % kv for kv in sorted(fix.items())), '' if not boundary else '/boundary-' + boundary)
    return report.summarize(name, res, failures, samples, extra=dict(distinct_obligations=len(distinct)))


# ---------------------------------------------------------------------------

def split(kw, nz, nsplit=1):
    out = []
    for combo in itertools.product(range(surface_classes(nz)), repeat=nsplit):
        k2 = dict(kw); k2['fix'] = dict(zip(list(kw['free'])[:nsplit], combo))
        out.append(k2)
    return out


def catalogue(tier):
    T = []
    def add(**kw): T.append((task_rectgeo, kw))
    def add_split(nsplit, **kw):
        for k2 in split(kw, kw['shape'][2], nsplit): T.append((task_rectgeo, k2))
    quick = (tier == 'quick')
    # (1) every atmosphere type x naming convention: on the 2-D mesh 2x1x2 in the quick tier,
    #     on the 3-D mesh 2x2x2 in the thorough tier (one stepped column)
    for i, (atm, conv) in enumerate(itertools.product((0, 1, 2), (0, 1, 2, 3))):
        if quick: add(shape=(2, 1, 2), atm=atm, conv=conv, free=[i % 2])
        else: add_split(1, shape=(2, 2, 2), atm=atm, conv=conv, free=[i % 4])
    # (2) 3-D 2x2x2, one stepped column per atmosphere type; rectgeo's default layer_snap;
    #     a different convention for the new geometry
    if quick:
        for atm, conv, col in ((0, 0, 0), (1, 3, 1), (2, 1, 3)):
            add_split(1, shape=(2, 2, 2), atm=atm, conv=conv, free=[col], profile=(atm == 0))
    add_split(1, shape=(2, 2, 2), atm=0, conv=2, conv2=3, free=[3], snap='default')
    if not quick:
        add_split(1, shape=(2, 2, 2), atm=2, conv=1, conv2=0, free=[1], snap='default')
        add_split(1, shape=(2, 2, 2), atm=1, conv=0, free=[0, 3])
    # (3) 2-D meshes (a single block in y / in x), both or two of three columns stepped
    for atm in (0, 1, 2):
        add(shape=(2, 1, 2), atm=atm, conv=atm, free=[0, 1])
        add(shape=(1, 2, 2), atm=atm, conv=atm + 1, free=[0, 1])
    add_split(1, shape=(3, 1, 2), atm=2, conv=0, free=[0, 1])
    add_split(1, shape=(1, 3, 2), atm=2, conv=3, free=[0, 2])
    # (3b) inactive boundary blocks (volume 0 or >= the threshold: solver's choice) on the x-max
    #      face / on top of every column must be ignored
    add(shape=(2, 2, 2), atm=2, conv=0, free=[], boundary='side')
    add(shape=(2, 2, 2), atm=2, conv=0, free=[], boundary='top')
    add(shape=(2, 1, 2), atm=0, conv=1, free=[0], boundary='side')
    # (3d) round 4: a different naming convention for the new geometry with one atmosphere block PER COLUMN
    #      (the block map must then rename the atmosphere blocks in fromgeo(geo', blockmap) as well)
    add(shape=(2, 1, 2), atm=1, conv=1, conv2=0, free=[1])
    add(shape=(1, 2, 2), atm=1, conv=0, conv2=2, free=[0])
    # (3c) round 4: inactive boundary blocks UNDER the bottom layer (centre below every rock block)
    add(shape=(2, 2, 2), atm=2, conv=0, free=[], boundary='bottom')
    add(shape=(2, 1, 2), atm=0, conv=1, free=[0], boundary='bottom')
    if quick: return T
    # ---- thorough only
    add_split(1, shape=(2, 2, 2), atm=1, conv=3, free=[1], boundary='side')
    add_split(1, shape=(2, 2, 2), atm=2, conv=2, free=[2], boundary='top')
    add_split(1, shape=(2, 2, 2), atm=1, conv=3, free=[1], boundary='bottom')
    add_split(1, shape=(2, 2, 2), atm=1, conv=2, conv2=1, free=[2])
    add_split(1, shape=(2, 2, 2), atm=0, conv=3, conv2=0, free=[0])
    add(shape=(1, 2, 2), atm=2, conv=2, free=[0], boundary='bottom')
    # (boundary blocks on TOP only together with atmosphere type 2: with an atmosphere block AND a boundary
    #  block above the same column, which of the two huge-volume blocks rectgeo takes for the atmosphere is
    #  ambiguous - it follows the iteration order of a set of connection names, i.e. the string hash seed -
    #  and the property does not say which; the shape atm=0 + boundary='top' used to be here and made the
    #  thorough tier flaky)
    add(shape=(3, 2, 2), atm=2, conv=0, free=[], boundary='top')
    # (4) 2x2x2 with two / three stepped columns
    add_split(2, shape=(2, 2, 2), atm=1, conv=0, free=[0, 1, 3])
    add_split(1, shape=(2, 2, 2), atm=2, conv=1, conv2=2, free=[1, 2])
    # (5) three layers
    add_split(1, shape=(2, 2, 3), atm=1, conv=1, free=[0, 3])
    add_split(1, shape=(2, 2, 3), atm=2, conv=2, free=[1], snap='default')
    # (6) 3x3x3 (the largest size claimed), one stepped column: centre (above the top / at the
    #     top of layer 2), origin column (at the top of the bottom layer); 3x3x2 with the far
    #     corner stepped (inside layer 1).  One 3x3x3 path costs about two CPU minutes.
    for cls in (0, 3):
        add(shape=(3, 3, 3), atm=0, conv=0, free=[4], fix={4: cls})
    add(shape=(3, 3, 3), atm=2, conv=2, free=[0], fix={0: 5})
    add(shape=(3, 3, 2), atm=1, conv=1, free=[8], fix={8: 2})
    # (7) unequal numbers of blocks per direction
    add_split(1, shape=(3, 2, 2), atm=0, conv=1, free=[0])
    add_split(1, shape=(3, 2, 2), atm=1, conv=3, free=[4])
    # (8) larger 2-D meshes
    add_split(1, shape=(3, 1, 3), atm=2, conv=2, free=[0, 1])
    add_split(1, shape=(3, 1, 3), atm=1, conv=1, free=[1, 2])
    add_split(1, shape=(1, 3, 3), atm=0, conv=3, free=[0, 2])
    add_split(1, shape=(3, 1, 2), atm=2, conv=0, free=[0, 1, 2])
    return T


def run(tier, seed, rep):
    _load()
    tasks = catalogue(tier)
    if seed:
        import random
        random.Random(seed).shuffle(tasks)
    rep.add_results(report.run_tasks(tasks))
    quick = (tier == 'quick')
    rep.bounds += [
        'rotation angle 0 only (the geometry is never rotated; rectgeo itself computes the angle and must find 0)',
        'values: every spacing > 0 and the origin are arbitrary reals (exact real arithmetic); surfaces: any real from the top of the '
        'bottom layer upwards (on a layer boundary, inside a layer, at the top, above the top - each arrangement is a path)',
        'sizes: ' + ('3-D 2x2x2 (one stepped column per atmosphere type); 2-D 2x1x2, 1x2x2 (both columns stepped), 3x1x2, 1x3x2 (two stepped columns)'
                     if quick else
                     '3-D 2x2x2 (1, 2 and 3 stepped columns), 2x2x3 (two stepped columns), 3x2x2 (one stepped column), 3x3x3 (one stepped column: '
                     'centre above the top / at the top of layer 2; origin column at the top of the bottom layer), 3x3x2 (far corner inside layer 1); 2-D 2x1x2, 1x2x2, 3x1x2, 1x3x2, 3x1x3, 1x3x3 '
                     '(two or three stepped columns)'),
        'atmosphere types 0/1/2 (the same type is passed to rectgeo), all 4 naming conventions for the original geometry, '
        'the reconstructed geometry named with the same or a different convention',
        'layer_snap = 0 (exact inverse) and the default 0.1 (with the assumption that no surface block is thinner than that)',
        'inactive boundary blocks (volume 0 or >= 1e25: solver\'s choice; one per face block / column): beside the x-max face, on top of '
        'every column (atmosphere type 2 only), under the bottom block of every column (round 4); every atmosphere type also with a '
        'non-identity name map (conv2 != conv, round 4)',
    ]
    rep.outside += [
        'non-zero rotation (needs asin / cos / sin of symbolic arguments)',
        'sizes beyond 3x3x3 (the quantifier goes to 12x12x14); more than ' + ('two' if quick else 'three') + ' stepped columns',
        'remove_inactive=True; inactive boundary blocks in arrangements other than the three listed under bounds (e.g. an atmosphere block '
        'AND a huge-volume boundary block above the same column: which of the two rectgeo takes for the atmosphere is ambiguous)',
        'the data-file round trip between fromgeo and rectgeo (t2data write/read is property C01)',
        'grids whose atmosphere volume / atmosphere connection distance differ from the library defaults: rectgeo builds the new '
        'geometry with the defaults, so those two numbers are not reproduced (agreed with the coordinator: a stated assumption)',
        'surfaces entirely below the top of the top layer: the top layer thickness is then not contained in the grid',
        'IEEE rounding (exact real arithmetic)',
    ]
    rep.assumptions += [
        'at least the bottom layer complete: every surface >= top of the bottom layer',
        'some column reaches the top of the geometry (columns that are not stepped stay at the default surface)',
        'every rock block volume is in (0, 1e25) = below rectgeo\'s default atmos_volume threshold; atmosphere volume 1e25 and '
        'atmosphere connection distance 1e-6 (library defaults)',
        'the forward conversion mulgrid.rectangular + fromgeo (property C04) supplies the grid; no data file in between',
        "layer_snap 'default': every surface block at least float(0.1) thick",
        'vector_heading: asin of an argument that the solver proves equal to 1, -1 or 0 on the path is replaced by its value '
        '(npshim._sym_asin, "concretise when unique")',
    ]
    rep.trusted += ['harness/geo_oracle.py rect_mesh / layer_levels (cumulative sums of the spacings)',
                    'harness/geo_sym.py FastCtx (branch-decision cache, UNSAT query cache, qfnra-nlsat front end with fall-back)']
    rep.extra['invalid_models_rechecked'] = sum(r.get('stats', {}).get('invalid_models', 0) + r.get('stats', {}).get('invalid_models_rechecked', 0) for r in rep.results)
    rep.process_failures()
    return rep.finish(rule='one obligation = one (label, z3 formula) per node / column / layer / block / connection on one path '
                           '(pc AND NOT formula must be unsat); list comparisons (names, orders, block map) are concrete per path; '
                           'distinct = distinct non-constant simplified formulas by (label, AST hash) per task')
