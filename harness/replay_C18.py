"""Replay for C18: the counterexample's concrete spacings, origin and surfaces
go through the REAL mulgrid.rectangular -> fromgeo -> rectgeo -> fromgeo chain
(floats, real numpy); the reconstructed geometry is compared with the inputs
themselves and the second grid with the first (relative tolerance 1e-6).
Reproduced = the obligation named in the counterexample fails concretely (for
'rectgeo completes with a finite result': an exception, or NaN coordinates)."""
import math
import os
import sys
import warnings
from fractions import Fraction

sys.path.insert(0, os.path.dirname(os.path.dirname(os.path.abspath(__file__))))
RTOL, ATOL = 1e-6, 1e-9


def num(x):
    if isinstance(x, dict) and 'frac' in x:
        return float(Fraction(int(x['frac'][0]), int(x['frac'][1])))
    if isinstance(x, list): return [num(v) for v in x]
    if isinstance(x, (int, Fraction)) and not isinstance(x, bool): return float(x)
    return x


def close(a, b):
    if a is None or b is None: return False
    a, b = float(a), float(b)
    if math.isnan(a) or math.isnan(b): return False
    return abs(a - b) <= ATOL + RTOL * max(abs(a), abs(b))


def replay(d):
    warnings.simplefilter('ignore')
    import mulgrids as M
    import t2grids as T
    from harness import geo_oracle as GO, geo_build as GB
    nx, ny, nz = d['shape']
    inp = {k: num(v) for k, v in d['inputs'].items()}
    surfaces = [num(s) for s in d['surfaces']]
    atm = d['atm']
    mesh = GB.oracle_mesh('rect', inp)
    tops, bots, mids = GO.layer_levels(mesh)
    geo, _ = GB.build(M, 'rect', inp, d['convention'], atm, None, mesh)
    mesh_, surf = GB.configure(geo, mesh, 0.0, geo.atmosphere_volume, geo.atmosphere_connection, surfaces)
    grid = T.t2grid().fromgeo(geo)
    act_blocks, act_cons = list(grid.blocklist), list(grid.connectionlist)
    if d.get('boundary'):
        import numpy as np
        GB.attach_boundary(T, np, geo, grid, d['boundary'], float(num(d.get('bvol')) or 0.0), inp, nx, ny)
    bad = []
    def S(ok, label, what=''):
        if not ok: bad.append((label, what))
        return ok
    def P(label, got, want, where):
        if not close(got, want): bad.append((label, '%s: got %r, expected %r' % (where, got if got is None else float(got), want if want is None else float(want))))
    layer_snap = 0.0 if d['snap'] == 'off' else 0.1
    try:
        geo2, bm = grid.rectgeo(atmos_type=atm, convention=d['convention2'], layer_snap=layer_snap)
        grid2 = T.t2grid().fromgeo(geo2, bm)
    except Exception as ex:
        import traceback
        tb = traceback.extract_tb(ex.__traceback__)[-1]
        msg = 'the real code raises %s: %s at %s:%d' % (type(ex).__name__, ex, tb.filename.split('/')[-1], tb.lineno)
        return d['label'].startswith('rectgeo completes'), msg
    coords = [float(v) for n in geo2.nodelist for v in n.pos] + [float(c.surface) for c in geo2.columnlist]
    if any(math.isnan(v) or math.isinf(v) for v in coords):
        bad.append(('rectgeo completes with a finite result', 'reconstructed geometry has non-finite coordinates: %r' % coords[:6]))
    V = mesh['verts']
    ncol = nx * ny
    if S(len(geo2.nodelist) == len(V) and len(geo2.columnlist) == ncol and len(geo2.layerlist) == nz + 1,
         'numbers of nodes, columns and layers recovered',
         'got %d nodes %d columns %d layers' % (len(geo2.nodelist), len(geo2.columnlist), len(geo2.layerlist))):
        for i, (n2, v) in enumerate(zip(geo2.nodelist, V)):
            P('node x (spacing and position recovered)', n2.pos[0], v[0], 'node %d' % i)
            P('node y (spacing and position recovered)', n2.pos[1], v[1], 'node %d' % i)
        for i, c2 in enumerate(geo2.columnlist):
            P('column centre x', c2.centre[0], mesh['centre'][i][0], 'column %d' % i)
            P('column centre y', c2.centre[1], mesh['centre'][i][1], 'column %d' % i)
            P('column surface recovered', c2.surface, surf[i], 'column %d' % i)
        S([c2.num_layers for c2 in geo2.columnlist] == [col.num_layers for col in geo.columnlist],
          'column layer counts recovered', '%r vs %r' % ([c2.num_layers for c2 in geo2.columnlist], [col.num_layers for col in geo.columnlist]))
        P('top elevation recovered', geo2.layerlist[0].bottom, tops[0], 'layer 0')
        for k in range(nz):
            l2 = geo2.layerlist[k + 1]
            P('layer top (vertical spacing and position recovered)', l2.top, tops[k], 'layer %d' % (k + 1))
            P('layer bottom (vertical spacing and position recovered)', l2.bottom, bots[k], 'layer %d' % (k + 1))
            P('layer centre', l2.centre, mids[k], 'layer %d' % (k + 1))
    pa = float(geo2.permeability_angle)
    S(pa == 0, 'permeability angle is zero', 'permeability angle %r' % pa)
    S(geo2.atmosphere_type == atm, 'atmosphere type')
    n_atm = {0: 1, 1: ncol, 2: 0}[atm]
    want_atm = [b.name for b in act_blocks[:n_atm]]
    got_atm = [bm.get(n) for n in geo2.block_name_list[:n_atm]]
    S(got_atm == want_atm, 'block map sends the atmosphere blocks to the original atmosphere blocks', '%r vs %r' % (got_atm, want_atm))
    S(sorted(bm.keys()) == sorted(geo2.block_name_list), 'block map covers exactly the blocks of the reconstructed geometry',
      '%r vs %r' % (sorted(bm.keys()), sorted(geo2.block_name_list)))
    n1, n2_ = [b.name for b in act_blocks], [b.name for b in grid2.blocklist]
    if S(n1 == n2_, 'block names reproduced in order', 'original %r, reproduced %r' % (n1, n2_)):
        for b1, b2 in zip(act_blocks, grid2.blocklist):
            where = 'block %r' % b1.name
            P('block volume reproduced', b2.volume, b1.volume, where)
            S((b1.centre is None) == (b2.centre is None), 'block centre presence', where)
            if b1.centre is not None and b2.centre is not None:
                for ax in range(3): P('block centre reproduced', b2.centre[ax], b1.centre[ax], where)
            S(b1.atmosphere == b2.atmosphere, 'atmosphere flag reproduced', where)
    k1 = [tuple(b.name for b in con.block) for con in act_cons]
    k2 = [tuple(b.name for b in con.block) for con in grid2.connectionlist]
    if S(k1 == k2, 'connections reproduced in order and orientation', 'original %r, reproduced %r' % (k1, k2)):
        for c1, c2 in zip(act_cons, grid2.connectionlist):
            where = 'connection %s' % (tuple(b.name for b in c1.block),)
            P('connection distance 1 reproduced', c2.distance[0], c1.distance[0], where)
            P('connection distance 2 reproduced', c2.distance[1], c1.distance[1], where)
            P('connection area reproduced', c2.area, c1.area, where)
            P('connection gravity cosine reproduced', c2.dircos, c1.dircos, where)
            P('connection permeability direction reproduced', c2.direction, c1.direction, where)
    hit = [b for b in bad if b[0] == d['label']]
    if hit:
        return True, '%s: %s' % hit[0] + ('' if len(bad) == 1 else ' (+%d other failing obligations)' % (len(bad) - 1))
    if bad:
        return False, 'obligation %r holds concretely, but others fail: %r' % (d['label'], bad[:3])
    return False, 'all obligations hold concretely'
