"""Pieces of the C19 harness that the concrete replay needs too (no z3)."""
from fractions import Fraction as F

DEFAULT_ATM = [F(101300), F(20)]     # t2incons.py: t2blockincon([1.013e5, 20.])


def own_block_name(conv, layname, colname):
    """Block name from the naming convention (own statement of the rule)."""
    if conv in (0, 3): name = colname[0:3] + layname[0:2]
    elif conv == 1: name = layname[0:3] + colname[0:2]
    else: name = layname[0:2] + colname[0:3]
    # TOUGH2 reads names as (a3, i2): a blank 4th character between digits becomes '0'
    if name[2].isdigit() and name[4].isdigit() and name[3] == ' ':
        name = name[0:3] + '0' + name[4:5]
    return name


# generator layouts for the t2data family: (where, type, table length, enthalpy table?)
LAYOUTS = {
    'A': [('top', 'MASS', 0, False), ('bottom', 'HEAT', 0, False), ('interior', 'MASS', 0, False)],
    'B': [('top', 'MASS', 2, False), ('interior', 'MASS', 3, True), ('bottom', 'HEAT', 0, False), ('interior', 'COM1', 0, False)],
    'C': [('interior', 'MASS', 2, True), ('top', 'HEAT', 0, False), ('top', 'MASS', 0, False), ('bottom', 'MASS', 2, False)],
    # top / bottom generators whose NAME does not follow the column of their block (5th item: 'other' = the name
    # carries the next column's name, a 3-character string = a name that is no column at all).  A generator belongs
    # to the column of its BLOCK; the code is free to rename such a generator, so these are matched by block.
    'D': [('top', 'MASS', 0, False, 'other'), ('top', 'MASS', 0, False, 'rch'), ('bottom', 'HEAT', 2, False, 'hfl'),
          ('interior', 'MASS', 0, False)],
    'E': [('bottom', 'HEAT', 0, False, 'other'), ('top', 'MASS', 2, False, 'rch'), ('top', 'MASS', 0, False)],
    # round 4: interior generators ("wells") whose name is not derived from their column: they keep their name unless
    # rename_generators is set, and are then named category + column of their block
    'F': [('interior', 'MASS', 0, False, 'wel'), ('interior', 'HEAT', 3, False, 'wlx'), ('top', 'MASS', 0, False),
          ('bottom', 'HEAT', 0, False), ('interior', 'MASS', 2, True)],
    'G': [('interior', 'COM1', 0, False, 'wel'), ('top', 'MASS', 0, False, 'rch'), ('interior', 'MASS', 2, False, 'other')],
}

TOPCAT = [' 1', ' 1t', ' 1', ' 1']
BOTCAT = ['99', '99b', '99', '99']


def generator_plan(conv, layout, colnames, laynames):
    """[(index, name, block, type, table length, enthalpy?, name follows the block's column?, where, name after
    column-based renaming)] for a layout on a geometry with the given column / layer names (layer 0 = atmosphere layer).
    The last item is category + column of the generator's BLOCK: the name every top / bottom generator has after a
    transfer onto an identical geometry, and every other generator when rename_generators is set."""
    out = []
    nlay = len(laynames) - 1
    for gi, item in enumerate(LAYOUTS[layout]):
        where, typ, ntab, enth = item[:4]
        namecol = item[4] if len(item) > 4 else None
        col = colnames[gi % len(colnames)]
        if namecol is None: ncol = col
        elif namecol == 'other': ncol = colnames[(gi + 1) % len(colnames)]
        else: ncol = namecol
        follows = ncol == col
        if where == 'top':
            blk, nm = own_block_name(conv, laynames[1], col), own_block_name(conv, TOPCAT[conv], ncol)
            ren = own_block_name(conv, TOPCAT[conv], col)
        elif where == 'bottom':
            blk, nm = own_block_name(conv, laynames[-1], col), own_block_name(conv, BOTCAT[conv], ncol)
            ren = own_block_name(conv, BOTCAT[conv], col)
        else:
            li = 2 if nlay >= 3 else nlay
            cat = ['w%d' % gi, 'w%dx' % gi, 'w%d' % gi, 'w%d' % gi][conv]
            blk, nm = own_block_name(conv, laynames[li], col), own_block_name(conv, cat, ncol)
            ren = own_block_name(conv, cat, col)
        out.append((gi, nm, blk, typ, ntab, enth, follows, where, ren))
    return out
