"""C20 - flavour conversion (AUTOUGH2 <-> TOUGH2) and Waiwera export keep the
model and drop only what they say.

The REAL t2data.convert_to_TOUGH2 / convert_to_AUTOUGH2 / type setter and the
REAL *_json methods (reloaded from /repo) run on models whose option digits,
solver types, generator type strings, EOS strings, block volumes and rock
properties are symbolic.  Shapes (sections present, MP, short output / history
variants, duplicated generator names, atmosphere type, block order, generator
catalogue) are enumerated.  The expected model is produced by an independent
oracle (harness/c20_model.py) from a twin of the input, and compared leaf by
leaf; every comparison is an obligation decided by z3 on the path.
"""
import re
import z3
from fractions import Fraction
from vx import sym, strs, loader, report, vfs as vfsmod
from vx.sym import SReal, SInt, SBool
from vx.strs import SStr, SChar
from harness import c20_model as M

PID = 'C20'
_LD = None
def _load():
    global _LD
    if _LD is None:
        fs = vfsmod.VFS()
        _LD = (loader.load(['t2data'], vfs=fs), fs)
    return _LD


# ---------------------------------------------------------------------------
# providers

_ALPHA = {}
def _in_alphabet(e, alphabet):
    """e is the code of one of the characters (as a union of code ranges)"""
    runs = _ALPHA.get(alphabet)
    if runs is None:
        codes = sorted(set(ord(ch) for ch in alphabet)); runs = []
        for cd in codes:
            if runs and cd == runs[-1][1] + 1: runs[-1][1] = cd
            else: runs.append([cd, cd])
        _ALPHA[alphabet] = runs
    return z3.Or(*[(e == lo) if lo == hi else z3.And(e >= lo, e <= hi) for lo, hi in runs])


class Ext(object):
    """extra provider methods of the C20 models (symbolic backend)"""
    def _note(self, e, name=None):
        if not hasattr(self, 'syms'): self.syms = {}
        self.syms[name if name is not None else e.decl().name()] = e

    def cells(self, base, n, alphabet):
        out = []
        for k in range(n):
            e = z3.Int('%s.%d' % (base, k))
            self._note(e)
            self.c.add(_in_alphabet(e, alphabet))
            out.append(SChar(e))
        return strs._mk(out)

    def fint(self, name, lo, hi):
        v = self.c.int(name, lo, hi); self._note(v.e); return v

    def freal(self, name, lo=None, hi=None):
        v = self.c.real(name, lo, hi); self._note(v.e); return v

    def assume(self, cond):
        if isinstance(cond, SBool): self.c.add(cond.e)
        elif not cond: self.c.add(False)

    def assume_not(self, cond):
        if isinstance(cond, SBool): self.c.add(z3.Not(cond.e))
        elif cond: self.c.add(False)

    def assume_fits(self, v, kind, w, p):
        """the value renders within w characters in '%w.p<kind>' (only the round-trip provider prints)"""
        if not getattr(self, 'prints', False) or not isinstance(v, (SReal, SInt)): return
        e = sym.lift_real(v)
        r = strs.rounded_value(kind, p, e)
        self.c.add(strs.natural_length(kind, p, e, r) <= w)
        a = z3.If(e >= 0, e, -e)
        self.c.add(z3.Or(e == 0, z3.And(a >= z3.RealVal(Fraction(1, 10 ** 90)), a <= z3.RealVal(Fraction(10 ** 90)))))

    def assume_any(self, conds):
        if any(x is True for x in conds): return
        es = [x.e for x in conds if isinstance(x, SBool)]
        self.c.add(z3.Or(*es) if es else False)


class PB(Ext):
    """plain provider: the C01 provider interface without the 'value fits its
    field' constraints (nothing is printed in the conversion / export tasks)"""
    def __init__(self, c, spec):
        self.c, self.spec, self.n = c, spec, 0
        self.syms = {}

    def real(self, kind, w, p, positive=False, formats=None, nonneg=False, nonzero=False):
        self.n += 1
        v = self.c.real('r%d' % self.n); self._note(v.e)
        if positive: self.c.add(v.e > 0)
        if nonneg: self.c.add(v.e >= 0)
        if nonzero: self.c.add(v.e != 0)
        return v

    def int(self, w, lo=0, hi=None):
        self.n += 1
        v = self.c.int('i%d' % self.n, lo, 10 ** w - 1 if hi is None else hi); self._note(v.e)
        return v

    def record(self, rec, skip=(), xp=False, positive=()):
        names, fmts = self.spec[rec]
        out = {}
        for nm, f in zip(names, fmts):
            if not nm or nm in skip or f[-1] in 'sx': continue
            typ = f[-1]
            w = abs(int(f[:-1].partition('.')[0]))
            if typ in 'ef': out[nm] = self.real(typ, w, 0, positive=nm in positive)
            elif typ == 'd': out[nm] = self.int(w)
        return out

    def digit(self, name):
        v = self.c.int(name, 0, 9); self._note(v.e); return v

    def some_nonzero(self, xs): self.c.add(sym.lift_int(xs[0]) != 0)

    def name(self, base, pattern, previous):
        if any(ch in 'LDB' for ch in pattern): raise ValueError('C20 shapes use concrete names')
        return pattern

    def reals(self, n, kind, w, p, formats=None):
        return [self.real(kind, w, p, formats=formats) for _ in range(n)]


def round_trip_provider(c, T):
    """C01's provider (every printed value assumed to fit its field) + the C20 extras"""
    from harness import C01
    class RB(Ext, C01.B):
        prints = True
        def real(self, *a, **k):
            v = C01.B.real(self, *a, **k); self._note(v.e); return v
        def int(self, *a, **k):
            v = C01.B.int(self, *a, **k); self._note(v.e); return v
        def digit(self, name):
            v = C01.B.digit(self, name); self._note(v.e); return v
    b = RB(c, T.t2data_format_specification, T.t2data_extra_precision_format_specification)
    b.syms = {}
    return b


class SymOps(object):
    def ite(self, c, x, y):
        if isinstance(c, bool): return x if c else y
        return sym.ite(c, x, y)
    def and_(self, *cs):
        if any(x is False for x in cs): return False
        cs = [x for x in cs if x is not True]
        if not cs: return True
        return sym.sand(*cs)
    def or_(self, *cs):
        if any(x is True for x in cs): return True
        cs = [x for x in cs if x is not False]
        if not cs: return False
        return sym.sor(*cs)
    def not_(self, c):
        if isinstance(c, bool): return not c
        return sym.snot(c)
    def truth(self, c): return bool(c)
    def is_num(self, x): return isinstance(x, (int, float, Fraction, SReal, SInt)) and not isinstance(x, bool)
    def is_text(self, x): return isinstance(x, (str, SStr))

OPS = SymOps()


# ---------------------------------------------------------------------------
# obligations of one path

norm_key = M.norm_key


class Prover(object):
    def __init__(self, c, providers, shape, failures, distinct, seen, prefix=''):
        self.c, self.providers, self.shape, self.failures, self.distinct, self.prefix = c, providers, shape, failures, distinct, prefix
        self.n = 0
        self.seen = seen
        self.examples = []

    def model_dump(self, m):
        out = {}
        for p in self.providers:
            for name, e in p.syms.items(): out[name] = sym.model_value(m, e)
        for d in m.decls():
            if d.arity() == 0 and d.name() not in out: out[d.name()] = sym.model_value(m, d())
        return out

    def discharge(self, items):
        """items: (cond, label) with cond a bool / SBool / z3 Bool"""
        forms = []
        for cond, label in items:
            self.n += 1
            label = self.prefix + label
            if isinstance(cond, SBool): f = cond.e
            elif isinstance(cond, bool): f = z3.BoolVal(cond)
            else: f = cond
            f = z3.simplify(f)
            if not (z3.is_true(f) or z3.is_false(f)):
                self.distinct.add((norm_key(label), f.hash()))
                if len(self.examples) < 4 and norm_key(label) not in [k for k, _, _ in self.examples]:
                    self.examples.append((norm_key(label), label, str(f).replace('\n', ' ')[:300]))
            forms.append((f, label))
        n0 = len(self.c.failures)
        self.c.prove_all(forms)
        for fl in self.c.failures[n0:]:
            key = norm_key(fl['label'])
            self.seen[key] = self.seen.get(key, 0) + 1
            if self.seen[key] > 3: continue       # three witnesses per key and task are enough for the replay
            self.failures.append(dict(key=key, what='%s [%s]' % (fl['label'], self.shape['tag']),
                                      replay=dict(shape=self.shape, model=self.model_dump(fl['model']), key=key)))


# ---------------------------------------------------------------------------
# conversion tasks

def task_conv(shape):
    ld, fs = _load()
    T, G, np_ = ld.t2data, ld.t2grids, ld.mulgrids.np
    failures, samples, distinct, seen = [], [], set(), {}
    rt = shape.get('roundtrip', False)

    def h(c):
        fs.files.clear()
        mk = (lambda: round_trip_provider(c, T)) if rt else (lambda: PB(c, T.t2data_format_specification))
        b1, b2 = mk(), mk()
        ref, _ = M.build_conv(b1, T, G, np_, shape)
        dat, info = M.build_conv(b2, T, G, np_, shape)
        r0, _ = c.reachable()
        if r0 != 'sat':
            c.prove(False, 'preconditions satisfiable (vacuity)'); return 'vacuous'
        pr = Prover(c, [b2], shape, failures, distinct, seen)
        orig = list(dat.generatorlist)
        err = M.run_conversion(T, dat, shape)
        st = M.Sink()
        M.check_conversion(OPS, T, G, np_, ref, dat, shape, err, st, orig)
        pr.discharge(st.items)
        if not samples:
            samples.append(dict(shape=shape['tag'], obligations=len(st.items),
                                examples=[dict(obligation=l, formula=f) for _, l, f in pr.examples],
                                sections_after=list(dat._sections)))
        if err is not None: return 'raised %s' % type(err).__name__
        if rt:
            from harness import C01
            from harness.c01_model import compare
            tgt = dict(shape['c01']); tgt['autough2'] = (shape['dir'] == 'toA')
            tagdir = 'to_TOUGH2' if shape['dir'] == 'toT' else 'to_AUTOUGH2'
            items = []
            def ob(f, label): items.append((f, label))
            try:
                dat.write('conv.dat')
                dat2 = T.t2data('conv.dat')
                compare(C01.Cmp(c, ob), dat, dat2, tgt, where=('to_TOUGH2' if shape['dir'] == 'toT' else 'to_AUTOUGH2') + '/roundtrip/')
            except Exception as ex:
                import traceback
                items.append((False, '%s/roundtrip/exception/%s: writing and re-reading the converted model raised %s: %s | %s' % (
                    'to_TOUGH2' if shape['dir'] == 'toT' else 'to_AUTOUGH2', type(ex).__name__, type(ex).__name__, ex,
                    traceback.format_exc()[-300:].replace('\n', ' / '))))
            w2 = tagdir + '/roundtrip/'
            stale = any(type(x).__name__ == 't2generator' for x in dat.history_generator)
            fixed = []
            for f, label in items:
                label = label.replace(w2 + w2, w2)
                # GOFT written from generator objects: the consequence of the in-memory obligation, same key
                if stale and label.startswith(w2 + 'history_generator'): label = tagdir + '/model.history_generator[0]: (round trip) ' + label
                fixed.append((f, label))
            pr.discharge(fixed)
        return 'checked'

    res = sym.explore(h, sym.Ctx(timeout_ms=120000), max_paths=shape.get('max_paths', 6000), wall_s=shape.get('wall_s', 1500))
    tr = report.summarize('conv ' + shape['tag'], res, failures, samples, extra=dict(distinct_obligations=len(distinct)))
    if not any(p.outcome == 'checked' or str(p.outcome).startswith('raised') for p in res['paths']):
        tr['error'] = 'vacuity: no path reached the obligations: %s' % tr['outcomes']
    return tr


# ---------------------------------------------------------------------------
# export tasks

def task_export(shape):
    ld, fs = _load()
    T, G, MG, np_ = ld.t2data, ld.t2grids, ld.mulgrids, ld.mulgrids.np
    failures, samples, distinct, seen = [], [], set(), {}
    reached = [0]

    def h(c):
        spec = T.t2data_format_specification
        b1, b2 = PB(c, spec), PB(c, spec)
        ref, refgeo = M.build_export(b1, MG, T, G, np_, shape)
        dat, geo = M.build_export(b2, MG, T, G, np_, shape)
        r0, _ = c.reachable()
        if r0 != 'sat':
            c.prove(False, 'preconditions satisfiable (vacuity)'); return 'vacuous'
        pr = Prover(c, [b2], shape, failures, distinct, seen)
        res = M.run_export(T, dat, geo, shape)
        st = M.Sink()
        M.check_export(OPS, MG, T, G, np_, ref, refgeo, dat, geo, shape, res, st)
        pr.discharge(st.items)
        reached[0] += len(st.items)
        if not samples:
            samples.append(dict(shape=shape['tag'], obligations=len(st.items), examples=[dict(obligation=l, formula=f) for _, l, f in pr.examples],
                                results=dict((k, (v[0], (M.exc_text(v[1]) if v[0] == 'raised' else repr(v[1]))[:200])) for k, v in res.items())))
        return '+'.join('%s:%s' % (k, v[0] if v[0] == 'ok' else ('refused' if M.refusal(v[1]) else type(v[1]).__name__)) for k, v in sorted(res.items()))

    res = sym.explore(h, sym.Ctx(timeout_ms=120000), max_paths=shape.get('max_paths', 6000), wall_s=shape.get('wall_s', 1500))
    tr = report.summarize('export ' + shape['tag'], res, failures, samples, extra=dict(distinct_obligations=len(distinct)))
    if not reached[0]:
        tr['error'] = 'vacuity: no path reached an obligation: %s' % tr['outcomes']
    return tr


def export_shapes(tier):
    S = []
    def add(tag, **kw):
        kw['tag'] = tag; kw['kind'] = 'export'; S.append(kw)
    cg = dict(gx=1.e-11, ex=2.e5, hg=5., fg=0.55e6)       # concrete values for generators that only fill the list
    add('x-partition-atm2', atm=2, volumes='sym', rocks='sym', parts=['rocks', 'boundaries'])
    add('x-mesh-directions', atm=0, directions='sym', parts=['mesh'])
    add('x-eos-arg', eos=dict(mode='arg', value=['sym', 3]), temperature='sym', parts=['eos'])
    add('x-eos-multi', eos=dict(mode='multi'), temperature='sym', parts=['eos'])
    add('x-eos-simulator', eos=dict(mode='simulator', multi='absent'), temperature='sym', parts=['eos'])
    add('x-eos-simulator-multi-noeos', eos=dict(mode='simulator', multi='noeos', cells=3), parts=['eos'])
    # MULTI has an 'eos' entry but it is empty / None / blank (an AUTOUGH2 file whose MULTI line leaves the field blank): the simulator string names the EOS
    add('x-eos-simulator-multi-empty', eos=dict(mode='simulator', multi='blank', cells=3), parts=['eos'])
    add('x-eos-simulator-multi-none', eos=dict(mode='simulator', multi='none', cells=2), parts=['eos'])
    add('x-eos-simulator-multi-spaces', eos=dict(mode='simulator', multi='spaces', cells=4), parts=['eos'])
    add('x-gens-basic', atm=0, generators=[dict(type='MASS', block='sym', name=' ge 1'), dict(type='HEAT', block=2, name=' ge 1', hg=None, fg=None),
                                            dict(type='COM1', block=2, name=' ge 1', hg=None, fg=None), dict(type='DELV', block=0, name=' ge 4')], parts=['generators'])
    # (round 4) a rate table with the GX field left blank (read() gives gx None), as TOUGH2 files normally write table generators
    add('x-gens-table-nogx', atm=0, generators=[dict(type='MASS', block=1, table=2, gx=None, ex=None, hg=None, fg=None), dict(type='MASS', block=2, hg=None, fg=None),
                                                 dict(type='COM1', block=3, table=2, itab='1', gx=None, hg=None, fg=None)], parts=['generators'])
    add('x-json-whole', atm=1, eos=dict(mode='multi'), generators=[dict(type='MASS', block=3, gx=-2.5, hg=None, fg=None), dict(type='DELG', block='sym', fg=0., hg=0.)], parts=['json'])
    # the whole export with a non-default boundary threshold: rocks and boundaries must use the same one
    add('x-json-partition-smallatm', atm=2, volumes='sym', atmos_volume=1.e6, eos=dict(mode='multi'), parts=['json'])
    if tier == 'thorough':
        add('x-json-partition-bigatm', atm=1, volumes='sym', atmos_volume=1.e30, eos=dict(mode='multi'), parts=['json'])
        for atm in (0, 1):
            for order in (None, 'dmplex'):
                add('x-partition-atm%d-%s' % (atm, order or 'layer_column'), atm=atm, order=order, volumes='sym', parts=['rocks', 'boundaries'])
        add('x-partition-atm2-dmplex-smallatm', atm=2, order='dmplex', volumes='sym', atmos_volume=1.e6, parts=['rocks', 'boundaries'])
        add('x-mesh-directions-atm2', atm=2, order='dmplex', directions='sym', parts=['mesh'])
        for n in (1, 2, 4):
            add('x-eos-arg-%d' % n, eos=dict(mode='arg', value=['sym', n]), parts=['eos'])
        for v in (1, 2, 3, 4, 5):
            add('x-eos-int-%d' % v, eos=dict(mode='arg', value=v), parts=['eos'])
        add('x-eos-simulator-mulkom', eos=dict(mode='simulator', multi='blank', name='MULKOM'), parts=['eos'])
        add('x-eos-simulator-2cells', eos=dict(mode='simulator', multi='absent', cells=2), parts=['eos'])
        add('x-gens-deliv', atm=1, generators=[dict(type='DELG', block='sym'), dict(type='DMAK', block=3, **cg), dict(type='TMAK', block=3, name='     ', ex=0.),
                                               dict(type='RECH', block=4, gx=2., ex=8.e4)], parts=['generators'])
        add('x-gens-reinj', atm=2, order='dmplex', generators=[dict(type='DELT', block=0, **cg), dict(type='FINJ', block='sym', ex=1.e5), dict(type='PINJ', block=2, gx=0., ex=1.e5),
                                                                dict(type='IMAK', block=3, ex=1.e5, hg=2.e5)], parts=['generators'])
        add('x-gens-tables', atm=0, generators=[dict(type='MASS', block='sym', table=3, itab='1', hg=None, fg=None), dict(type='DELW', block=1, table=2, fg=0.),
                                                dict(type='COM2', block=1, name=' ge 1', hg=None, fg=None), dict(type='COM2', block=1, name=' ge 1', hg=None, fg=None)],
            tracer=True, parts=['generators'])
        add('x-gens-unsupported', atm=2, generators=[dict(type='MASS', block=0), dict(type='FEED', block=1, **cg)], parts=['generators'])
        add('x-gens-delv-layers', atm=2, generators=[dict(type='DELV', block='sym', ltab=2, **cg), dict(type='XINJ', block=1)], parts=['generators'])
    return S


# ---------------------------------------------------------------------------
# shape catalogue

AUT_SECS = ['SIMUL', 'ROCKS', 'PARAM', 'START', 'RPCAP', 'LINEQ', 'MULTI', 'TIMES', 'ELEME', 'CONNE', 'GENER', 'SHORT', 'INCON', 'INDOM']
T2_SECS = ['ROCKS', 'PARAM', 'START', 'RPCAP', 'SOLVR', 'MULTI', 'TIMES', 'ELEME', 'CONNE', 'GENER', 'FOFT', 'COFT', 'GOFT', 'INCON', 'INDOM']
NAMES = [' a  1', ' b  2', ' c  3']


def c01shape(secs, gens, aut, nblocks=3, nrock=2, **kw):
    d = dict(tag='c20', autough2=aut, sections=list(secs), nrock=nrock, nad=[0, 1], nblocks=nblocks, name_patterns=NAMES,
             nincons=2, ntimes=2, generators=gens, nincon_vars=2)
    d.update(kw)
    return d


def G_(cls, block=0, name=None, **kw):
    d = dict(ltab=1, cls=cls, block=block)
    if name is not None: d['name'] = name
    d.update(kw)
    return d


def conv_shapes(tier):
    S = []
    def add(tag, **kw):
        kw['tag'] = tag; kw['kind'] = 'conv'; S.append(kw)
    nolineq = [s for s in AUT_SECS if s != 'LINEQ']
    full = dict(block=[0, 2], connection=[1], generator=[1], frequency=True)
    # --- AUTOUGH2 -> TOUGH2
    # all 24 option digits free (generators of fixed classes, so that the two decision trees do not multiply)
    add('toT-options', dir='toT', c01=c01shape(AUT_SECS, [G_('lacking'), G_('com', 1)], True), short=full, mop='free')
    # generator types: the solver decides kept / converted / deleted for each; duplicated names
    add('toT-gens-2any', dir='toT', c01=c01shape(nolineq, [G_('any', 0, ' ge 1'), G_('any', 0, ' ge 1'), G_('com', 0, ' ge 2')], True),
        short=dict(generator=[2]), mop='quiet')
    add('toT-gens-dup-del', dir='toT', c01=c01shape(AUT_SECS, [G_('kept', 1, ' ge 1'), G_('lacking', 1, ' ge 1'), G_('com', 2, ' ge 2'), G_('com', 1, ' ge 3')], True),
        short=dict(block=[1], generator=[0, 2, 3]), mop='quiet')       # two requested generators share a block: one GOFT request
    add('toT-old-simulator', dir='toT', simulator='AUTOUGH2', c01=c01shape([s for s in AUT_SECS if s not in ('LINEQ', 'MULTI')], [G_('com')], True),
        short=dict(frequency=True), mop='free')
    add('toT-MP', dir='toT', MP=True, c01=c01shape(AUT_SECS, [G_('com')], True), short=dict(block=[0]), filename='model.dat',
        mop={'10': False, '12': False, '22': False, '23': False, '24': False})       # MOP(14), (17), (20), (21) free
    add('toT-type-setter', dir='toT', via='type', c01=c01shape(AUT_SECS, [G_('lacking'), G_('kept', 2)], True), short=full, mop='quiet')
    # (round 4) sections held in the AUTOUGH2-only extra-precision file and not echoed: nothing may stay designated for that file
    add('toT-xprec', dir='toT', c01=c01shape(AUT_SECS, [G_('com', 1)], True), short=dict(block=[0]), mop='quiet',
        xprec=dict(sections=['ROCKS', 'ELEME'], echo=False))
    # (round 4) a LINEQ section whose solver type field is blank (read() stores no 'type' entry)
    add('toT-lineq-notype', dir='toT', c01=c01shape(AUT_SECS, [G_('com')], True), short=dict(frequency=True), mop='quiet', lineq_type='absent')
    # --- TOUGH2 -> AUTOUGH2
    hist_obj = dict(block=[('blk', 0), ('blk', 2)], connection=[('con', 0)], generator=[('blk', 0)])
    hist_mixed = dict(block=[('name', ' zz 9'), ('blk', 1)], connection=[('name', [' a  1', ' zz 9']), ('con', 1)], generator=[('gen', 0), ('blk', 1), ('name', ' a  1')])
    add('toA-options', dir='toA', c01=c01shape([s for s in T2_SECS if s != 'SOLVR'], [G_('any')], False), history=hist_obj, mop='free', filename='model')
    add('toA-solvr', dir='toA', c01=c01shape(T2_SECS, [G_('any', 1)], False), history=hist_mixed, mop='quiet', filename='MODEL.DAT')
    add('toA-MP', dir='toA', MP=True, c01=c01shape(T2_SECS, [G_('com')], False), history=hist_obj, filename='INFILE',
        mop={'12': False, '22': False, '23': False, '24': False})
    # generators sharing (block, name) + a GOFT request for their block: every one of them gets a short-output request
    add('toA-dup-goft', dir='toA', c01=c01shape(T2_SECS, [G_('com', 1, ' ge 1'), G_('any', 1, ' ge 1'), G_('com', 0, ' ge 2'), G_('lacking', 1, ' ge 1')], False),
        history=dict(block=[('blk', 1)], generator=[('blk', 1), ('blk', 0)]), mop='quiet', solver_max=6, filename='m.dat')
    add('toA-type-setter', dir='toA', via='type', c01=c01shape(T2_SECS, [G_('com'), G_('lacking', 2)], False), history=hist_obj, mop='quiet',
        solver_max=6)
    # (round 4) requests held as bare names although the grid has the block / connection (FOFT / COFT / GOFT read before ELEME / CONNE)
    add('toA-names-existing', dir='toA', c01=c01shape(T2_SECS, [G_('com', 1), G_('com', 1, ' ge 2'), G_('com', 2)], False),
        history=dict(block=[('name', ' a  1'), ('blk', 2), ('name', ' zz 9')], connection=[('name', [' a  1', ' b  2']), ('name', [' a  1', ' c  3'])],
                     generator=[('name', ' b  2')]), mop='quiet', solver_max=6)
    if tier == 'thorough':
        add('toT-options-gen', dir='toT', c01=c01shape(nolineq, [G_('any')], True), short=dict(block=[1]), mop='free')
        add('toT-options-MP', dir='toT', MP=True, c01=c01shape(AUT_SECS, [G_('lacking')], True), short=dict(block=[0], connection=[0, 1]), mop='free', filename='model.dat')
        add('toT-options-nolineq', dir='toT', c01=c01shape(nolineq, [G_('com')], True), short=dict(connection=[0, 1]), mop='free')
        add('toT-mulkom', dir='toT', simulator='MULKOM', c01=c01shape(AUT_SECS, [G_('com')], True), short=dict(block=[0]), mop='free')
        add('toT-gens-3any', dir='toT', c01=c01shape(nolineq, [G_('any', 0, ' ge 1'), G_('any', 1, ' ge 1'), G_('any', 0, ' ge 1')], True),
            short=dict(block=[0]), mop='quiet')
        add('toT-gens-4', dir='toT', c01=c01shape(AUT_SECS, [G_('any', 0, ' ge 1'), G_('lacking', 0, ' ge 1'), G_('any', 2, ' ge 3'), G_('com', 2, ' ge 3')], True),
            short=dict(generator=[3]), mop='quiet')
        add('toT-gens-kept-warn', dir='toT', warn=True, c01=c01shape(nolineq, [G_('kept'), G_('lacking', 1), G_('kept', 1, ' ge 2')], True),
            short=dict(generator=[0, 2], frequency=True), mop='quiet')
        add('toT-nosections', dir='toT', c01=c01shape(['SIMUL', 'PARAM'], [], True, nblocks=0), mop='free')
        add('toT-noshort-nogener', dir='toT', c01=c01shape([s for s in AUT_SECS if s not in ('SHORT', 'GENER', 'MULTI')], [], True), mop='quiet')
        add('toA-options-MP', dir='toA', MP=True, c01=c01shape(T2_SECS, [G_('any')], False), history=hist_mixed, mop='free', filename='INFILE')
        add('toA-names-only', dir='toA', c01=c01shape(['PARAM', 'MULTI'], [], False, nblocks=0),
            history=dict(block=[('name', ' a  1')], connection=[('name', [' a  1', ' b  2'])], generator=[('name', ' a  1')]), mop='quiet', mop21_max=6)
        add('toA-args', dir='toA', simulator_arg='MULKOM', eos_arg='EWAV', c01=c01shape(T2_SECS, [G_('any'), G_('any', 0)], False),
            history=dict(generator=[('gen', 1), ('gen', 0)]), mop='quiet', filename='Model', solver_max=6)
        add('toT-xprec-echo', dir='toT', via='type', c01=c01shape(AUT_SECS, [G_('kept', 1)], True), short=dict(generator=[0]), mop='quiet',
            xprec=dict(sections=['ROCKS', 'ELEME', 'CONNE', 'RPCAP', 'GENER'], echo=True))
        add('toT-lineq-none', dir='toT', c01=c01shape(AUT_SECS, [G_('com')], True), short=dict(block=[0]), mop='free', lineq_type='none')
        add('toA-solvr-notype', dir='toA', c01=c01shape(T2_SECS, [G_('com')], False), history=hist_obj, mop='quiet', mop21_max=6, solver_type='absent')
        add('toA-solvr-none', dir='toA', c01=c01shape(T2_SECS, [G_('com')], False), history=hist_obj, mop='quiet', mop21_max=6, solver_type='none')
        add('toA-nohistory', dir='toA', c01=c01shape([s for s in T2_SECS if s not in ('FOFT', 'COFT', 'GOFT', 'MULTI')], [G_('lacking')], False),
            history=dict(), mop='quiet', solver_max=6)
        # the converted model survives the file round trip (C01's comparison), one cell of the option tree per shape
        small_a = ['SIMUL', 'ROCKS', 'PARAM', 'LINEQ', 'MULTI', 'ELEME', 'CONNE', 'GENER', 'SHORT']
        small_t = ['ROCKS', 'PARAM', 'SOLVR', 'MULTI', 'ELEME', 'CONNE', 'GENER', 'FOFT', 'COFT', 'GOFT']
        add('toT-roundtrip-a', dir='toT', roundtrip=True, porosity=0.25, c01=c01shape(small_a, [G_('com', 1)], True, nblocks=2, nrock=1),
            short=dict(block=[0], connection=[0], frequency=True), mop={'10': True, '12': False, '22': True, '23': False, '24': False})
        add('toT-roundtrip-b', dir='toT', roundtrip=True, porosity=0.5, MP=True, c01=c01shape(small_a, [G_('kept')], True, nblocks=2, nrock=1),
            short=dict(generator=[0]), mop={'10': False, '12': True, '22': False, '23': True, '24': True, '14': True, '17': False, '20': True})
        add('toT-roundtrip-xprec', dir='toT', roundtrip=True, porosity=0.25, c01=c01shape(small_a, [G_('com', 1)], True, nblocks=2, nrock=1),
            short=dict(block=[1]), mop={'10': False, '12': False, '22': False, '23': False, '24': False}, xprec=dict(sections=['ROCKS', 'ELEME', 'GENER'], echo=False))
        add('toA-roundtrip-a', dir='toA', roundtrip=True, c01=c01shape(small_t, [G_('com', 1)], False, nblocks=2, nrock=1),
            history=dict(block=[('blk', 1)], connection=[('con', 0)], generator=[]), mop={'12': True, '22': True, '23': False, '24': True}, solver_max=6)
    return S


def run(tier, seed, rep):
    _load()
    cs, xs = conv_shapes(tier), export_shapes(tier)
    import os
    only = [t for t in os.environ.get('C20_ONLY', '').split(',') if t]       # development aid: run the named shapes only
    if only:
        cs = [s for s in cs if s['tag'] in only]; xs = [s for s in xs if s['tag'] in only]
        rep.bounds.append('PARTIAL RUN (C20_ONLY=%s): not evidence for the property' % ','.join(only))
    tasks = [(task_conv, dict(shape=s)) for s in cs] + [(task_export, dict(shape=s)) for s in xs]
    if seed:
        import random
        random.Random(seed).shuffle(tasks)
    rep.add_results(report.run_tasks(tasks))
    rep.bounds += [
        'conversion: %d shapes (%s)' % (len(cs), ', '.join(s['tag'] for s in cs)),
        'conversion models: <= 3 blocks, 2 connections, 2 rock types, <= 4 generators (names duplicated within and across blocks), sections of the shape present, '
        'short output with / without block, connection, generator, frequency entries, history lists holding objects, bare names (resolvable in the grid or not) or both; '
        'LINEQ / SOLVR with a type, without the entry (blank field as read) or with None; ROCKS / ELEME / CONNE / RPCAP / GENER designated for the extra-precision file, echoed or not; MP on / off; '
        'conversion called directly (warn on / off, simulator / eos arguments) and through the type setter',
        'symbolic in every conversion shape: the 24 MOP digits (0..9), LINEQ type (0..99) / SOLVR type (0..9), every numeric field of the model (unconstrained reals / '
        'integers of the field width) including rock porosity and conductivity; generator type strings: 4 cells over [A-Z0-9 .] per generator of class "any" '
        '(the solver decides kept / converted / deleted), classes "lacking" / "kept" / "com" are the same cells under the stated class constraint',
        'shapes tagged mop=quiet keep the digits symbolic inside the region where the conversion rewrites none of them (MOP(12) != 2, MOP(22..24) = 0, MOP(10) != 2; '
        'MP: MOP(14,17,20) = 0): the option tree and the generator tree are explored in separate shapes, not as a product',
        'round trip after conversion (thorough): 4 shapes (one with non-echoed extra-precision sections), one stated cell of the option tree each, porosity concrete (0.25 / 0.5) so that the rescaled conductivity stays linear; '
        'values assumed to fit their fields as in C01',
        'export: %d shapes on RECT(2 x 1 x 2) (dx 100/150, dy 80, dz 10/20) built with the real mulgrid.rectangular + t2grid.fromgeo, atmosphere types 0/1/2, '
        'block orders layer_column / dmplex; symbolic: every block volume (atmosphere blocks: <= 0 or >= atmos_volume), rock properties, connection permeability directions (1..3), '
        'EOS strings (explicit argument of 1..4 cells, MULTI entry of 4 cells, simulator tail of 2..4 cells over [EWCAVTDX2 ]), the isothermal temperature, '
        'generator rates / enthalpies / hg / fg and table rates, the 5 cells of a generator block name over [ abATM0123]; generator types from a catalogue '
        '(MASS HEAT COM1 COM2 DELV DELG DELT DELW DMAK TMAK RECH FINJ PINJ IMAK XINJ FEED)' % len(xs)]
    rep.outside += [
        'json.dumps of the exported dictionary (C boundary): obligations are on the dictionaries the *_json methods return',
        'the numeric content of sources (rates, separators, limiters), the source network topology, timestepping / output / initial / relative permeability entries of the export',
        'normals of boundary faces (only which cells get a boundary face is decided)',
        'geometries other than RECT(2 x 1 x 2); rotated permeability axes; mesh_coords other than xyz',
        'products of the option tree with the generator tree; models with more than 4 generators',
        'MOMOP / SELEC / DIFFU / MESHM sections in converted models (C01 covers their round trip; the conversions do not touch them)',
        'generator type strings with lower-case or punctuation characters other than "."',
        'the wording of the printed warnings']
    rep.assumptions += [
        'in-memory file stub replaces open()/os.path.exists() (round-trip shapes only); printf contract and token-read model of vx/strs.py (round-trip shapes only)',
        'vx/strs.s_in: `symbolic string in dict/set of concrete keys` forks per key and pins the string to the matched key (so that dict[key] works afterwards)',
        'the expected model is computed by the oracle of harness/c20_model.py written from doc/source/t2data.rst and the warning texts; where the documentation leaves a value open '
        '(LINEQ type for solvers other than 4 and 5; MOP(21) 4 or 5 for a LINEQ section without a solver type) every documented alternative is accepted; with MOP(10) = 2 and MOP(23) = 1 '
        'both set the conductivity is rescaled once (the model uses the MULKOM formulation, whichever option says so): obligation to_TOUGH2/conductivity/rescaled-twice',
        'a history request held as a bare name that the grid can resolve (FOFT / COFT / GOFT read before ELEME / CONNE, or set through the API) is a request for that block / connection: '
        'convert_history_to_short documents that only items not present in the grid are discarded',
        'a generator with a rate table and gx None (blank GX field) is an ordinary table generator for the export',
        'the section list is compared after update_sections(), which is the first thing write() does; SIMUL / LINEQ are additionally required to be gone (resp. present) right after the call',
        'a GOFT request is a request for a block (documentation of history_generator); a short-output generator request is mirrored by a request for its block and vice versa',
        'explicit "not supported" / "not detected" / "Unhandled" exceptions of the export are refusals, allowed only for the configurations the export documents as unsupported',
        'boundary block := volume <= 0 or >= atmos_volume (json documentation)']
    rep.process_failures()
    return rep.finish(rule='one obligation per (shape, path, compared leaf of the model / stated post-condition); distinct by (normalised label, z3 AST hash)')
