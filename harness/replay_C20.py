"""Replay for C20: rebuild the same model shape with the concrete values of
the solver's model on the REAL modules (no z3), run the real conversion /
export, and evaluate the same documented expectations with concrete
arithmetic.  Reproduced = the obligation named by the failure key is violated."""
import os, sys, tempfile, shutil
from fractions import Fraction

sys.path.insert(0, os.path.dirname(os.path.dirname(os.path.abspath(__file__))))
from harness.replay_C01 import Provider as P01, Cmp as Cmp01, num
from harness import c20_model as M


class Prov(P01):
    def cells(self, base, n, alphabet):
        out = ''
        for k in range(n):
            v = self.m.get('%s.%d' % (base, k))
            out += chr(int(v)) if v is not None else alphabet[0]
        return out
    def fint(self, name, lo, hi):
        v = self.m.get(name)
        return int(v) if v is not None else lo
    def freal(self, name, lo=None, hi=None):
        v = num(self.m.get(name, 0 if lo is None else lo))
        return float(v)
    def assume(self, cond): self.violated = getattr(self, 'violated', False) or not cond
    def assume_not(self, cond): self.assume(not cond)
    def assume_any(self, conds): self.assume(any(conds))
    def assume_fits(self, v, kind, w, p): pass


class COps(object):
    def ite(self, c, x, y): return x if c else y
    def and_(self, *cs): return all(cs)
    def or_(self, *cs): return any(cs)
    def not_(self, c): return not c
    def truth(self, c): return bool(c)
    def is_num(self, x): return isinstance(x, (int, float)) and not isinstance(x, bool)
    def is_text(self, x): return isinstance(x, str)


def verdict(d, st, extra=''):
    bad = [l for cnd, l in st.items if not cnd]
    want = d.get('key')
    hit = [l for l in bad if want is None or M.norm_key(l) == want]
    if hit: return True, '%d violated (of %d checked); %s%s' % (len(bad), len(st.items), ' ;; '.join(hit[:3]), extra)
    if bad: return False, 'key %r not reproduced; other violations: %s' % (want, ' ;; '.join(bad[:4]))
    return False, 'all %d expectations hold%s' % (len(st.items), extra)


def replay_conv(d):
    import numpy as np
    import t2data as T, t2grids as G
    shape = d['shape']
    spec, xspec = T.t2data_format_specification, T.t2data_extra_precision_format_specification
    ref, _ = M.build_conv(Prov(d['model'], spec, xspec), T, G, np, shape)
    p2 = Prov(d['model'], spec, xspec)
    dat, info = M.build_conv(p2, T, G, np, shape)
    if getattr(p2, 'violated', False): return False, 'the replayed values do not satisfy the stated assumptions of the shape'
    orig = list(dat.generatorlist)
    desc = ' | input: simulator=%r MOP=%s lineq=%r solver=%r generator types=%r porosity/conductivity=%r short=%r history=%r' % (
        dat.simulator, ''.join(str(int(m)) for m in list(dat.parameter['option'])[1:]), dat.lineq.get('type'), dat.solver.get('type'),
        [g.type for g in dat.generatorlist], [(rt.porosity, rt.conductivity) for rt in dat.grid.rocktypelist],
        dict((k, [repr(x) for x in v] if isinstance(v, list) else v) for k, v in dat.short_output.items()),
        [[repr(x) for x in l] for l in (dat.history_block, dat.history_connection, dat.history_generator)])
    err = M.run_conversion(T, dat, shape)
    st = M.Sink()
    M.check_conversion(COps(), T, G, np, ref, dat, shape, err, st, orig)
    if shape.get('roundtrip') and err is None:
        from harness.c01_model import FORMATS, compare
        tag = 'to_TOUGH2' if shape['dir'] == 'toT' else 'to_AUTOUGH2'
        tmp = tempfile.mkdtemp(); cwd = os.getcwd(); os.chdir(tmp)
        cmp = Cmp01(FORMATS)
        try:
            tgt = dict(shape['c01']); tgt['autough2'] = (shape['dir'] == 'toA')
            dat.write('conv.dat')
            dat2 = T.t2data('conv.dat')
            compare(cmp, dat, dat2, tgt, where=tag + '/roundtrip/')
        except Exception as ex:
            cmp.problems.append('%s/roundtrip/exception/%s: %s' % (tag, type(ex).__name__, ex))
        finally:
            os.chdir(cwd); shutil.rmtree(tmp, ignore_errors=True)
        w2 = tag + '/roundtrip/'
        stale = any(type(x).__name__ == 't2generator' for x in dat.history_generator)
        for l in cmp.problems:
            l = l.replace(w2 + w2, w2)
            if stale and l.startswith(w2 + 'history_generator'): l = tag + '/model.history_generator[0]: (round trip) ' + l
            st.ob(False, l)
    return verdict(d, st, desc)


def replay_export(d):
    import numpy as np
    import mulgrids as MG, t2data as T, t2grids as G
    shape = d['shape']
    spec, xspec = T.t2data_format_specification, T.t2data_extra_precision_format_specification
    ref, refgeo = M.build_export(Prov(d['model'], spec, xspec), MG, T, G, np, shape)
    p2 = Prov(d['model'], spec, xspec)
    dat, geo = M.build_export(p2, MG, T, G, np, shape)
    if getattr(p2, 'violated', False): return False, 'the replayed values do not satisfy the stated assumptions of the shape'
    desc = ' | input: volumes=%r eos arg=%r multi eos=%r simulator=%r generators=%r' % (
        [(b.name, b.volume) for b in dat.grid.blocklist], dat._c20_eos_arg, dat.multi.get('eos'), dat.simulator,
        [(g.block, g.name, g.type, g.gx, g.ex, g.hg, g.fg) for g in dat.generatorlist])
    res = M.run_export(T, dat, geo, shape)
    st = M.Sink()
    M.check_export(COps(), MG, T, G, np, ref, refgeo, dat, geo, shape, res, st)
    return verdict(d, st, desc + ' | results: %s' % dict((k, (v[0], (M.exc_text(v[1]) if v[0] == 'raised' else repr(v[1]))[:150])) for k, v in res.items()))


def replay(d):
    kind = d['shape'].get('kind', 'conv')
    if kind == 'conv': return replay_conv(d)
    return replay_export(d)
