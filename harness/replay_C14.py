"""Replay for C14 on the real IAPWS97 module (floats, no z3).

Independent concrete oracles: tsat(sat(t)) evaluated directly; the
thermodynamic identity by finite differences of the real functions
(regions 1, 2:  du/dp|T = -T dv/dT|p - p dv/dp|T ;  region 3:
du/drho|T = (p - T dp/dT|rho) / rho^2); the published IAPWS-IF97 verification
states for the defining relations; closure-of-domain test for region()."""
from fractions import Fraction


def num(x):
    if isinstance(x, dict) and 'frac' in x:
        return float(Fraction(int(x['frac'][0]), int(x['frac'][1])))
    return x


def D(f, x, h):
    """five-point central difference, O(h^4)."""
    return (-f(x + 2 * h) + 8 * f(x + h) - 8 * f(x - h) + f(x - 2 * h)) / (12 * h)


def fd_residual(I, region, a1, a2):
    if region in (1, 2):
        f = I.cowat if region == 1 else I.supst
        t, p = a1, a2
        T = t + 273.15
        v = lambda t_, p_: 1.0 / f(t_, p_)[0]
        u = lambda t_, p_: f(t_, p_)[1]
        hp, ht = 2e-3 * p, 0.25
        lhs = D(lambda q: u(t, q), p, hp)
        rhs = -T * D(lambda s: v(s, p), t, ht) - p * D(lambda q: v(t, q), p, hp)
    else:
        d, t = a1, a2
        T = t + 273.15
        P = lambda d_, t_: I.super(d_, t_)[0]
        U = lambda d_, t_: I.super(d_, t_)[1]
        hd, ht = 2e-3 * d, 0.25
        lhs = D(lambda q: U(q, t), d, hd)
        rhs = (P(d, t) - T * D(lambda s: P(d, s), t, ht)) / (d * d)
    scale = max(abs(lhs), abs(rhs), 1e-300)
    return abs(lhs - rhs) / scale, lhs, rhs


# IAPWS-IF97 release, tables 5, 15, 33: (T [K], p [MPa] or rho) -> (v or p, u [kJ/kg])
PUBLISHED = {
    1: [((300.0, 3.0), (0.100215168e-2, 0.112324818e3)), ((300.0, 80.0), (0.971180894e-3, 0.106448356e3)),
        ((500.0, 3.0), (0.120241800e-2, 0.971934985e3))],
    2: [((300.0, 0.0035), (0.394913866e2, 0.241169160e4)), ((700.0, 0.0035), (0.923015898e2, 0.301262819e4)),
        ((700.0, 30.0), (0.542946619e-2, 0.246861076e4))],
    3: [((650.0, 500.0), (0.255837018e2, 0.181226279e4)), ((650.0, 200.0), (0.222930643e2, 0.226365868e4)),
        ((750.0, 500.0), (0.783095639e2, 0.210206932e4))],
}


def published_mismatch(I, region):
    worst = 0.0
    for (T, x), (q1, q2) in PUBLISHED[region]:
        t = T - 273.15
        if region == 1: d, u = I.cowat(t, x * 1e6); got = (1.0 / d, u / 1e3)
        elif region == 2: d, u = I.supst(t, x * 1e6); got = (1.0 / d, u / 1e3)
        else: p, u = I.super(x, t); got = (p / 1e6, u / 1e3)
        for g, q in zip(got, (q1, q2)):
            worst = max(worst, abs(g - q) / abs(q))
    return worst


def replay(d):
    import IAPWS97 as I
    kind = d['kind']
    if kind == 'sat_tsat':
        t = num(d['t'])
        try:
            p = I.sat(t)
        except Exception as ex:
            return True, 'sat(%r) raises %s: %s' % (t, type(ex).__name__, ex)
        if p is None:
            return True, 'sat(%r) is None inside [0.01, tcritical]' % t
        try:
            t2 = I.tsat(p)
        except Exception as ex:
            return True, 'tsat(sat(%r)) raises %s: %s' % (t, type(ex).__name__, ex)
        if t2 is None:
            return True, 'tsat(sat(%r)) is None: sat = %r Pa is outside tsat\'s range test (pcritical = %r)' % (t, float(p), I.pcritical)
        if not abs(t2 - t) <= 0.9e-6:
            return True, 'tsat(sat(%r)) = %r differs by %g K' % (t, float(t2), abs(t2 - t))
        return False, 'tsat(sat(%r)) = %r (difference %g K)' % (t, float(t2), abs(t2 - t))
    if kind == 'tsat_raises':
        p = num(d['p'])
        try:
            t = I.tsat(p)
        except Exception as ex:
            return True, 'tsat(%r) raises %s: %s' % (p, type(ex).__name__, ex)
        if t is None or not (-1.0 <= t <= 400.0):
            return True, 'tsat(%r) = %r inside its operating range (exact arithmetic divides by zero here)' % (p, t)
        return False, 'tsat(%r) = %r' % (p, t)
    if kind == 'b23':
        x = num(d['x'])
        try:
            if d['direction'] == 't':
                y = I.b23t(I.b23p(x)); tol = 0.9e-6
            else:
                y = I.b23p(I.b23t(x)); tol = 0.9e-3
        except Exception as ex:
            return True, 'raises %s: %s at %r' % (type(ex).__name__, ex, x)
        if not abs(y - x) <= tol:
            return True, 'round trip of %r gives %r (difference %g)' % (x, float(y), abs(y - x))
        return False, 'round trip of %r gives %r' % (x, float(y))
    if kind == 'potential':
        region = int(d['region'])
        a1, a2 = float(num(d['a1'])), float(num(d['a2']))
        try:
            rel, lhs, rhs = fd_residual(I, region, a1, a2)
        except Exception as ex:
            return True, 'raises %s: %s' % (type(ex).__name__, ex)
        if rel > 1e-5:
            return True, 'region %d at (%r, %r): finite-difference thermodynamic identity violated: %r vs %r (relative %g)' % (region, a1, a2, lhs, rhs, rel)
        if d.get('tie'):
            w = published_mismatch(I, region)
            if w > 2e-8:
                return True, 'region %d: published IAPWS-IF97 verification values missed by relative %g (defining relation %s)' % (region, w, d['tie'])
            return False, 'identity holds (relative %g) and published values reproduced (%g)' % (rel, w)
        return False, 'identity holds at (%r, %r): relative residual %g' % (a1, a2, rel)
    if kind == 'region-eq':
        t, p = float(num(d['t'])), float(num(d['p']))
        r = I.region(t, p)
        if r not in (1, 2): return False, 'region(%r, %r) = %r' % (t, p, r)
        fn = I.cowat if r == 1 else I.supst
        out = fn(t, p)
        return (out is None, 'region(%r, %r) = %d and %s(t, p) = %r' % (t, p, r, fn.__name__, out))
    if kind == 'region':
        t, p = float(num(d['t'])), float(num(d['p']))
        try:
            r = I.region(t, p)
        except Exception as ex:
            return True, 'region(%r, %r) raises %s: %s' % (t, p, type(ex).__name__, ex)
        inbox = (0.01 <= t <= 800.0) and (0.0 <= p <= 100.0e6)
        if r is None:
            return (inbox, 'region(%r, %r) is None, state %s the stated range' % (t, p, 'inside' if inbox else 'outside'))
        if not inbox:
            return True, 'region(%r, %r) = %r outside the stated range' % (t, p, r)
        if r == 1: ok = t <= 350.0 and p >= I.sat(t)
        elif r == 2: ok = (t <= 350.0 and p <= I.sat(t)) or (350.0 <= t <= 590.0 and p <= I.b23p(t)) or t >= 590.0
        elif r == 3: ok = 350.0 <= t <= 590.0 and p >= I.b23p(t)
        else: ok = False
        return (not ok, 'region(%r, %r) = %r; sat=%r b23p=%r' % (t, p, r, I.sat(t) if 0 <= t <= I.tcritical else None, I.b23p(t)))
    if kind == 'visc':
        dd, t = float(num(d['d'])), float(num(d['t']))
        try:
            mu = I.visc(dd, t)
        except Exception as ex:
            return True, 'visc(%r, %r) raises %s: %s' % (dd, t, type(ex).__name__, ex)
        return (not mu > 0, 'visc(%r, %r) = %r' % (dd, t, mu))
    return False, 'unknown replay kind %r' % kind
