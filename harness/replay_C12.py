"""Replay for C12 on the REAL modules (no z3): rebuild the catalogue geometry
with the real mulgrids (same builder as the harness), run the real search at
the counterexample point and compare with an exact winding-number oracle."""
import os
import sys
from fractions import Fraction

sys.path.insert(0, os.path.dirname(os.path.abspath(__file__)))
import c12_geos as G


def num(x):
    if isinstance(x, dict) and 'frac' in x:
        return Fraction(int(x['frac'][0]), int(x['frac'][1]))
    return Fraction(x)


def _subset(tag, n):
    return {'even': [i for i in range(n) if i % 2 == 0], 'odd': [i for i in range(n) if i % 2 == 1],
            'firsthalf': list(range((n + 1) // 2)), 'lasthalf': list(range(n // 2, n)), 'all': list(range(n))}[tag]


def _variant_kwargs(geo, variant):
    """aids built from the geometry object as it is NOW; allowed = indices of the columns the call may return."""
    cols = geo.columnlist
    n = len(cols)
    kw, subset, sq, whole_q, guess = {}, None, None, False, None
    for part in variant.split('+'):
        if part == 'plain': pass
        elif part == 'qtree': kw['qtree'] = geo.column_quadtree(); whole_q = True
        elif part.startswith('sqtree:'):
            sq = _subset(part[7:], n)
            kw['qtree'] = geo.column_quadtree([cols[i] for i in sq])
        elif part == 'brect': kw['bounds'] = geo.bounds
        elif part == 'bpoly': kw['bounds'] = geo.boundary_polygon
        elif part == 'bnodes': kw['bounds'] = [nd.pos for nd in geo.boundary_nodes]
        elif part.startswith('guess'):
            guess = int(part[5:]) % n
            kw['guess'] = cols[guess]
        elif part.startswith('cols:'):
            subset = _subset(part[5:], n)
            kw['columns'] = [cols[i] for i in subset]
    base = set(subset) if subset is not None else None
    if whole_q: allowed = None
    elif sq is not None: allowed = set(sq)
    else: allowed = base
    if allowed is not None and guess is not None:
        nb = set(cols.index(c) for c in cols[guess].neighbour)
        allowed = set(allowed) | set([guess]) | (nb if base is None else (nb & base))
    return kw, allowed


def _hits(spec, x, y):
    """indices of the columns of `spec` that contain the float point (exact winding oracle); None if on an edge."""
    hits = []
    for i, (name, nodenames, centre, surface) in enumerate(spec['columns']):
        w = G.winding_contains(G.polygon_of(spec, name), Fraction(x), Fraction(y))
        if w is None: return None
        if w: hits.append(i)
    return hits


def _expected_block(spec, k, z):
    """name of the block of column index k containing elevation z (None: none; False: z on a block boundary)."""
    lay = spec['layers']
    surf = spec['columns'][k][3]
    if surf is None: surf = lay[0][1]
    exp = None
    for li in range(1, len(lay)):
        bottom, top = lay[li][1], lay[li - 1][1]
        if surf > bottom:
            hi = surf if (surf < top or (li == 1 and surf > top)) else top
            if z == bottom or z == hi: return False
            if bottom < z < hi: exp = spec['columns'][k][0][0:3] + lay[li][0][0:2]
    return exp


def _replay_history(d, mg):
    """query -> operations -> query on ONE object built with the real modules; the oracle for each query is the exact
    winding test on the node positions the object has at that moment (read from the object, not from any cache)."""
    import numpy as np
    spec = G.make_spec(mg, d['geo'], d.get('ncols'))
    geo = G.build(mg, spec)
    ops = [tuple(op) for op in d['ops']]
    x1, y1 = float(num(d['point1']['x'])), float(num(d['point1']['y']))
    x, y = float(num(d['point']['x'])), float(num(d['point']['y']))
    h1 = _hits(spec, x1, y1)
    if h1 is None or len(h1) > 1: return False, 'first point on an edge / in several columns: outside the quantifier'
    kw1, allowed1 = _variant_kwargs(geo, d['first'])
    r1 = geo.column_containing_point(np.array([x1, y1]), **kw1)
    exp1 = h1[0] if h1 else None
    if exp1 is not None and allowed1 is not None and exp1 not in allowed1: exp1 = None
    exp1 = None if exp1 is None else spec['columns'][exp1][0]
    got1 = None if r1 is None else r1.name
    head = '%s: first query %s at (%r, %r) -> %r (oracle %r)' % (d['geo'], d['first'], x1, y1, got1, exp1)
    if got1 != exp1: return True, head
    G.apply_ops(mg, geo, ops)
    specB = G._dump(geo)                      # node positions / layers / surfaces of the object as it is now
    h2 = _hits(specB, x, y)
    if h2 is None or len(h2) > 1: return False, 'second point on an edge / in several columns: outside the quantifier'
    head += '; then %r on the same object' % (d['ops'],)
    if d['second'] == 'block':
        z = float(num(d['point']['z']))
        r = geo.block_name_containing_point(np.array([x, y, z]))
        exp = _expected_block(specB, h2[0], z) if h2 else None
        if exp is False: return False, 'replay elevation lies exactly on a block boundary: outside the quantifier'
        return r != exp, head + '; block_name_containing_point(%r, %r, %r) -> %r, independent oracle says %r' % (x, y, z, r, exp)
    kw2, allowed2 = _variant_kwargs(geo, d['second'])
    r = geo.column_containing_point(np.array([x, y]), **kw2)
    exp = h2[0] if h2 else None
    if exp is not None and allowed2 is not None and exp not in allowed2: exp = None
    exp = None if exp is None else specB['columns'][exp][0]
    got = None if r is None else r.name
    # the same query on a fresh, never-queried object with the same history of operations (for the message only)
    fresh = G.apply_ops(mg, G.build(mg, spec), ops)
    kwf, _ = _variant_kwargs(fresh, d['second'])
    rf = fresh.column_containing_point(np.array([x, y]), **kwf)
    return got != exp, head + '; second query %s at (%r, %r) -> %r, exact oracle says %r (never-queried object: %r)' % (
        d['second'], x, y, got, exp, None if rf is None else rf.name)


def replay(d):
    """The real search iterates over SETS of column objects (guess.neighbour, donecols), whose
    order depends on the objects' addresses; a defect whose effect depends on that order shows
    in some memory layouts only.  The replay therefore repeats the concrete run in a few
    layouts (dummy allocations before the geometry is built) and reports a violation if ANY
    of them shows it - each is a run of the real code on the same input."""
    last = None
    keep = []
    for pad in (0, 1, 2, 3, 5, 7, 11, 13):
        keep.append([object() for _ in range(pad * 41)])
        last = _replay_once(d)
        if last[0]:
            return last if pad == 0 else (True, last[1] + ' [memory layout %d]' % pad)
    return last


def _replay_once(d):
    import numpy as np
    import mulgrids as mg
    if d['fn'] == 'history':
        return _replay_history(d, mg)
    spec = G.make_spec(mg, d['geo'], d.get('ncols'))
    geo = G.build(mg, spec)
    if d['fn'] == 'track':
        return _replay_track(d, mg, geo, spec)
    if d['fn'] == 'otrack':
        return _replay_otrack(d, mg, geo, spec)
    fx, fy = num(d['point']['x']), num(d['point']['y'])
    x, y = float(fx), float(fy)
    # exact oracle at the float point actually passed to the code
    hits = []
    for i, (name, nodenames, centre, surface) in enumerate(spec['columns']):
        w = G.winding_contains(G.polygon_of(spec, name), Fraction(x), Fraction(y))
        if w is None:
            return False, 'replay point (%r, %r) lies exactly on an edge of column %r: outside the quantifier' % (x, y, name)
        if w: hits.append(i)
    if len(hits) > 1:
        return False, 'oracle: point in %d columns - geometry overlap, not a code defect' % len(hits)
    if d['fn'] in ('column', 'compare'):
        kw, allowed = _variant_kwargs(geo, d['variant'])
        r = geo.column_containing_point(np.array([x, y]), **kw)
        exp = hits[0] if hits else None
        if exp is not None and allowed is not None and exp not in allowed: exp = None
        expname = None if exp is None else spec['columns'][exp][0]
        gotname = None if r is None else r.name
        msg = '%s %s at (%r, %r): real code returns %r, exact oracle says %r' % (d['geo'], d['variant'], x, y, gotname, expname)
        if d['fn'] == 'compare':
            # the claim that failed: this aid and the unaided search return the same column
            r0 = geo.column_containing_point(np.array([x, y]))
            name0 = None if r0 is None else r0.name
            if name0 is not None and allowed is not None and geo.columnlist.index(r0) not in allowed: name0 = None
            msg += '; unaided search returns %r' % (None if r0 is None else r0.name)
            return gotname != name0 or gotname != expname, msg
        return gotname != expname, msg
    if d['fn'] == 'block':
        z = float(num(d['point']['z']))
        qt = geo.column_quadtree() if d.get('qtree') else None
        r = geo.block_name_containing_point(np.array([x, y, z]), qtree=qt)
        exp = None
        if hits:
            k = hits[0]
            lay = spec['layers']
            surf = spec['columns'][k][3]
            if surf is None: surf = lay[0][1]
            for li in range(1, len(lay)):
                bottom, top = lay[li][1], lay[li - 1][1]
                if surf > bottom:
                    hi = surf if (surf < top or (li == 1 and surf > top)) else top
                    if z == bottom or z == hi:
                        return False, 'replay elevation lies exactly on a block boundary: outside the quantifier'
                    if bottom < z < hi:
                        exp = spec['columns'][k][0][0:3] + lay[li][0][0:2]
        msg = '%s at (%r, %r, %r): real block_name_containing_point returns %r, independent oracle says %r' % (d['geo'], x, y, z, r, exp)
        return r != exp, msg
    if d['fn'] == 'track':
        return _replay_track(d, mg, geo, spec)
    return False, 'unknown replay kind %r' % d.get('fn')


def _replay_track(d, mg, geo, spec):
    """axis-parallel line on a tiny rectangular grid: exact interval oracle."""
    import numpy as np
    o, s0, e0 = float(num(d['line']['o'])), float(num(d['line']['s'])), float(num(d['line']['e']))
    ax = 0 if d['orient'] == 'h' else 1
    ox = 1 - ax
    p0, p1 = [0.0, 0.0], [0.0, 0.0]
    p0[ax], p0[ox], p1[ax], p1[ox] = s0, o, e0, o
    try:
        track = geo.column_track([np.array(p0), np.array(p1)])
    except Exception as ex:
        return True, 'column_track raised %s: %s' % (type(ex).__name__, ex)
    O, S, E = Fraction(o), Fraction(s0), Fraction(e0)
    lo_, hi_ = min(S, E), max(S, E)
    bad = []
    names = [c[0] for c in spec['columns']]
    lens, rects = {}, {}
    for name in names:
        P = [(Fraction(x), Fraction(y)) for x, y in G.polygon_of(spec, name)]
        lo = (min(p[0] for p in P), min(p[1] for p in P)); hi = (max(p[0] for p in P), max(p[1] for p in P))
        if O in (lo[ox], hi[ox]): return False, 'line runs along a column edge: outside the quantifier'
        ov = min(hi[ax], hi_) - max(lo[ax], lo_)
        lens[name] = ov if (lo[ox] < O < hi[ox] and ov > 0) else Fraction(0)
        rects[name] = (lo, hi, max(hi[0] - lo[0], hi[1] - lo[1]) * Fraction(1e-3))
    listed = [t[0].name for t in track]
    eps = Fraction(1, 10 ** 9)
    for (col, pin, pout) in track:
        lo, hi, tol = rects[col.name]
        ent = max(lo[ax], S) if S <= E else min(hi[ax], S)
        ext = min(hi[ax], E) if S <= E else max(lo[ax], E)
        if lens[col.name] <= 0: bad.append('%r listed but not crossed' % col.name)
        elif abs(Fraction(float(pin[ax])) - ent) > eps or abs(Fraction(float(pout[ax])) - ext) > eps or \
                abs(Fraction(float(pin[ox])) - O) > eps or abs(Fraction(float(pout[ox])) - O) > eps:
            bad.append('%r entry/exit %r %r, expected %s %s' % (col.name, list(pin), list(pout), float(ent), float(ext)))
    for name in names:
        if name not in listed and lens[name] > rects[name][2] * (1 + eps): bad.append('%r crossed over %s but missing' % (name, float(lens[name])))
    dist = [abs(Fraction(float(t[1][ax])) - S) for t in track]
    if any(dist[i] > dist[i + 1] + eps for i in range(len(dist) - 1)): bad.append('not ordered along the line')
    if len(set(listed)) != len(listed): bad.append('column listed twice')
    msg = '%s %s line %r -> %r: track %r' % (d['geo'], d['orient'], p0, p1, [(t[0].name, list(map(float, t[1])), list(map(float, t[2]))) for t in track])
    return bool(bad), msg + ('; ' + '; '.join(bad[:4]) if bad else '; oracle agrees')


def _inside_intervals(P, p0, p1):
    """Exact parts [t0, t1] (t in [0, 1] along p0 -> p1) of the segment that lie inside polygon P (any simple polygon):
    cut the segment at every crossing with an edge line segment and test the mid-point of each part with the winding oracle."""
    ts = {Fraction(0), Fraction(1)}
    dx, dy = p1[0] - p0[0], p1[1] - p0[1]
    n = len(P)
    for i in range(n):
        (ax, ay), (bx, by) = P[i], P[(i + 1) % n]
        ex, ey = bx - ax, by - ay
        det = dx * ey - dy * ex
        if det == 0: continue
        t = ((ax - p0[0]) * ey - (ay - p0[1]) * ex) / det
        s = ((ax - p0[0]) * dy - (ay - p0[1]) * dx) / det
        if 0 <= s <= 1 and 0 < t < 1: ts.add(t)
    ts = sorted(ts)
    parts = []
    for a, b in zip(ts[:-1], ts[1:]):
        m = (a + b) / 2
        if G.winding_contains(P, p0[0] + m * dx, p0[1] + m * dy):
            if parts and parts[-1][1] == a: parts[-1][1] = b
            else: parts.append([a, b])
    return parts


def _replay_otrack(d, mg, geo, spec):
    """oblique line with the counterexample's offset: real column_track against an exact oracle (Fractions): every listed
    segment must be one of the parts of the line inside that column, in order along the line, and every part longer than
    1e-3 of the column's longest side must be listed."""
    import numpy as np, math
    dx, dy = [Fraction(v) for v in d['D']]
    A = [Fraction(v) for v in d['A']]; L = Fraction(d['L']); o = num(d['o'])
    p0 = [float(A[0] - o * dy), float(A[1] + o * dx)]
    p1 = [float(A[0] - o * dy + L * dx), float(A[1] + o * dx + L * dy)]
    try:
        track = geo.column_track([np.array(p0), np.array(p1)])
    except Exception as ex:
        return True, 'column_track raised %s: %s' % (type(ex).__name__, ex)
    q0 = (Fraction(p0[0]), Fraction(p0[1])); q1 = (Fraction(p1[0]), Fraction(p1[1]))
    vx, vy = q1[0] - q0[0], q1[1] - q0[1]
    vv = vx * vx + vy * vy
    length = Fraction(math.sqrt(float(vv)))
    names = [c[0] for c in spec['columns']]
    parts, tol, notch = {}, {}, {}
    minside = None
    for name in names:
        P = [(Fraction(x), Fraction(y)) for x, y in G.polygon_of(spec, name)]
        parts[name] = _inside_intervals(P, q0, q1)
        sl = [math.sqrt(float((P[i][0] - P[(i + 1) % len(P)][0]) ** 2 + (P[i][1] - P[(i + 1) % len(P)][1]) ** 2)) for i in range(len(P))]
        tol[name] = Fraction(max(sl)) * Fraction(1e-3) * (1 + Fraction(1, 10 ** 9))
        minside = min(sl) if minside is None else min(minside, min(sl))
        # non-convex column: a segment may span a notch clip shorter than 1e-3 of the column's diameter
        n = len(P)
        a2 = sum(P[i][0] * P[(i + 1) % n][1] - P[(i + 1) % n][0] * P[i][1] for i in range(n))
        Q = P if a2 > 0 else P[::-1]
        convex = all((Q[(i + 1) % n][0] - Q[i][0]) * (Q[(i + 2) % n][1] - Q[i][1]) - (Q[(i + 1) % n][1] - Q[i][1]) * (Q[(i + 2) % n][0] - Q[i][0]) >= 0 for i in range(n))
        diam = math.sqrt(float(max((a[0] - b[0]) ** 2 + (a[1] - b[1]) ** 2 for a in P for b in P)))
        notch[name] = Fraction(0) if convex else Fraction(diam) * Fraction(1e-3) * (1 + Fraction(1, 10 ** 9))
    eps = (Fraction(minside) / 10 ** 6 + length / 10 ** 8) * 2
    def tpar(p):
        w = (Fraction(float(p[0])) - q0[0], Fraction(float(p[1])) - q0[1])
        return (w[0] * vx + w[1] * vy) / vv, abs(w[0] * vy - w[1] * vx) / length
    bad = []
    used = set()
    last_in = None
    seen = []
    for (col, pin, pout) in track:
        (tin, win), (tout, wout) = tpar(pin), tpar(pout)
        if win > eps or wout > eps: bad.append('%r: entry/exit off the line by %.3g / %.3g' % (col.name, float(win), float(wout)))
        hit = None
        pl = parts.get(col.name, [])
        for i in range(len(pl)):
            for j in range(i, len(pl)):
                if abs(tin - pl[i][0]) * length <= eps and abs(tout - pl[j][1]) * length <= eps and \
                        all((pl[m + 1][0] - pl[m][1]) * length <= notch[col.name] for m in range(i, j)):
                    hit = tuple(range(i, j + 1))
        if hit is None:
            bad.append('%r listed from %.6g to %.6g of the line, but the parts of the line inside it are %r' % (
                col.name, float(tin * length), float(tout * length), [(float(a * length), float(b * length)) for a, b in parts.get(col.name, [])]))
        elif any((col.name, m) in used for m in hit): bad.append('%r listed twice for the same part' % col.name)
        else: used.update((col.name, m) for m in hit)
        if last_in is not None and tin < last_in: bad.append('segment of %r out of order' % col.name)
        for (pn, pa, pb) in seen:
            if (min(tout, pb) - max(tin, pa)) * length > eps + notch.get(col.name, 0) + notch.get(pn, 0):
                bad.append('segments of %r and %r overlap over a length of %.6g' % (pn, col.name, float((min(tout, pb) - max(tin, pa)) * length)))
        seen.append((col.name, tin, tout))
        last_in = tin
    for name in names:
        for j, (a, b) in enumerate(parts[name]):
            if (name, j) not in used and (b - a) * length > tol[name] + eps:
                bad.append('%r is crossed over a length of %.6g (%.3g of its longest side) but that part is missing from the track' % (
                    name, float((b - a) * length), float((b - a) * length / (tol[name] * 1000))))
    msg = '%s line %r -> %r: track %r' % (d['geo'], p0, p1, [(t[0].name, [float(v) for v in t[1]], [float(v) for v in t[2]]) for t in track])
    return bool(bad), msg + ('; ' + '; '.join(bad[:4]) if bad else '; oracle agrees')
