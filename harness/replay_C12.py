"""Replay for C12 on the REAL modules (no z3): rebuild the catalogue geometry
with the real mulgrids (same builder as the harness), run the real search at
the counterexample point and compare with an exact winding-number oracle."""
import os
import sys
from fractions import Fraction

sys.path.insert(0, os.path.dirname(os.path.abspath(__file__)))
import c12_geos as G


def num(x):
    if isinstance(x, dict) and 'frac' in x:
        return Fraction(int(x['frac'][0]), int(x['frac'][1]))
    return Fraction(x)


def _variant_kwargs(geo, variant):
    cols = geo.columnlist
    kw, allowed, guess = {}, None, None
    for part in variant.split('+'):
        if part == 'plain': pass
        elif part == 'qtree': kw['qtree'] = geo.column_quadtree()
        elif part == 'brect': kw['bounds'] = geo.bounds
        elif part == 'bpoly': kw['bounds'] = geo.boundary_polygon
        elif part.startswith('guess'):
            guess = int(part[5:]) % len(cols)
            kw['guess'] = cols[guess]
        elif part.startswith('cols:'):
            tag = part[5:]
            n = len(cols)
            idx = {'even': [i for i in range(n) if i % 2 == 0], 'odd': [i for i in range(n) if i % 2 == 1],
                   'firsthalf': list(range((n + 1) // 2)), 'lasthalf': list(range(n // 2, n)), 'all': list(range(n))}[tag]
            kw['columns'] = [cols[i] for i in idx]
            allowed = set(idx)
    if 'qtree' in kw: allowed = None
    if allowed is not None and guess is not None: allowed.add(guess)
    return kw, allowed


def replay(d):
    import numpy as np
    import mulgrids as mg
    spec = G.make_spec(mg, d['geo'], d.get('ncols'))
    geo = G.build(mg, spec)
    fx, fy = num(d['point']['x']), num(d['point']['y'])
    x, y = float(fx), float(fy)
    # exact oracle at the float point actually passed to the code
    hits = []
    for i, (name, nodenames, centre, surface) in enumerate(spec['columns']):
        w = G.winding_contains(G.polygon_of(spec, name), Fraction(x), Fraction(y))
        if w is None:
            return False, 'replay point (%r, %r) lies exactly on an edge of column %r: outside the quantifier' % (x, y, name)
        if w: hits.append(i)
    if len(hits) > 1:
        return False, 'oracle: point in %d columns - geometry overlap, not a code defect' % len(hits)
    if d['fn'] in ('column', 'compare'):
        kw, allowed = _variant_kwargs(geo, d['variant'])
        r = geo.column_containing_point(np.array([x, y]), **kw)
        exp = hits[0] if hits else None
        if exp is not None and allowed is not None and exp not in allowed: exp = None
        expname = None if exp is None else spec['columns'][exp][0]
        gotname = None if r is None else r.name
        msg = '%s %s at (%r, %r): real code returns %r, exact oracle says %r' % (d['geo'], d['variant'], x, y, gotname, expname)
        return gotname != expname, msg
    if d['fn'] == 'block':
        z = float(num(d['point']['z']))
        qt = geo.column_quadtree() if d.get('qtree') else None
        r = geo.block_name_containing_point(np.array([x, y, z]), qtree=qt)
        exp = None
        if hits:
            k = hits[0]
            lay = spec['layers']
            surf = spec['columns'][k][3]
            if surf is None: surf = lay[0][1]
            for li in range(1, len(lay)):
                bottom, top = lay[li][1], lay[li - 1][1]
                if surf > bottom:
                    hi = surf if (surf < top or (li == 1 and surf > top)) else top
                    if z == bottom or z == hi:
                        return False, 'replay elevation lies exactly on a block boundary: outside the quantifier'
                    if bottom < z < hi:
                        exp = spec['columns'][k][0][0:3] + lay[li][0][0:2]
        msg = '%s at (%r, %r, %r): real block_name_containing_point returns %r, independent oracle says %r' % (d['geo'], x, y, z, r, exp)
        return r != exp, msg
    if d['fn'] == 'track':
        return _replay_track(d, mg, geo, spec)
    return False, 'unknown replay kind %r' % d.get('fn')


def _replay_track(d, mg, geo, spec):
    return False, 'track replay not implemented'
