"""Replay for C12 on the REAL modules (no z3): rebuild the catalogue geometry
with the real mulgrids (same builder as the harness), run the real search at
the counterexample point and compare with an exact winding-number oracle."""
import os
import sys
from fractions import Fraction

sys.path.insert(0, os.path.dirname(os.path.abspath(__file__)))
import c12_geos as G


def num(x):
    if isinstance(x, dict) and 'frac' in x:
        return Fraction(int(x['frac'][0]), int(x['frac'][1]))
    return Fraction(x)


def _variant_kwargs(geo, variant):
    cols = geo.columnlist
    kw, allowed, guess = {}, None, None
    for part in variant.split('+'):
        if part == 'plain': pass
        elif part == 'qtree': kw['qtree'] = geo.column_quadtree()
        elif part == 'brect': kw['bounds'] = geo.bounds
        elif part == 'bpoly': kw['bounds'] = geo.boundary_polygon
        elif part == 'bnodes': kw['bounds'] = [n.pos for n in geo.boundary_nodes]
        elif part.startswith('guess'):
            guess = int(part[5:]) % len(cols)
            kw['guess'] = cols[guess]
        elif part.startswith('cols:'):
            tag = part[5:]
            n = len(cols)
            idx = {'even': [i for i in range(n) if i % 2 == 0], 'odd': [i for i in range(n) if i % 2 == 1],
                   'firsthalf': list(range((n + 1) // 2)), 'lasthalf': list(range(n // 2, n)), 'all': list(range(n))}[tag]
            kw['columns'] = [cols[i] for i in idx]
            allowed = set(idx)
    if 'qtree' in kw: allowed = None
    if allowed is not None and guess is not None: allowed.add(guess)
    return kw, allowed


def replay(d):
    import numpy as np
    import mulgrids as mg
    spec = G.make_spec(mg, d['geo'], d.get('ncols'))
    geo = G.build(mg, spec)
    if d['fn'] == 'track':
        return _replay_track(d, mg, geo, spec)
    fx, fy = num(d['point']['x']), num(d['point']['y'])
    x, y = float(fx), float(fy)
    # exact oracle at the float point actually passed to the code
    hits = []
    for i, (name, nodenames, centre, surface) in enumerate(spec['columns']):
        w = G.winding_contains(G.polygon_of(spec, name), Fraction(x), Fraction(y))
        if w is None:
            return False, 'replay point (%r, %r) lies exactly on an edge of column %r: outside the quantifier' % (x, y, name)
        if w: hits.append(i)
    if len(hits) > 1:
        return False, 'oracle: point in %d columns - geometry overlap, not a code defect' % len(hits)
    if d['fn'] in ('column', 'compare'):
        kw, allowed = _variant_kwargs(geo, d['variant'])
        r = geo.column_containing_point(np.array([x, y]), **kw)
        exp = hits[0] if hits else None
        if exp is not None and allowed is not None and exp not in allowed: exp = None
        expname = None if exp is None else spec['columns'][exp][0]
        gotname = None if r is None else r.name
        msg = '%s %s at (%r, %r): real code returns %r, exact oracle says %r' % (d['geo'], d['variant'], x, y, gotname, expname)
        if d['fn'] == 'compare':
            # the claim that failed: this aid and the unaided search return the same column
            r0 = geo.column_containing_point(np.array([x, y]))
            name0 = None if r0 is None else r0.name
            if name0 is not None and allowed is not None and geo.columnlist.index(r0) not in allowed: name0 = None
            msg += '; unaided search returns %r' % (None if r0 is None else r0.name)
            return gotname != name0 or gotname != expname, msg
        return gotname != expname, msg
    if d['fn'] == 'block':
        z = float(num(d['point']['z']))
        qt = geo.column_quadtree() if d.get('qtree') else None
        r = geo.block_name_containing_point(np.array([x, y, z]), qtree=qt)
        exp = None
        if hits:
            k = hits[0]
            lay = spec['layers']
            surf = spec['columns'][k][3]
            if surf is None: surf = lay[0][1]
            for li in range(1, len(lay)):
                bottom, top = lay[li][1], lay[li - 1][1]
                if surf > bottom:
                    hi = surf if (surf < top or (li == 1 and surf > top)) else top
                    if z == bottom or z == hi:
                        return False, 'replay elevation lies exactly on a block boundary: outside the quantifier'
                    if bottom < z < hi:
                        exp = spec['columns'][k][0][0:3] + lay[li][0][0:2]
        msg = '%s at (%r, %r, %r): real block_name_containing_point returns %r, independent oracle says %r' % (d['geo'], x, y, z, r, exp)
        return r != exp, msg
    if d['fn'] == 'track':
        return _replay_track(d, mg, geo, spec)
    return False, 'unknown replay kind %r' % d.get('fn')


def _replay_track(d, mg, geo, spec):
    """axis-parallel line on a tiny rectangular grid: exact interval oracle."""
    import numpy as np
    o, s0, e0 = float(num(d['line']['o'])), float(num(d['line']['s'])), float(num(d['line']['e']))
    ax = 0 if d['orient'] == 'h' else 1
    ox = 1 - ax
    p0, p1 = [0.0, 0.0], [0.0, 0.0]
    p0[ax], p0[ox], p1[ax], p1[ox] = s0, o, e0, o
    try:
        track = geo.column_track([np.array(p0), np.array(p1)])
    except Exception as ex:
        return True, 'column_track raised %s: %s' % (type(ex).__name__, ex)
    O, S, E = Fraction(o), Fraction(s0), Fraction(e0)
    lo_, hi_ = min(S, E), max(S, E)
    bad = []
    names = [c[0] for c in spec['columns']]
    lens, rects = {}, {}
    for name in names:
        P = [(Fraction(x), Fraction(y)) for x, y in G.polygon_of(spec, name)]
        lo = (min(p[0] for p in P), min(p[1] for p in P)); hi = (max(p[0] for p in P), max(p[1] for p in P))
        if O in (lo[ox], hi[ox]): return False, 'line runs along a column edge: outside the quantifier'
        ov = min(hi[ax], hi_) - max(lo[ax], lo_)
        lens[name] = ov if (lo[ox] < O < hi[ox] and ov > 0) else Fraction(0)
        rects[name] = (lo, hi, max(hi[0] - lo[0], hi[1] - lo[1]) * Fraction(1e-3))
    listed = [t[0].name for t in track]
    eps = Fraction(1, 10 ** 9)
    for (col, pin, pout) in track:
        lo, hi, tol = rects[col.name]
        ent = max(lo[ax], S) if S <= E else min(hi[ax], S)
        ext = min(hi[ax], E) if S <= E else max(lo[ax], E)
        if lens[col.name] <= 0: bad.append('%r listed but not crossed' % col.name)
        elif abs(Fraction(float(pin[ax])) - ent) > eps or abs(Fraction(float(pout[ax])) - ext) > eps or \
                abs(Fraction(float(pin[ox])) - O) > eps or abs(Fraction(float(pout[ox])) - O) > eps:
            bad.append('%r entry/exit %r %r, expected %s %s' % (col.name, list(pin), list(pout), float(ent), float(ext)))
    for name in names:
        if name not in listed and lens[name] > rects[name][2] * (1 + eps): bad.append('%r crossed over %s but missing' % (name, float(lens[name])))
    dist = [abs(Fraction(float(t[1][ax])) - S) for t in track]
    if any(dist[i] > dist[i + 1] + eps for i in range(len(dist) - 1)): bad.append('not ordered along the line')
    if len(set(listed)) != len(listed): bad.append('column listed twice')
    msg = '%s %s line %r -> %r: track %r' % (d['geo'], d['orient'], p0, p1, [(t[0].name, list(map(float, t[1])), list(map(float, t[2]))) for t in track])
    return bool(bad), msg + ('; ' + '; '.join(bad[:4]) if bad else '; oracle agrees')
