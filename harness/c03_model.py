"""Backend-neutral geometry construction and comparison for C03.

build() makes a MULgraph geometry: the topology comes from the REAL
mulgrid().rectangular(...) on concrete spacings (or, for the irregular mesh,
from add_node / add_column / add_connection / add_layers), then node
positions, specified centres, layer elevations, column surfaces, well tracks,
the header reals and (optionally) one node name and one column name are
replaced by the values of a *provider*: symbolic in harness/C03.py, concrete
(taken from the solver's model) in harness/replay_C03.py.  compare() walks a
written geometry and a re-read one and reports every compared item to a
*comparer*.  No z3 import here."""

FEET = 0.3048

# ---------------------------------------------------------------------------
# topologies (concrete base values; symbolic values stay within +-delta of them)

RECTS = {
    # name: (x spacings, y spacings, (x0, y0))
    'r2x1': ([10., 20.], [30.], (0., 0.)),
    'r2x2': ([100., 150.], [80., 120.], (2776000., 6282000.)),        # map-grid sized coordinates (7 digits)
    'r3x2': ([10., 20., 15.], [12., 18.], (-500., -999997.)),          # first row at the negative 10-column limit
}

# irregular mesh: 2 quadrilaterals, 1 triangle, 1 pentagon ('mix'); without the
# pentagon ('mixtq', needed for the dmplex block order which has no 10-node cell)
MIX_NODES = [(0., 0.), (10., 0.), (20., 0.), (0., 10.), (10., 12.), (22., 9.), (5., 20.), (15., 22.), (24., 18.)]
MIX_COLS = [[0, 1, 4, 3], [4, 5, 2, 1], [3, 4, 6], [4, 5, 8, 7, 6]]       # second one handed over clockwise
MIX_CONS = [(0, 1), (0, 2), (1, 3), (2, 3)]
MIX_ORIGIN = (-40., 1200.)

LAYERS = {
    # name: (top elevation, thicknesses)
    'high': (1500., [20., 30., 50.]),
    'low': (-100., [25., 10., 40.]),
    'zerotop': (0., [20., 30., 50.]),          # ground level at 0.00: layer 0 prints 0.00 / -0.00
    'zeromid': (10., [20., 30., 50.]),         # first layer's centre at elevation 0 (prints as 0.00)
    'zeromid2': (30., [20., 20., 50.]),        # second layer's centre at elevation 0
}

DELTA_XY = 1.0      # node coordinates / specified centres: base +- DELTA_XY
DELTA_Z = 2.0       # layer bottoms: base +- DELTA_Z
MARGIN = 0.05       # a surface keeps this distance from the layer boundaries (rounding moves it by <= 0.005 * scale)


class Rejected(Exception):
    """the real API refused a value while it was being assigned (e.g. a validating property
    setter): on that side of the fork there is no such geometry - not a round-trip matter"""


def assign(obj, attr, value):
    """obj.attr = value through whatever the real class does on assignment (plain attribute or
    property setter)"""
    try:
        setattr(obj, attr, value)
    except Exception as ex:
        raise Rejected('%s.%s: %s: %s' % (type(obj).__name__, attr, type(ex).__name__, str(ex)[:80]))


def base_topology(M, np_, shape):
    conv, atm, order = shape['convention'], shape['atmos'], shape.get('block_order')
    # 'order_history': the block order the geometry is CREATED with, followed by the values
    # assigned to geo.block_order before writing (the last one is shape['block_order'])
    hist = shape.get('order_history')
    if hist: order = hist[0]
    case = shape.get('case')
    topo = shape['topo']
    ztop, thick = LAYERS[shape.get('layers', 'high')]
    thick = thick[:shape.get('nlayers', 2)]
    kw = {}
    if case == 'u':
        from string import ascii_uppercase
        kw['chars'] = ascii_uppercase
    if topo in RECTS:
        xs, ys, (x0, y0) = RECTS[topo]
        if shape.get('unit'):
            # in feet the file holds value / 0.3048: keep the printed numbers within 10 columns
            x0, y0 = {'r2x1': (x0, y0), 'r2x2': (277600., 628200.), 'r3x2': (-500., -304798.5)}[topo]
        geo = M.mulgrid().rectangular(list(xs), list(ys), list(thick), convention=conv, atmos_type=atm,
                                      origin=[x0, y0, ztop], block_order=order, **kw)
        return geo
    geo = M.mulgrid(type='GENER', convention=conv, atmos_type=atm, block_order=order)
    geo.empty()
    ncols = 3 if topo == 'mixtq' else 4
    cols = MIX_COLS[:ncols]
    used = sorted(set(v for col in cols for v in col))
    names = {}
    for n, v in enumerate(used):
        names[v] = geo.node_name_from_number(n + 1, **kw)
        geo.add_node(M.node(names[v], np_.array([MIX_NODES[v][0] + MIX_ORIGIN[0], MIX_NODES[v][1] + MIX_ORIGIN[1]])))
    for ci, given in enumerate(cols):
        nm = geo.column_name_from_number(ci + 1, **kw)
        geo.add_column(M.column(nm, [geo.node[names[v]] for v in given]))
    for (a, b) in MIX_CONS:
        if a < ncols and b < ncols:
            geo.add_connection(M.connection([geo.columnlist[a], geo.columnlist[b]]))
    geo.add_layers(list(thick), ztop, **kw)
    geo.set_default_surface()
    geo.identify_neighbours()
    geo.setup_block_name_index()
    geo.setup_block_connection_name_index()
    return geo


def derive(M, np_, geo, shape):
    """shape['derive']: operations of the REAL API applied, in order, to the concrete base
    topology before the values become symbolic - a "derived" geometry (renamed, refined,
    reduced, split, rotated, translated).  Several of them leave the by-name dictionaries in
    an order different from the ordered lists (rename_* pop and re-insert the key at the end,
    refine_layers re-inserts the atmosphere layer last, split_column / rename_column re-key
    connections): the lists are what defines the order in the file."""
    kw = {}
    if shape.get('case') == 'u':
        from string import ascii_uppercase
        kw['chars'] = ascii_uppercase
    for op in shape.get('derive') or []:
        what, args = op[0], list(op[1:])
        if what == 'rename_layer':
            # [i, num]: layer i gets the name of layer number num (None: its own name again,
            # which is what refine_layers() does with the atmosphere layer)
            old = geo.layerlist[args[0]].name
            new = old if args[1] is None else geo.layer_name_from_number(args[1], **kw)
            assert new == old or new not in geo.layer
            ok = geo.rename_layer(old, new)
            assert ok
        elif what == 'rename_column':
            old = geo.columnlist[args[0]].name
            new = geo.column_name_from_number(args[1], **kw)
            assert new not in geo.column
            ok = geo.rename_column(old, new)
            assert ok
        elif what == 'refine_layers':
            geo.refine_layers([geo.layerlist[i] for i in args[0]], factor=args[1] if len(args) > 1 else 2, **kw)
        elif what == 'refine':
            geo.refine([geo.columnlist[i] for i in args[0]], bisect=args[1] if len(args) > 1 else False, **kw)
        elif what == 'reduce':
            geo.reduce([geo.columnlist[i] for i in args[0]])
        elif what == 'delete_column':
            geo.delete_column(geo.columnlist[args[0]].name)
            geo.setup_block_name_index(); geo.setup_block_connection_name_index()
        elif what == 'split_column':
            col = geo.columnlist[args[0]]
            ok = geo.split_column(col.name, col.node[args[1]].name, **kw)
            assert ok
        elif what == 'rotate':
            geo.rotate(args[0])
        elif what == 'translate':
            geo.translate(np_.array([float(v) for v in args[0]]))
        else:
            raise ValueError('unknown derive operation %r' % (op,))
    return geo


def name_pattern(shape, what):
    """pattern of the symbolic name: 'L' letter (either case), 'D' digit, ' ' blank."""
    conv = shape['convention']
    if conv in (0, 3): return shape.get(what + '_pattern', ' LL' if what == 'node' else 'LLL')
    if conv == 1: return shape.get(what + '_pattern', 'DD')
    return shape.get(what + '_pattern', ' DD' if what == 'node' else 'DDD')


def build(b, M, np_, shape):
    """-> (geometry, info).  b: value provider."""
    geo = base_topology(M, np_, shape)
    derive(M, np_, geo, shape)
    for o in (shape.get('order_history') or [])[1:]:
        geo.block_order = o          # the real property setter (set_block_order_int, setup_block_name_index)
    unit = shape.get('unit', '')
    geo.unit_type = unit
    s = geo.unit_scale
    exact_z = shape.get('layers', 'high') in ('zeromid', 'zeromid2')
    info = dict(scale=s, written={})
    # --- header
    assign(geo, 'atmosphere_volume', b.real('atmvol', None, None, 'e', 10, 2, 1.0))
    assign(geo, 'atmosphere_connection', b.real('atmcon', None, None, 'e', 10, 2, 1.0))
    assign(geo, 'permeability_angle', b.real('angle', 0.0, 360.0, 'f', 10, 2, 1.0))
    if shape.get('gdc'):
        assign(geo, 'gdcx', b.real('gdcx', 0.0, 1.0, 'f', 10, 2, 1.0))
        assign(geo, 'gdcy', b.real('gdcy', 0.0, 1.0, 'f', 10, 2, 1.0))
    node0 = (float(geo.nodelist[0].pos[0]), float(geo.nodelist[0].pos[1]))
    ztop0 = float(geo.layerlist[0].bottom)
    # --- node positions
    for i, nod in enumerate(geo.nodelist):
        x0, y0 = float(nod.pos[0]), float(nod.pos[1])
        assign(nod, 'pos', np_.array([b.real('nx%d' % i, x0, DELTA_XY, 'f', 10, 2, s), b.real('ny%d' % i, y0, DELTA_XY, 'f', 10, 2, s)]))
    # the column polygons keep the orientation of the base mesh (precondition, see C03.py)
    b.orientation(geo, M)
    # --- specified centres
    for k in range(shape.get('ncentres', 0)):
        col = geo.columnlist[(2 * k + 1) % len(geo.columnlist)]
        c0 = [float(col.centre[0]), float(col.centre[1])]
        col.centre_specified = 1
        assign(col, 'centre', np_.array([b.real('cx%d' % k, c0[0], DELTA_XY, 'f', 10, 2, s), b.real('cy%d' % k, c0[1], DELTA_XY, 'f', 10, 2, s)]))
    # --- layers: bottoms symbolic; layer 0 is the atmosphere layer (bottom = centre = top);
    # centres are midpoints, as add_layers() makes them, or free values inside the layer
    free_centres = shape.get('centres', 'mid') == 'free'
    prev = None
    for k, lay in enumerate(geo.layerlist):
        z0 = float(lay.bottom)
        z = b.real('lz%d' % k, z0, DELTA_Z, 'f', 10, 2, s, exact=exact_z)
        assign(lay, 'bottom', z)
        if k == 0:
            assign(lay, 'centre', z)
            assign(lay, 'top', z)
        else:
            assign(lay, 'top', prev)
            if free_centres:
                assign(lay, 'centre', b.real_between('lc%d' % k, z, prev, 'f', 10, 2, s))
            else:
                assign(lay, 'centre', b.derived('lc%d' % k, 0.5 * (z + prev), 'f', 10, 2, s, exact=exact_z))
        prev = z
    # --- surfaces
    surf = shape.get('surfaces', 'none')
    ncol = len(geo.columnlist)
    which = [] if surf == 'none' else [ncol - 1] if surf == 'one' else list(range(ncol))
    nlay = len(geo.layerlist) - 1
    for n, ci in enumerate(which):
        col = geo.columnlist[ci]
        # column n gets its surface inside layer 1 + (n mod nlay); every third one above ground level
        if shape.get('attop') and n == 0:
            # an explicit surface EXACTLY at ground level (the value a column without a surface
            # entry has): it is not a default surface and must stay in the SURFA section
            assign(col, 'surface', geo.layerlist[0].bottom)
            geo.set_column_num_layers(col)
            continue
        if shape.get('attop') and n == 1:
            # anywhere within 1 of ground level (below, at or above it)
            assign(col, 'surface', b.real_between('surf%d' % ci, geo.layerlist[0].bottom - 1.0, geo.layerlist[0].bottom + 1.0, 'f', 10, 2, s, strict=False))
            geo.set_column_num_layers(col)
            continue
        if n % 3 == 2 or shape.get('surface_above'):
            lo, hi = geo.layerlist[0].bottom + MARGIN, geo.layerlist[0].bottom + 50.0
        else:
            L = geo.layerlist[1 + (n % nlay)]
            lo, hi = L.bottom + MARGIN, L.top - MARGIN
        assign(col, 'surface', b.real_between('surf%d' % ci, lo, hi, 'f', 10, 2, s, strict=False))
        geo.set_column_num_layers(col)
    for ci, col in enumerate(geo.columnlist):
        if ci not in which and not col.default_surface:
            # refine() / split_column() hand the old surface to the new columns as an EXPLICIT
            # surface: it follows the (now symbolic) ground level, explicitly, as in 'attop'
            assign(col, 'surface', geo.layerlist[0].bottom)
            geo.set_column_num_layers(col)
    # --- wells
    for wi, npts in enumerate(shape.get('wells', [])):
        name = ['  w 1', 'AB 12', 'well3'][wi]
        pts = []
        for pi in range(npts):
            # track points: anywhere within 100 (x, y) / 1000 (z) of the first node / ground level
            x = b.real('w%dx%d' % (wi, pi), node0[0], 100.0, 'f', 10, 1, s)
            y = b.real('w%dy%d' % (wi, pi), node0[1], 100.0, 'f', 10, 1, s)
            z = b.real('w%dz%d' % (wi, pi), ztop0, 1000.0, 'f', 10, 1, s)
            pts.append(np_.array([x, y, z]))
        geo.add_well(M.well(name, pts))
    # --- symbolic names (direct state construction: the lookups are rebuilt)
    if shape.get('symnames'):
        ni = shape.get('symnode', 1) % len(geo.nodelist)
        ci = shape.get('symcol', 0) % len(geo.columnlist)
        nod, col = geo.nodelist[ni], geo.columnlist[ci]
        nod.name = b.name('nodename', name_pattern(shape, 'node'), [n.name for n in geo.nodelist if n is not nod])
        col.name = b.name('colname', name_pattern(shape, 'column'), [c_.name for c_ in geo.columnlist if c_ is not col] +
                          ([geo.atmosphere_column_name] if geo.atmosphere_type == 0 else []))
        # (the dictionaries keep their key ORDER, which derive operations may have made different
        # from the order of the lists)
        geo.node = dict((n.name, n) for n in list(geo.node.values()))
        geo.column = dict((c_.name, c_) for c_ in list(geo.column.values()))
        geo.connection = dict(((cn.column[0].name, cn.column[1].name), cn) for cn in list(geo.connection.values()))
    geo.setup_block_name_index()
    geo.setup_block_connection_name_index()
    return geo, info


# ---------------------------------------------------------------------------
# a geometry that was READ from a file is changed through the API and written again

def edit(b, g, shape):
    """shape['edit']: list of edits applied to the re-read geometry g before it is written
    again.  -> set of the compared items whose value is new (not yet rounded by a file)."""
    s = g.unit_scale
    edited = set()
    for e in shape.get('edit') or []:
        if e == 'header':
            assign(g, 'atmosphere_volume', b.real('atmvol2', None, None, 'e', 10, 2, 1.0))
            assign(g, 'atmosphere_connection', b.real('atmcon2', None, None, 'e', 10, 2, 1.0))
            assign(g, 'permeability_angle', b.real('angle2', 0.0, 360.0, 'f', 10, 2, 1.0))
            edited |= set(['header atmosphere_volume', 'header atmosphere_connection', 'header permeability_angle'])
        elif e == 'gdc':
            assign(g, 'gdcx', b.real('gdcx2', 0.0, 1.0, 'f', 10, 2, 1.0))
            assign(g, 'gdcy', b.real('gdcy2', 0.0, 1.0, 'f', 10, 2, 1.0))
            edited |= set(['header gdcx', 'header gdcy'])
        elif isinstance(e, (list, tuple)) and e[0] == 'block_order':
            g.block_order = e[1]
        elif isinstance(e, (list, tuple)) and e[0] == 'rename_layer':
            # the layer gets its own name again (what refine_layers() does with layer 0)
            nm = g.layerlist[e[1]].name
            ok = g.rename_layer(nm, nm)
            assert ok
        elif isinstance(e, (list, tuple)) and e[0] == 'surface':
            # column e[1] gets a (new) surface inside layer e[2]
            col, L = g.columnlist[e[1]], g.layerlist[e[2]]
            assign(col, 'surface', b.real_between('esurf%d' % e[1], L.bottom + MARGIN, L.top - MARGIN, 'f', 10, 2, s, strict=False))
            g.set_column_num_layers(col)
            g.setup_block_name_index(); g.setup_block_connection_name_index()
            edited.add('column %d surface' % e[1])
        else:
            raise ValueError('unknown edit %r' % (e,))
    return edited


# ---------------------------------------------------------------------------
# the file is read into an object that ALREADY HOLDS a geometry (mulgrid.read() on a used
# object): the result must not depend on what the object held before

def prior(b, M, np_, shape, geo):
    """shape['reuse']: 'self' - the object that wrote the file reads it back itself
    (geo.write(f); geo.read(f), the "normalise to file precision" idiom); or a dict describing
    ANOTHER geometry the reading object holds: topology (rectangular nx x ny, nz layers),
    convention, atmos, unit, block_order, gdc (gdcx / gdcy set, symbolic), cntype, wells (a well
    with the name of the first well of the file and one with another name), surfaces,
    via_file (the object got its previous content from a file: mulgrid('prior.dat')).
    -> the object that is going to read the file"""
    r = shape['reuse']
    if r == 'self': return geo
    kw = {}
    if r.get('case') == 'u':
        from string import ascii_uppercase
        kw['chars'] = ascii_uppercase
    nx, ny, nz = r.get('size', (3, 1, 3))
    h = M.mulgrid().rectangular([7.] * nx, [9.] * ny, [4.] * nz, convention=r.get('convention', 0),
                                atmos_type=r.get('atmos', 0), origin=r.get('origin', [3., 4., 50.]),
                                block_order=r.get('block_order'), **kw)
    h.unit_type = r.get('unit', '')
    assign(h, 'atmosphere_volume', b.real('p_atmvol', None, None, 'e', 10, 2, 1.0))
    assign(h, 'atmosphere_connection', b.real('p_atmcon', None, None, 'e', 10, 2, 1.0))
    assign(h, 'permeability_angle', b.real('p_angle', 0.0, 360.0, 'f', 10, 2, 1.0))
    if r.get('gdc'):
        assign(h, 'gdcx', b.real('p_gdcx', 0.0, 1.0, 'f', 10, 2, 1.0))
        assign(h, 'gdcy', b.real('p_gdcy', 0.0, 1.0, 'f', 10, 2, 1.0))
    if r.get('cntype') is not None:
        h.cntype = r['cntype']
    if r.get('surfaces'):
        col = h.columnlist[-1]
        col.surface = float(h.layerlist[1].centre)
        h.set_column_num_layers(col)
    for wi in range(r.get('wells', 0)):
        name = ['  w 1', 'zz  9'][wi]
        h.add_well(M.well(name, [np_.array([5., 6., 50.]), np_.array([5., 6., 40.]), np_.array([6., 6., 30.])][:2 + wi]))
    h.setup_block_name_index()
    h.setup_block_connection_name_index()
    if r.get('via_file'):
        h.write('prior.dat')
        h = M.mulgrid('prior.dat')
    return h


# ---------------------------------------------------------------------------
# comparison of a written geometry a with the re-read one b_

def compare(cmp, a, b_, exact=False, where='', edited=()):
    """exact=False: b_ was read from the file a wrote (values equal the printed
    decimals); exact=True: a was itself read from a file (fixed point), except for
    the items named in edited, which were assigned after the read."""
    s = a.unit_scale
    W = where
    _real = cmp.real
    def real(x, y, kind, p, scale, label, ex):
        # (label without the stage prefix decides whether the value is a fresh one)
        _real(x, y, kind, p, scale, label, ex and label[len(W):] not in edited)
    cmp_real = real
    # --- header
    cmp.ob(b_.type == a.type, W + 'header type: same geometry type')
    cmp.ob(b_.convention == a.convention, W + 'header convention: same naming convention (%r -> %r)' % (a.convention, b_.convention))
    cmp.ob(b_.atmosphere_type == a.atmosphere_type, W + 'header atmosphere_type: same atmosphere type (%r -> %r)' % (a.atmosphere_type, b_.atmosphere_type))
    cmp.ob(b_.unit_type == a.unit_type, W + 'header unit_type: same unit type (%r -> %r)' % (a.unit_type, b_.unit_type))
    if b_.unit_type != a.unit_type:
        return False            # every length below would differ by the scale factor: one finding, not fifty
    cmp.ob(b_.unit_scale == a.unit_scale, W + 'header unit_scale: same length scale (%r -> %r)' % (a.unit_scale, b_.unit_scale))
    cmp.ob(b_.block_order == a.block_order, W + 'header block_order: same block ordering (%r -> %r)' % (a.block_order, b_.block_order))
    cmp.ob(b_._block_order_int == a._block_order_int, W + 'header block_order flag: same integer flag')
    cmp_real(a.atmosphere_volume, b_.atmosphere_volume, 'e', 2, 1.0, W + 'header atmosphere_volume', exact)
    cmp_real(a.atmosphere_connection, b_.atmosphere_connection, 'e', 2, 1.0, W + 'header atmosphere_connection', exact)
    cmp_real(a.gdcx, b_.gdcx, 'f', 2, 1.0, W + 'header gdcx', exact)
    cmp_real(a.gdcy, b_.gdcy, 'f', 2, 1.0, W + 'header gdcy', exact)
    cmp_real(a.permeability_angle, b_.permeability_angle, 'f', 2, 1.0, W + 'header permeability_angle', exact)
    cmp.ob(b_.cntype == a.cntype, W + 'header cntype: unset stays unset')
    # --- nodes
    cmp.ob(len(a.nodelist) == len(b_.nodelist), W + 'nodes count: same number of nodes (%d -> %d)' % (len(a.nodelist), len(b_.nodelist)))
    for i, (na, nb) in enumerate(zip(a.nodelist, b_.nodelist)):
        cmp.text(na.name, nb.name, W + 'node %d name' % i)
        cmp.ob(nb.name in b_.node and b_.node[nb.name] is nb, W + 'node %d lookup: found under its name' % i)
        for d in (0, 1):
            cmp_real(na.pos[d], nb.pos[d], 'f', 2, s, W + 'node %d %s' % (i, 'xy'[d]), exact)
    # --- columns
    cmp.ob(len(a.columnlist) == len(b_.columnlist), W + 'columns count: same number of columns (%d -> %d)' % (len(a.columnlist), len(b_.columnlist)))
    for i, (ca, cb) in enumerate(zip(a.columnlist, b_.columnlist)):
        cmp.text(ca.name, cb.name, W + 'column %d name' % i)
        cmp.ob(cb.name in b_.column and b_.column[cb.name] is cb, W + 'column %d lookup: found under its name' % i)
        cmp.ob(cb.centre_specified == ca.centre_specified, W + 'column %d centre flag: specified centre stays specified (%r -> %r)' % (i, ca.centre_specified, cb.centre_specified))
        ia = [a.nodelist.index(n) for n in ca.node]
        ib = [b_.nodelist.index(n) if n in b_.nodelist else -1 for n in cb.node]
        cmp.ob(ia == ib, W + 'column %d nodes: same nodes in the same order (%r -> %r)' % (i, ia, ib))
        if ca.centre_specified and cb.centre_specified:
            for d in (0, 1):
                cmp_real(ca.centre[d], cb.centre[d], 'f', 2, s, W + 'column %d specified centre %s' % (i, 'xy'[d]), exact)
        cmp.ob(cb.default_surface == ca.default_surface, W + 'column %d surface flag: default surface stays default, set surface stays set (%r -> %r)' % (i, ca.default_surface, cb.default_surface))
        if not ca.default_surface and not cb.default_surface:
            cmp_real(ca.surface, cb.surface, 'f', 2, s, W + 'column %d surface' % i, exact)
        elif ca.default_surface and cb.default_surface and len(b_.layerlist) > 0:
            cmp.same(cb.surface, b_.layerlist[0].bottom, W + 'column %d default surface: equals ground level' % i)
        cmp.ob(cb.num_layers == ca.num_layers, W + 'column %d num_layers: same number of layers below the surface (%r -> %r)' % (i, ca.num_layers, cb.num_layers))
        nba = sorted(a.columnlist.index(n) for n in ca.neighbour)
        nbb = sorted(b_.columnlist.index(n) for n in cb.neighbour)
        cmp.ob(nba == nbb, W + 'column %d neighbours: same neighbour set' % i)
    # --- connections
    cmp.ob(len(a.connectionlist) == len(b_.connectionlist), W + 'connections count: same number (%d -> %d)' % (len(a.connectionlist), len(b_.connectionlist)))
    for i, (ka, kb) in enumerate(zip(a.connectionlist, b_.connectionlist)):
        ia = [a.columnlist.index(c_) for c_ in ka.column]
        ib = [b_.columnlist.index(c_) if c_ in b_.columnlist else -1 for c_ in kb.column]
        cmp.ob(ia == ib, W + 'connection %d columns: joins the same columns in the same order (%r -> %r)' % (i, ia, ib))
        key = (kb.column[0].name, kb.column[1].name)
        cmp.ob(key in b_.connection and b_.connection[key] is kb, W + 'connection %d lookup: found under its column names' % i)
    # --- layers
    cmp.ob(len(a.layerlist) == len(b_.layerlist), W + 'layers count: same number of layers (%d -> %d)' % (len(a.layerlist), len(b_.layerlist)))
    for i, (la, lb) in enumerate(zip(a.layerlist, b_.layerlist)):
        cmp.text(la.name, lb.name, W + 'layer %d name' % i)
        cmp.ob(lb.name in b_.layer and b_.layer[lb.name] is lb, W + 'layer %d lookup: found under its name' % i)
        cmp_real(la.bottom, lb.bottom, 'f', 2, s, W + 'layer %d bottom' % i, exact)
        cmp_real(la.centre, lb.centre, 'f', 2, s, W + 'layer %d centre' % i, exact)
        above = b_.layerlist[i - 1].bottom if i > 0 else lb.bottom
        cmp.same(lb.top, above, W + 'layer %d top: bottom of the layer above' % i)
    # --- wells
    cmp.ob(len(a.welllist) == len(b_.welllist), W + 'wells count: same number of wells (%d -> %d)' % (len(a.welllist), len(b_.welllist)))
    for i, (wa, wb) in enumerate(zip(a.welllist, b_.welllist)):
        cmp.text(wa.name, wb.name, W + 'well %d name' % i)
        cmp.ob(wb.name in b_.well and b_.well[wb.name] is wb, W + 'well %d lookup: found under its name' % i)
        cmp.ob(len(wa.pos) == len(wb.pos), W + 'well %d points: same number of track points (%d -> %d)' % (i, len(wa.pos), len(wb.pos)))
        for j, (pa, pb) in enumerate(zip(wa.pos, wb.pos)):
            for d in (0, 1, 2):
                cmp_real(pa[d], pb[d], 'f', 1, s, W + 'well %d point %d %s' % (i, j, 'xyz'[d]), exact)
    # --- derived name lists
    cmp.names(a.block_name_list, b_.block_name_list, W + 'block_name_list')
    cmp.names(a.block_connection_name_list, b_.block_connection_name_list, W + 'block_connection_name_list')
    return True
