"""Replay for C10: rebuild the mesh family with the witness numbers on the REAL
mulgrids module, run the edit sequence, evaluate the clause concretely before
and after the failing step (independent code, no z3)."""
import os
import sys
from fractions import Fraction

sys.path.insert(0, os.path.dirname(os.path.abspath(__file__)))
import c11_common as CC
import replay_C11 as R

num, find_column, F = R.num, R.find_column, R.F


def resolve(geo, st, env):
    op = st['op']
    if op in ('refine', 'split', 'triangulate', 'decompose', 'refine_layers'):
        if op == 'refine_layers':
            return [dict(op=op, layers=[geo.layerlist[i].name for i in st['layers']], factor=st['factor'])]
        return [R.resolve(geo, st)]
    if op == 'check_fix': return [dict(op='check_fix')]
    if op == 'refresh': return [dict(op='refresh')]
    if op == 'companion':
        return [dict(op='companion', do=x) for x in resolve(geo._vx_companion, st['do'], env)]
    if op in ('copy_layers_from', 'give_layers') and st.get('companion'):
        d = dict(op=op, companion=True)
        if 'thicknesses' in st:
            d.update(thicknesses=[float(v) for v in num(st['thicknesses'])], top=float(num(st['top'])), surface=float(num(st['surface'])))
        return [d]
    if op == 'add_extra_connection':
        return [dict(op='add_connection', cols=[find_column(geo, v).name for v in st['cols']])]
    if op == 'rename_column' and 'cols' in st:
        olds = [find_column(geo, v).name for v in st['cols']]
        return [dict(op=op, col=olds, name=CC.perm_names(olds, st['perm']))]
    if op == 'rename_column' and 'clash' in st:
        return [dict(op=op, col=find_column(geo, st['col']).name, name=find_column(geo, st['clash']).name)]
    if op == 'rename_layer' and 'layers' in st:
        olds = [geo.layerlist[i].name for i in st['layers']]
        return [dict(op=op, layer=olds, name=CC.perm_names(olds, st['perm'], 'zq'))]
    if op == 'rename_layer' and 'clash' in st:
        return [dict(op=op, layer=geo.layerlist[st['layer']].name, name=geo.layerlist[st['clash']].name)]
    if op in ('reduce', 'snap', 'snap_nearest'):
        d = dict(op=op, cols=[find_column(geo, v).name for v in st['cols']])
        if op == 'snap': d['min_thickness'] = float(num(st['min_thickness']))
        return [d]
    if op in ('delete_column', 'rename_column'):
        d = dict(op=op, col=find_column(geo, st['col']).name)
        if op == 'rename_column': d['name'] = st['name']
        return [d]
    if op == 'readd_column':
        cl = find_column(geo, st['col'])
        return [dict(op='delete_column', col=cl.name), dict(op='add_column', name=st['name'], nodes=[n.name for n in cl.node], surface=cl.surface)]
    if op == 'add_node': return [dict(op=op, name=st['name'], pos=[float(v) for v in num(st['pos'])])]
    if op in ('delete_node', 'delete_well'): return [dict(op=op, name=st['name'])]
    if op == 'add_well': return [dict(op=op, name=st['name'], pos=[[float(v) for v in num(p)] for p in st['pos']])]
    if op in ('delete_connection', 'readd_connection'):
        a, b = [find_column(geo, v) for v in st['cols']]
        key = (a.name, b.name) if (a.name, b.name) in geo.connection else (b.name, a.name)
        if op == 'delete_connection': return [dict(op=op, cols=list(key))]
        return [dict(op='delete_connection', cols=list(key)), dict(op='add_connection', cols=list(key))]
    if op == 'add_layer': return [dict(op=op, name=st['name'], thickness=float(num(st['thickness'])))]
    if op in ('delete_layer', 'rename_layer'):
        d = dict(op=op, layer=geo.layerlist[st['layer']].name)
        if op == 'rename_layer': d['name'] = st['name']
        return [d]
    if op == 'translate': return [dict(op=op, shift=[float(v) for v in num(st['shift'])])]
    if op == 'rotate': return [dict(op=op, angle=st['angle'], centre=[float(v) for v in num(st['centre'])])]
    if op == 'copy_layers_from': return [dict(op=op, thicknesses=[float(v) for v in num(st['thicknesses'])], top=float(num(st['top'])))]
    raise ValueError(op)


def clause_defects(geo, clause):
    cols = geo.columnlist
    bad = []
    if clause == 'dict-list':
        for what, dct, lst in (('node', geo.node, geo.nodelist), ('column', geo.column, geo.columnlist), ('layer', geo.layer, geo.layerlist), ('well', geo.well, geo.welllist)):
            if len(dct) != len(lst): bad.append('%s dict/list sizes differ' % what)
            for o in lst:
                if dct.get(o.name) is not o: bad.append('%s %r not filed under its name' % (what, o.name))
        if len(geo.connection) != len(geo.connectionlist): bad.append('connection dict/list sizes differ')
        for con in geo.connectionlist:
            key = tuple(c.name for c in con.column)
            if geo.connection.get(key) is not con: bad.append('connection %s:%s is not filed under its columns\' names' % key)
            for c in con.column:
                if c not in cols: bad.append('connection %s:%s refers to a column not in the geometry' % key)
    elif clause == 'node-columns':
        for nd in geo.nodelist:
            using = set(c for c in cols if nd in c.node)
            if set(nd.column) != using: bad.append('node %r knows %s, used by %s' % (nd.name, sorted(c.name for c in nd.column), sorted(c.name for c in using)))
        for c in cols:
            for n in c.node:
                if n not in geo.nodelist: bad.append('column %r uses a node that is not in the geometry' % c.name)
    elif clause in ('column-connections', 'neighbours'):
        for c in cols:
            mine = set(con for con in geo.connectionlist if c in con.column)
            if clause == 'column-connections':
                if set(c.connection) != mine: bad.append('column %r connection set differs' % c.name)
            else:
                others = set(x for con in mine for x in con.column if x is not c)
                if set(c.neighbour) != others: bad.append('column %r has neighbours %s, connected to %s' % (c.name, sorted(x.name for x in c.neighbour), sorted(x.name for x in others)))
                for h in c.neighbour:
                    if c not in h.neighbour: bad.append('neighbour relation %r -> %r not symmetric' % (c.name, h.name))
    elif clause == 'connection-edge':
        for con in geo.connectionlist:
            if con.node is None or len(con.node) != 2: bad.append('connection %r has no node pair' % (con,)); continue
            for c in con.column:
                n = len(c.node)
                if not any(set((c.node[i], c.node[(i + 1) % n])) == set(con.node) for i in range(n)): bad.append('connection %r: nodes are not a side of %r' % (con, c.name))
    elif clause == 'name-lists':
        saved = (list(geo.block_name_list), dict(geo.block_name_index), list(geo.block_connection_name_list), dict(geo.block_connection_name_index))
        keep = (geo.block_name_list, geo.block_name_index, geo.block_connection_name_list, geo.block_connection_name_index)
        try:
            geo.setup_block_name_index(); geo.setup_block_connection_name_index()
            fresh = (list(geo.block_name_list), dict(geo.block_name_index), list(geo.block_connection_name_list), dict(geo.block_connection_name_index))
            for i, nm in enumerate(('block_name_list', 'block_name_index', 'block_connection_name_list', 'block_connection_name_index')):
                if saved[i] != fresh[i]: bad.append('%s is stale' % nm)
        except Exception as ex:
            bad.append('recomputation raises %s' % type(ex).__name__)
        finally:
            geo.block_name_list, geo.block_name_index, geo.block_connection_name_list, geo.block_connection_name_index = keep
    elif clause == 'valid-mesh':
        if [n for n in geo.nodelist if not any(n in c.node for c in cols)]: bad.append('orphan nodes')
        bad += R.connection_defects(geo)
    elif clause == 'ccw-area':
        for c in cols:
            if len(c.node) < 3 or R.shoelace(R.poly_of(c)) <= 0 or not float(c.area) > 0: bad.append('column %r: polygon area %r, stored %r' % (c.name, float(R.shoelace(R.poly_of(c))), float(c.area)))
    elif clause == 'edge-length':
        for con in geo.connectionlist:
            if con.node and len(con.node) == 2 and float(con.node[0].pos[0]) == float(con.node[1].pos[0]) and float(con.node[0].pos[1]) == float(con.node[1].pos[1]):
                bad.append('connection %r has coincident nodes' % (con,))
    elif clause in ('num_layers', 'block-membership'):
        lays = geo.layerlist[1:]
        natm = [1, len(cols), 0][geo.atmosphere_type] if geo.layerlist else 0
        listed = set(geo.block_name_list[natm:])
        for c in cols:
            if c.surface is None:
                if clause == 'num_layers' and c.num_layers != len(lays): bad.append('column %r num_layers %r' % (c.name, c.num_layers))
                continue
            if clause == 'num_layers':
                n = sum(1 for l in lays if float(l.bottom) < float(c.surface))
                if n != c.num_layers: bad.append('column %r: num_layers %r, %d layers have their bottom below the surface' % (c.name, c.num_layers, n))
            else:
                for l in lays:
                    if (geo.block_name(l.name, c.name) in listed) != (float(c.surface) > float(l.bottom)):
                        bad.append('block (%r, %r): listed %r, surface above bottom %r' % (l.name, c.name, geo.block_name(l.name, c.name) in listed, float(c.surface) > float(l.bottom)))
    elif clause == 'degenerate':
        import math
        for c in cols:
            if abs(float(c.area)) <= 1e-14 or not all(math.isfinite(float(v)) for v in c.centre): bad.append('column %r has zero area / non-finite centre' % c.name)
    return bad


def replay(d):
    import mulgrids as M
    fam, clause, si = d['family'], d['clause'], d['step']
    geo = CC.build(M, fam, R.ConcEnv(d['values']))
    def tgt():      # the geometry the clause is about: the primary one or the companion of a two-geometry history
        return geo._vx_companion if d.get('target') == 'companion' else geo
    if si < 0:      # the family as built by the real constructors already violates the clause
        after = clause_defects(geo, clause)
        return bool(after), 'initial state (built by the real rectangular()/add_* calls), clause %s: %r' % (clause, after[:3])
    before = None
    try:
        for i, st in enumerate(d['steps']):
            if i == si:
                if d.get('target') == 'companion' and getattr(geo, '_vx_companion', None) is None: before = []
                else: before = clause_defects(tgt(), clause) if clause != 'valid-mesh' else []
            for one in resolve(geo, st, None):
                CC.apply_step(M, geo, one)
            if i == si: break
    except R.NoMatch as ex:
        return False, 'could not map the witness onto the real geometry: %s' % ex
    except Exception as ex:
        if clause == 'raises':
            return type(ex).__name__ == d.get('exception'), 'step %d (%s) raises %s: %s' % (si, d['steps'][si]['op'], type(ex).__name__, ex)
        return False, 'step %d raises %s: %s' % (si, type(ex).__name__, ex)
    if clause == 'raises': return False, 'step %d does not raise' % si
    after = clause_defects(tgt(), clause)
    if before:
        return False, 'clause %s was already broken before step %d: %r' % (clause, si, before[:2])
    return bool(after), 'after step %d (%s) clause %s: %r' % (si, d['steps'][si]['op'], clause, after[:3])
