"""C12 - point and line location in a geometry agree with exhaustive search.

The geometries are CONCRETE (harness/c12_geos.py: rectangular 3x3 with column
sizes over three orders of magnitude, the same rotated 37 degrees, a mixed
mesh of 2 quadrilaterals + 2 triangles + 1 pentagon, sub-meshes cut from the
shipped g2/g5/g7 with the real reduce() in a concrete pre-pass).  The POINT
(x, y[, z]) is SYMBOLIC.  The real mulgrid.column_containing_point /
quadtree / in_polygon / in_rectangle / block_name_containing_point (reloaded
from /repo) run on it; every feasible path is a cell of the arrangement of
the comparison hyperplanes the code looks at, and on every cell z3 decides

  * the returned column satisfies an independent containment predicate
    (half-planes of the column's convex polygon / of its ear-clipping
    triangles), `None` only when no (searchable) column satisfies it;
  * at most one column contains any admissible point (so "the same column
    whichever search aid is used" follows from the first obligation holding
    for every aid configuration; a `compare` task also runs several aids in
    ONE path and compares object identity directly);
  * the block reported for (x, y, z) is the unique block whose column
    contains (x, y) and whose vertical extent (layer bottom .. layer top or
    ground surface) contains z.

Search aids include quadtrees built over a column SUBSET with the real
column_quadtree(columns).  `history` tasks run query -> real rotate()/translate()
on the SAME object -> query (both points symbolic) and decide the second answer
against the oracle of the transformed node positions (task_history).

The point's bounding box (geometry bounds + 10 % on each side) is cut into
sub-boxes which run as parallel tasks.  column_track: oblique lines with a
concrete Pythagorean direction and a SYMBOLIC offset on small grids including a
non-convex column (task_otrack, both tiers); thorough tier also axis-parallel
lines with symbolic end points on tiny rectangular grids (task_track).
"""
import math
import time
import z3
from fractions import Fraction as F
from vx import sym, loader, report, fastctx, snorm
from harness import c12_geos as G

PID = 'C12'
X, Y, Z = z3.Real('x'), z3.Real('y'), z3.Real('z')

CPU = {'s': 0.0}
_LD = None
_REAL = None
_SPECS = {}


def _load():
    """Reload geometry.py / mulgrids.py from the repo once per check run."""
    global _LD
    if _LD is None:
        _LD = loader.load(['geometry', 'mulgrids'])
        snorm.install(_LD, ['geometry', 'mulgrids'])
    return _LD


def _real():
    """Un-shadowed copy of the repo modules for the concrete pre-pass
    (reading shipped files, rectangular(), rotate(), reduce())."""
    global _REAL
    if _REAL is None:
        _REAL = loader.load(['mulgrids'], shadows=False)
    return _REAL


def _spec(name, ncols=None):
    key = (name, ncols)
    if key not in _SPECS:
        _SPECS[key] = G.make_spec(_real().mulgrids, name, ncols)
    return _SPECS[key]


# ---------------------------------------------------------------------------
# independent oracle (exact rationals -> z3 linear formulas)

def q(v):
    return z3.RealVal(str(F(v)))


def _cross(o, a, b):
    return (a[0] - o[0]) * (b[1] - o[1]) - (a[1] - o[1]) * (b[0] - o[0])


def _left_of(a, b):
    """(x, y) is on or to the left of the directed line a -> b."""
    return q(b[0] - a[0]) * (Y - q(a[1])) - q(b[1] - a[1]) * (X - q(a[0])) >= 0


def _pt_in_tri(p, a, b, c):
    return _cross(a, b, p) >= 0 and _cross(b, c, p) >= 0 and _cross(c, a, p) >= 0


def _earclip(P):
    V = list(P)
    tris = []
    guard = 0
    while len(V) > 3:
        guard += 1
        if guard > 1000: raise ValueError('ear clipping failed')
        n = len(V)
        for i in range(n):
            a, b, c = V[i - 1], V[i], V[(i + 1) % n]
            if _cross(a, b, c) <= 0: continue
            if any(_pt_in_tri(p, a, b, c) for p in V if p not in (a, b, c)): continue
            tris.append((a, b, c)); del V[i]
            break
        else:
            raise ValueError('no ear found')
    tris.append(tuple(V))
    return tris


def inside_formula(P):
    """z3 formula over X, Y: the point lies in the closed polygon P (list of
    exact vertices).  Away from the edge lines closed = open."""
    n = len(P)
    area2 = sum(P[i][0] * P[(i + 1) % n][1] - P[(i + 1) % n][0] * P[i][1] for i in range(n))
    if area2 == 0: raise ValueError('degenerate polygon')
    if area2 < 0: P = P[::-1]
    if all(_cross(P[i], P[(i + 1) % n], P[(i + 2) % n]) >= 0 for i in range(n)):
        return z3.And(*[_left_of(P[i], P[(i + 1) % n]) for i in range(n)])
    return z3.Or(*[z3.And(_left_of(a, b), _left_of(b, c), _left_of(c, a)) for a, b, c in _earclip(P)])


class GeoData(object):
    """Everything concrete about one catalogue geometry, built in the worker."""

    def __init__(self, name, ncols=None, need_qtree=True, spec=None):
        """spec: use this spec (a catalogue geometry after in-place operations, see task_history)
        instead of the catalogue entry's own."""
        ld = _load()
        self.mg = mg = ld.mulgrids
        self.name, self.ncols = name, ncols
        self.label = '%s%s' % (name, ncols or '')
        self.spec = spec = spec if spec is not None else _spec(name, ncols)
        self.geo = geo = G.build(mg, spec)
        self.cols = list(geo.columnlist)
        self.index = {c.name: i for i, c in enumerate(self.cols)}
        pos = {n: (F(x), F(y)) for n, x, y in spec['nodes']}
        self.polys = [[pos[n] for n in nodenames] for (_, nodenames, _, _) in spec['columns']]
        self.inside = [inside_formula(P) for P in self.polys]
        xs = [p[0] for p in pos.values()]; ys = [p[1] for p in pos.values()]
        self.xmin, self.xmax, self.ymin, self.ymax = min(xs), max(xs), min(ys), max(ys)
        self.size = max(self.xmax - self.xmin, self.ymax - self.ymin)
        self.tau = self.size / 10 ** 6
        self.nodex = sorted(set(xs)); self.nodey = sorted(set(ys))
        # distinct edge lines  a x + b y + c = 0  with an upper bound N >= |(a, b)|
        lines = {}
        for P in self.polys:
            for i in range(len(P)):
                (x1, y1), (x2, y2) = P[i], P[(i + 1) % len(P)]
                a, b = y2 - y1, x1 - x2
                cc = -(a * x1 + b * y1)
                d = a if a != 0 else b
                a, b, cc = a / d, b / d, cc / d
                lines[(a, b, cc)] = F(math.sqrt(float(a * a + b * b))) * (1 + F(1, 2 ** 30))
        self.lines = sorted(lines.items())
        # layers / surfaces (exact)
        lay = spec['layers']
        self.lbot = [F(b) for (_, b, _) in lay]
        self.ltop = [self.lbot[0]] + self.lbot[:-1]
        self.lname = [n for (n, _, _) in lay]
        self.surf = [F(s) if s is not None else self.lbot[0] for (_, _, _, s) in spec['columns']]
        self.zmin = self.lbot[-1]; self.zmax = max([self.lbot[0]] + self.surf)
        self.zsize = self.zmax - self.zmin
        self.tauz = self.zsize / 10 ** 6
        self.zlevels = sorted(set(self.lbot + self.surf))
        # blocks: (name, column index, layer index, lo, hi)
        self.blocks = []
        for li in range(1, len(lay)):
            for k, col in enumerate(self.cols):
                s = self.surf[k]
                if s > self.lbot[li]:
                    top = self.ltop[li]
                    if s < top: hi = s
                    elif li == 1 and s > top: hi = s
                    else: hi = top
                    self.blocks.append((col.name[0:3] + self.lname[li][0:2], k, li, self.lbot[li], hi))
        self.blockname = {b[0]: b for b in self.blocks}
        self.qtree = geo.column_quadtree() if need_qtree else None
        self._bpoly = None

    @property
    def bpoly(self):
        if self._bpoly is None: self._bpoly = self.geo.boundary_polygon
        return self._bpoly

    @property
    def bnodes(self):
        return [n.pos for n in self.geo.boundary_nodes]

    def outer_box(self):
        mx = (self.xmax - self.xmin) / 10; my = (self.ymax - self.ymin) / 10
        return (self.xmin - mx, self.xmax + mx, self.ymin - my, self.ymax + my)

    def outer_z(self):
        m = self.zsize / 10
        return (self.zmin - m, self.zmax + m)

    def exclusion(self, box):
        """Constraints keeping (x, y) farther than tau from every edge line;
        lines whose tau-strip does not meet the box are implied and skipped."""
        x0, x1, y0, y1 = box
        out = []
        for (a, b, cc), N in self.lines:
            t = self.tau * N
            vals = [a * xx + b * yy + cc for xx in (x0, x1) for yy in (y0, y1)]
            if min(vals) > t or max(vals) < -t: continue
            L = q(a) * X + q(b) * Y + q(cc)
            out.append(z3.Or(L > q(t), L < q(-t)))
        return out

    def exclusion_z(self, zbox):
        z0, z1 = zbox
        out = []
        for lv in self.zlevels:
            if lv - self.tauz > z1 or lv + self.tauz < z0: continue
            out.append(z3.Or(Z > q(lv + self.tauz), Z < q(lv - self.tauz)))
        return out


def split_boxes(gd, nx, ny):
    """Cut the outer box into nx * ny sub-boxes at quantiles of the node
    coordinates (so that sub-boxes hold similar numbers of hyperplanes)."""
    x0, x1, y0, y1 = gd.outer_box()
    def cuts(vals, lo, hi, k):
        inner = [v for v in vals if lo < v < hi]
        cs = []
        for j in range(1, k):
            v = inner[min(len(inner) - 1, (j * len(inner)) // k)]
            if v not in cs: cs.append(v)
        return [lo] + sorted(cs) + [hi]
    cx, cy = cuts(gd.nodex, x0, x1, nx), cuts(gd.nodey, y0, y1, ny)
    return [(cx[i], cx[i + 1], cy[j], cy[j + 1]) for i in range(len(cx) - 1) for j in range(len(cy) - 1)]


def split_z(gd, nz, zone='all'):
    """zone 'surface': only from two layers below the lowest column surface upwards
    (deep layers all behave alike; keeps geometries with dozens of layers affordable)."""
    z0, z1 = gd.outer_z()
    if zone == 'surface':
        below = [b for b in gd.lbot if b < min(gd.surf)]
        if len(below) > 2: z0 = below[2]
    inner = [v for v in gd.zlevels if z0 < v < z1]
    cs = []
    for j in range(1, nz):
        v = inner[min(len(inner) - 1, (j * len(inner)) // nz)]
        if v not in cs: cs.append(v)
    cz = [z0] + sorted(cs) + [z1]
    return [(cz[i], cz[i + 1]) for i in range(len(cz) - 1)]


# ---------------------------------------------------------------------------
# search-aid variants

def subset_indices(tag, n):
    if tag == 'even': return [i for i in range(n) if i % 2 == 0]
    if tag == 'odd': return [i for i in range(n) if i % 2 == 1]
    if tag == 'firsthalf': return list(range((n + 1) // 2))
    if tag == 'lasthalf': return list(range(n // 2, n))
    if tag == 'all': return list(range(n))
    raise KeyError(tag)


class Live(object):
    """The search aids of a LIVE geometry object, built when first asked for - i.e. after whatever
    has been done to the object so far (task_history)."""

    def __init__(self, geo):
        self.geo = geo
        self.cols = list(geo.columnlist)
        self.index = {c.name: i for i, c in enumerate(self.cols)}
        self._q = None

    @property
    def qtree(self):
        if self._q is None: self._q = self.geo.column_quadtree()
        return self._q

    @property
    def bpoly(self): return self.geo.boundary_polygon

    @property
    def bnodes(self): return [n.pos for n in self.geo.boundary_nodes]


def variant_kwargs(gd, variant):
    """'plain' | parts joined by '+': qtree, sqtree:<tag>, brect, bpoly, bnodes, guess<i>, cols:<tag>
    sqtree:<tag> = a quadtree built with the real mulgrid.column_quadtree(columns) over the column SUBSET <tag>.
    Returns (kwargs, allowed, guess): allowed = indices of the columns the call may return / must find
    (None = every column)."""
    kw = {}
    subset = None
    sq = None
    whole_q = False
    guess = None
    n = len(gd.cols)
    for part in variant.split('+'):
        if part == 'plain': pass
        elif part == 'qtree': kw['qtree'] = gd.qtree; whole_q = True
        elif part.startswith('sqtree:'):
            sq = subset_indices(part[7:], n)
            kw['qtree'] = gd.geo.column_quadtree([gd.cols[i] for i in sq])
        elif part == 'brect': kw['bounds'] = gd.geo.bounds
        elif part == 'bpoly': kw['bounds'] = gd.bpoly                 # geo.boundary_polygon (simplified)
        elif part == 'bnodes': kw['bounds'] = gd.bnodes               # all boundary nodes (not simplified)
        elif part.startswith('guess'):
            guess = int(part[5:]) % n
            kw['guess'] = gd.cols[guess]
        elif part.startswith('cols:'):
            subset = subset_indices(part[5:], n)
            kw['columns'] = [gd.cols[i] for i in subset]
        else: raise KeyError(part)
    base = set(subset) if subset is not None else None        # columns the guess branch / plain search looks at
    if whole_q: allowed = None                                # a quadtree search ignores the column list
    elif sq is not None: allowed = set(sq)                    # a subset quadtree finds the columns it was built over
    else: allowed = base
    if allowed is not None and guess is not None:
        nb = set(gd.index[c.name] for c in gd.cols[guess].neighbour)
        allowed = set(allowed) | set([guess]) | (nb if base is None else (nb & base))
    return kw, allowed, guess


def variant_class(variant):
    return '+'.join(''.join(ch for ch in p if not ch.isdigit()) for p in variant.split('+'))


def _pt(m, with_z=False):
    d = dict(x=sym.model_value(m, X), y=sym.model_value(m, Y))
    if with_z: d['z'] = sym.model_value(m, Z)
    return d


def _oracle_column(gd, pt):
    """concrete evaluation of the oracle at a model point (for failure classification only)."""
    hits = [k for k, P in enumerate(gd.polys) if G.winding_contains(P, pt['x'], pt['y'])]
    return hits


def classify_qtree_miss(gd, pt):
    """Failure classification only (names the known design gap apart from
    other quadtree defects): re-derive the leaf the point falls in and test
    whether the column containing the point can be reached at all from the
    leaf's elements over neighbours whose bounding box meets the leaf."""
    hits = _oracle_column(gd, pt)
    if len(hits) != 1: return 'none-but-inside'
    k = hits[0]
    x, y = float(pt['x']), float(pt['y'])
    centre = [(float(c.centre[0]), float(c.centre[1])) for c in gd.cols]
    bbox = [((float(min(p[0] for p in P)), float(min(p[1] for p in P))), (float(max(p[0] for p in P)), float(max(p[1] for p in P)))) for P in gd.polys]
    nbr = [set() for _ in gd.cols]
    for c1, c2 in gd.spec['connections']:
        i, j = gd.index[c1], gd.index[c2]
        nbr[i].add(j); nbr[j].add(i)
    inrect = lambda p, r: r[0][0] <= p[0] <= r[1][0] and r[0][1] <= p[1] <= r[1][1]
    def build(b, elts):
        node = dict(b=b, elts=elts, child=[])
        if len(elts) > 1:
            c = (0.5 * (b[0][0] + b[1][0]), 0.5 * (b[0][1] + b[1][1]))
            rects = [(b[0], c), ((c[0], b[0][1]), (b[1][0], c[1])), ((b[0][0], c[1]), (c[0], b[1][1])), (c, b[1])]
            parts = [[], [], [], []]
            for e in elts:
                for i, r in enumerate(rects):
                    if inrect(centre[e], r): parts[i].append(e); break
            if max(len(p) for p in parts) == len(elts) and b[0] == b[1]: return node
            for r, pe in zip(rects, parts):
                if pe: node['child'].append(build(r, pe))
        return node
    def leaf(node):
        if not inrect((x, y), node['b']): return None
        for ch in node['child']:
            l = leaf(ch)
            if l: return l
        return node
    root = build(((float(gd.xmin), float(gd.ymin)), (float(gd.xmax), float(gd.ymax))), list(range(len(gd.cols))))
    lf = leaf(root)
    if lf is None: return 'none-but-inside'
    meets = lambda i: all(bbox[i][1][d] >= lf['b'][0][d] and lf['b'][1][d] >= bbox[i][0][d] for d in range(2))
    seen = set(lf['elts']); todo = list(lf['elts'])
    while todo:
        e = todo.pop()
        for j in nbr[e]:
            if j not in seen and meets(j): seen.add(j); todo.append(j)
    return 'wave-cannot-reach-containing-column' if k not in seen else 'none-but-inside'


# ---------------------------------------------------------------------------
# tasks

def task_locate(geo, ncols, variant, box, boxid):
    """One aid configuration on one sub-box of the point's bounding box."""
    snorm.install(_load(), ['geometry', 'mulgrids'], zero_check=False)
    gd = GeoData(geo, ncols, need_qtree='qtree' in variant)
    mg = gd.mg
    kw, allowed, guess = variant_kwargs(gd, variant)
    excl = gd.exclusion(box)
    failures, samples, distinct = [], [], set()
    relation = {}
    vclass = variant_class(variant)

    def fail(c, symptom, what, got):
        m = c.failures[-1]['model']
        pt = _pt(m)
        if symptom == 'none-but-inside' and 'qtree' in variant.split('+'):
            symptom = classify_qtree_miss(gd, pt)
        failures.append(dict(key='column_containing_point/%s/%s/%s' % (gd.label, vclass, symptom), what=what,
                             replay=dict(fn='column', geo=geo, ncols=ncols, variant=variant, point=pt,
                                         got=got, oracle=[gd.cols[k].name for k in _oracle_column(gd, pt)])))

    def h(c):
        x = c.real('x', box[0], box[1]); y = c.real('y', box[2], box[3])
        for e in excl: c.add(e)
        if not c.prefix:
            # geometry sanity, once per box: no admissible point lies in two columns
            f = z3.AtMost(*(gd.inside + [1]))
            distinct.add(('unique', f.hash()))
            if c.prove(f, 'at most one column contains the point') == 'sat':
                fail(c, 'two-columns-contain-point', 'oracle: two columns of %s contain one point' % geo, None)
        pos = mg.np.array([x, y])
        r = gd.geo.column_containing_point(pos, **kw)
        if r is None:
            cand = range(len(gd.cols)) if allowed is None else sorted(allowed)
            f = z3.Not(z3.Or(*[gd.inside[k] for k in cand]))
            lab = 'None => no searchable column contains the point'
            distinct.add((lab, f.hash()))
            if c.prove(f, lab) == 'sat':
                fail(c, 'none-but-inside', '%s %s: returned None for a point inside a column' % (geo, variant), None)
            out = 'none'
        else:
            k = gd.index.get(r.name)
            if k is None or gd.cols[k] is not r or (allowed is not None and k not in allowed):
                if c.refute_path('returned object is a searchable column of the geometry') == 'sat':
                    fail(c, 'foreign-column', '%s %s: returned a column outside the search set' % (geo, variant), str(r))
                return 'foreign'
            f = gd.inside[k]
            lab = 'returned column contains the point'
            distinct.add((lab, f.hash()))
            if c.prove(f, lab) == 'sat':
                fail(c, 'wrong-column', '%s %s: returned column %r does not contain the point' % (geo, variant, r.name), r.name)
            if guess is not None:
                g = gd.cols[guess]
                rel = 'right' if r is g else ('neighbour' if r in g.neighbour else 'far')
                relation[rel] = relation.get(rel, 0) + 1
            out = 'col'
        if len(samples) < 1:
            samples.append(dict(task='locate', geo=geo, variant=variant, box=[float(v) for v in box],
                                result=str(r), obligation=lab, path_conditions=len(c.pc)))
        return out

    cpu0 = time.process_time()
    res = sym.explore(h, fastctx.FastCtx(timeout_ms=30000), max_paths=20000)
    CPU['s'] = time.process_time() - cpu0
    return report.summarize('locate/%s/%s/box%s' % (geo, variant, boxid), res, failures, samples,
                            extra=dict(cpu_s=CPU['s'], distinct_obligations=len(distinct), guess_relation=relation,
                                       columns=len(gd.cols), exclusion_lines=len(excl)))


def task_compare(geo, ncols, variants, box, boxid):
    """Several aid configurations in ONE path: results must be the same object."""
    snorm.install(_load(), ['geometry', 'mulgrids'], zero_check=False)
    gd = GeoData(geo, ncols, need_qtree=True)
    mg = gd.mg
    kws = [(v,) + variant_kwargs(gd, v) for v in variants]
    excl = gd.exclusion(box)
    failures, samples, distinct = [], [], set()

    def h(c):
        x = c.real('x', box[0], box[1]); y = c.real('y', box[2], box[3])
        for e in excl: c.add(e)
        pos = mg.np.array([x, y])
        results = []
        for v, kw, allowed, guess in kws:
            results.append(gd.geo.column_containing_point(pos, **kw))
        r0 = results[0]
        f = gd.inside[gd.index[r0.name]] if r0 is not None else z3.Not(z3.Or(*gd.inside))
        distinct.add(('ref', f.hash()))
        if c.prove(f, 'reference (unaided) result agrees with the oracle') == 'sat':
            m = c.failures[-1]['model']; pt = _pt(m)
            failures.append(dict(key='column_containing_point/%s/plain/compare-reference-wrong' % gd.label,
                                 what='unaided search wrong', replay=dict(fn='column', geo=geo, ncols=ncols, variant=variants[0], point=pt,
                                                                          got=str(r0), oracle=[gd.cols[k].name for k in _oracle_column(gd, pt)])))
        for (v, kw, allowed, guess), r in zip(kws[1:], results[1:]):
            same = r is r0
            if allowed is not None and r0 is not None and gd.index[r0.name] not in allowed:
                same = r is None      # the answer is not in the searched subset
            if c.holds(bool(same), 'aid %s returns the same object as the unaided search' % v) == 'sat':
                m = c.failures[-1]['model']; pt = _pt(m)
                failures.append(dict(key='column_containing_point/%s/%s/differs-from-unaided' % (gd.label, variant_class(v)),
                                     what='%s: %s gives %s, unaided search gives %s' % (geo, v, r, r0),
                                     replay=dict(fn='compare', geo=geo, ncols=ncols, variant=v, point=pt, got=str(r),
                                                 oracle=[gd.cols[k].name for k in _oracle_column(gd, pt)])))
        if len(samples) < 1:
            samples.append(dict(task='compare', geo=geo, variants=variants, results=[str(r) for r in results]))
        return 'none' if r0 is None else 'col'

    cpu0 = time.process_time()
    res = sym.explore(h, fastctx.FastCtx(timeout_ms=30000), max_paths=20000)
    CPU['s'] = time.process_time() - cpu0
    return report.summarize('compare/%s/box%s' % (geo, boxid), res, failures, samples,
                            extra=dict(cpu_s=CPU['s'], distinct_obligations=len(distinct), columns=len(gd.cols)))


def task_block(geo, ncols, use_qtree, box, zbox, boxid):
    """block_name_containing_point on a symbolic 3-D point."""
    snorm.install(_load(), ['geometry', 'mulgrids'], zero_check=False)
    gd = GeoData(geo, ncols, need_qtree=use_qtree)
    mg = gd.mg
    excl = gd.exclusion(box) + gd.exclusion_z(zbox)
    failures, samples, distinct = [], [], set()
    def in_block(b):
        return z3.And(gd.inside[b[1]], Z > q(b[3]), Z < q(b[4]))
    blocks = [b for b in gd.blocks if b[4] > zbox[0] and b[3] < zbox[1]]
    none_f = z3.Not(z3.Or(*[in_block(b) for b in blocks])) if blocks else z3.BoolVal(True)

    def fail(c, r):
        m = c.failures[-1]['model']
        pt = _pt(m, True)
        hits = _oracle_column(gd, pt)
        symptom = 'wrong-block'
        if r is not None and len(hits) == 1 and r in gd.blockname:
            b = gd.blockname[r]
            if b[1] == hits[0] and pt['z'] > gd.surf[b[1]] and gd.lbot[b[2]] < pt['z'] < gd.ltop[b[2]]:
                symptom = 'above-surface-inside-surface-layer'
        elif r is None:
            symptom = 'none-but-inside-block'
        key = 'block_name_containing_point/%s' % symptom
        if symptom != 'above-surface-inside-surface-layer': key += '/%s/%s' % (gd.label, 'qtree' if use_qtree else 'plain')
        failures.append(dict(key=key, what='%s: block_name_containing_point gives %r' % (geo, r),
                             replay=dict(fn='block', geo=geo, ncols=ncols, qtree=use_qtree, point=pt, got=r,
                                         oracle=[gd.cols[k].name for k in hits])))

    def h(c):
        x = c.real('x', box[0], box[1]); y = c.real('y', box[2], box[3]); z = c.real('z', zbox[0], zbox[1])
        for e in excl: c.add(e)
        pos = mg.np.array([x, y, z])
        r = gd.geo.block_name_containing_point(pos, qtree=gd.qtree if use_qtree else None)
        if r is None:
            lab = 'None => the point lies in no block'
            distinct.add((lab, none_f.hash()))
            if c.prove(none_f, lab) == 'sat': fail(c, r)
            out = 'none'
        else:
            b = gd.blockname.get(r)
            if b is None:
                if c.refute_path('returned name is a block of the geometry') == 'sat': fail(c, r)
                return 'foreign'
            f = in_block(b)
            lab = 'returned block contains the point'
            distinct.add((lab, f.hash()))
            if c.prove(f, lab) == 'sat': fail(c, r)
            out = 'block'
        if len(samples) < 1:
            samples.append(dict(task='block', geo=geo, qtree=use_qtree, result=r, obligation=lab))
        return out

    cpu0 = time.process_time()
    res = sym.explore(h, fastctx.FastCtx(timeout_ms=30000), max_paths=20000)
    CPU['s'] = time.process_time() - cpu0
    return report.summarize('block/%s/%s/box%s' % (geo, 'qtree' if use_qtree else 'plain', boxid), res, failures, samples,
                            extra=dict(cpu_s=CPU['s'], distinct_obligations=len(distinct), columns=len(gd.cols), blocks=len(blocks)))


# ---------------------------------------------------------------------------
# histories: query -> in-place operation(s) on the SAME geometry object -> query

X1, Y1 = z3.Real('x1'), z3.Real('y1')


class Pristine(object):
    """Snapshot of the attribute dictionaries of a geometry object and of its nodes, columns, layers and
    connections; restore() puts every object back to exactly that state (arrays and containers are copied,
    attributes added since are removed).  The paths of one task must re-execute deterministically, and the
    real code iterates over sets of columns that hash by identity, so a history task keeps ONE object graph
    per task and resets it at the start of every path instead of building new objects."""

    def __init__(self, geo):
        self.objs = [geo] + list(geo.nodelist) + list(geo.columnlist) + list(geo.layerlist) + list(geo.connectionlist)
        self.snap = [dict((k, self._copy(v)) for k, v in o.__dict__.items()) for o in self.objs]

    @staticmethod
    def _copy(v):
        if hasattr(v, 'dtype') and hasattr(v, 'copy'): return v.copy()
        if isinstance(v, list): return list(v)
        if isinstance(v, set): return set(v)
        if isinstance(v, dict): return dict(v)
        return v

    def restore(self):
        for o, sn in zip(self.objs, self.snap):
            o.__dict__.clear()
            o.__dict__.update(dict((k, self._copy(v)) for k, v in sn.items()))


def ops_tag(ops):
    return '.'.join('%s%s' % (op[0][:3], '' if op[0] != 'rotate' else ('c' if len(op) > 2 and op[2] is not None else ''))
                    for op in ops) or 'noop'


def first_box(gd, k):
    """small box around the centre of column k (for the first query of a history)."""
    P = gd.polys[k]
    c = gd.cols[k].centre
    cx, cy = F(float(c[0])), F(float(c[1]))
    w = min(max(p[0] for p in P) - min(p[0] for p in P), max(p[1] for p in P) - min(p[1] for p in P)) / 20
    return (cx - w, cx + w, cy - w, cy + w)


def task_history(geo, ncols, first, firstcol, ops, second, box, boxid, zbox=None):
    """One geometry OBJECT, put back to its freshly built state at the start of every path: first query `first` (aid configuration) with a symbolic point (x1, y1) near the
    centre of column `firstcol`; then the real in-place operations `ops` (rotate / translate, concrete parameters)
    on that same object; then the second query `second` (an aid configuration, or 'block' with a symbolic z) with a
    symbolic point (x, y) anywhere in sub-box `box` of the TRANSFORMED geometry's outer box.  Aids (quadtree, bounds,
    subsets) of each query are built from the object as it is at that moment.  Both answers are decided against the
    half-plane oracle of the node positions a fresh, never-queried object has after the same operations."""
    snorm.install(_load(), ['geometry', 'mulgrids'], zero_check=False)
    gdA = GeoData(geo, ncols, need_qtree=False)
    mg = gdA.mg
    specB = G.spec_after(mg, gdA.spec, ops)
    gdB = GeoData(geo, ncols, need_qtree=False, spec=specB)
    if [c.name for c in gdA.cols] != [c.name for c in gdB.cols]: raise ValueError('column order changed')
    box1 = first_box(gdA, firstcol)
    excl1 = [z3.substitute(e, (X, X1), (Y, Y1)) for e in gdA.exclusion(box1)]
    insideA = [z3.substitute(f, (X, X1), (Y, Y1)) for f in gdA.inside]
    is_block = second == 'block'
    excl2 = gdB.exclusion(box) + (gdB.exclusion_z(zbox) if is_block else [])
    tag = ops_tag(ops)
    failures, samples, distinct = [], [], set()
    def in_block(b):
        return z3.And(gdB.inside[b[1]], Z > q(b[3]), Z < q(b[4]))
    blocks = [b for b in gdB.blocks if b[4] > zbox[0] and b[3] < zbox[1]] if is_block else []
    none_block = z3.Not(z3.Or(*[in_block(b) for b in blocks])) if blocks else z3.BoolVal(True)

    def fail(c, stage, symptom, what, got):
        m = c.failures[-1]['model']
        pt = _pt(m, is_block)
        p1 = dict(x=sym.model_value(m, X1), y=sym.model_value(m, Y1))
        v = first if stage == 'first' else second
        failures.append(dict(key='history/%s/%s/%s/%s-query/%s/%s' % (gdA.label, variant_class(first), tag, stage, variant_class(v), symptom),
                             what=what,
                             replay=dict(fn='history', geo=geo, ncols=ncols, first=first, point1=p1, ops=[list(op) for op in ops],
                                         second=second, point=pt, stage=stage, got=got)))

    def check_column(c, stage, gd, inside, live, r, allowed, variant):
        if r is None:
            cand = range(len(gd.cols)) if allowed is None else sorted(allowed)
            f = z3.Not(z3.Or(*[inside[k] for k in cand]))
            lab = '%s query: None => no searchable column contains the point' % stage
            distinct.add((lab, f.hash()))
            if c.prove(f, lab) == 'sat':
                fail(c, stage, 'none-but-inside', '%s %s, %s query %s: None for a point inside a column' % (geo, tag, stage, variant), None)
            return 'none'
        k = gd.index.get(r.name)
        if k is None or live.cols[k] is not r or (allowed is not None and k not in allowed):
            if c.refute_path('%s query: returned object is a searchable column of the geometry' % stage) == 'sat':
                fail(c, stage, 'foreign-column', '%s %s, %s query %s: column outside the search set' % (geo, tag, stage, variant), str(r))
            return 'foreign'
        f = inside[k]
        lab = '%s query: returned column contains the point' % stage
        distinct.add((lab, f.hash()))
        if c.prove(f, lab) == 'sat':
            fail(c, stage, 'wrong-column', '%s %s, %s query %s: column %r does not contain the point' % (geo, tag, stage, variant, r.name), r.name)
        return 'col'

    obj = G.build(mg, gdA.spec)
    pristine = Pristine(obj)

    def h(c):
        x1 = c.real('x1', box1[0], box1[1]); y1 = c.real('y1', box1[2], box1[3])
        x = c.real('x', box[0], box[1]); y = c.real('y', box[2], box[3])
        z = c.real('z', zbox[0], zbox[1]) if is_block else None
        for e in excl1 + excl2: c.add(e)
        pristine.restore()                              # the history mutates the object: every path starts from the pristine state
        live = Live(obj)
        kw1, allowed1, _ = variant_kwargs(live, first)
        r1 = obj.column_containing_point(mg.np.array([x1, y1]), **kw1)
        check_column(c, 'first', gdA, insideA, live, r1, allowed1, first)
        G.apply_ops(mg, obj, ops)
        live = Live(obj)                                # aids of the second query are built from the object as it is NOW
        if is_block:
            r = obj.block_name_containing_point(mg.np.array([x, y, z]))
            if r is None:
                lab = 'second query: None => the point lies in no block'
                distinct.add((lab, none_block.hash()))
                if c.prove(none_block, lab) == 'sat':
                    fail(c, 'second', 'none-but-inside-block', '%s %s: block_name_containing_point gives None' % (geo, tag), None)
                return 'none'
            b = gdB.blockname.get(r)
            if b is None:
                if c.refute_path('second query: returned name is a block of the geometry') == 'sat':
                    fail(c, 'second', 'wrong-block', '%s %s: block %r' % (geo, tag, r), r)
                return 'foreign'
            f = in_block(b)
            lab = 'second query: returned block contains the point'
            distinct.add((lab, f.hash()))
            if c.prove(f, lab) == 'sat':
                fail(c, 'second', 'wrong-block', '%s %s: block %r does not contain the point' % (geo, tag, r), r)
            return 'block'
        kw2, allowed2, _ = variant_kwargs(live, second)
        r = obj.column_containing_point(mg.np.array([x, y]), **kw2)
        out = check_column(c, 'second', gdB, gdB.inside, live, r, allowed2, second)
        if len(samples) < 1:
            samples.append(dict(task='history', geo=geo, first=first, first_result=str(r1), ops=[list(op) for op in ops], second=second,
                                box=[float(v) for v in box], result=str(r), path_conditions=len(c.pc)))
        return out

    cpu0 = time.process_time()
    res = sym.explore(h, fastctx.FastCtx(timeout_ms=30000), max_paths=20000)
    CPU['s'] = time.process_time() - cpu0
    return report.summarize('history/%s/%s>%s>%s/box%s' % (geo, first, tag, second, boxid), res, failures, samples,
                            extra=dict(cpu_s=CPU['s'], distinct_obligations=len(distinct), columns=len(gdA.cols)))


def history_plan(tier):
    """(geo, ncols, first aid configuration, column the first point is near, operations, second query, nx, ny)"""
    R37 = [('rotate', 37.0)]
    RC = [('rotate', -20.0, [1.0, 1.0])]
    T = [('translate', [7.0, -13.0, 5.0])]
    quick = [
        ('rect33', None, 'plain', 4, R37, 'plain', 2, 2),
        ('rect33', None, 'plain', 0, T, 'guess4', 2, 2),
        ('rect33', None, 'guess2', 8, [], 'plain', 2, 2),
        ('rect33', None, 'plain', 7, T, 'block', 2, 2),
        ('mix5', None, 'plain', 2, RC, 'guess3', 2, 2),
        ('mix5', None, 'plain', 4, R37, 'sqtree:odd+cols:odd', 2, 2),
    ]
    if tier == 'quick': return quick
    return quick + [
        ('rect33', None, 'plain', 4, R37, 'qtree', 2, 2),
        ('rect33', None, 'qtree', 4, R37, 'guess0', 2, 2),
        ('rect33', None, 'plain', 1, R37 + R37, 'plain', 2, 2),
        ('rect33', None, 'cols:even', 2, RC, 'cols:odd+guess3+brect', 2, 2),
        ('rect33', None, 'plain', 5, R37, 'block', 2, 2),
        ('rect33', None, 'plain', 7, T + RC, 'block', 2, 2),
        ('rect33', None, 'plain', 3, T, 'bpoly', 2, 2),
        ('mix5', None, 'qtree', 0, RC + T, 'plain', 2, 2),
        ('mix5', None, 'guess1', 3, R37, 'bpoly', 2, 2),
        ('mix5', None, 'plain', 1, RC, 'block', 2, 2),
        ('rot37', None, 'plain', 4, RC, 'plain', 3, 3),
        ('g7sub', 10, 'plain', 0, R37, 'plain', 3, 3),
        ('g7sub', 10, 'qtree', 5, T, 'qtree', 3, 3),
    ]


# ---------------------------------------------------------------------------

GUESS_ALL = 'ALL'

def plan(tier):
    """per geometry: sub-box grid, aid configurations, compare list, block (z-slices, [use quadtree?])"""
    if tier == 'quick':
        return [
            dict(geo='rect33', ncols=None, nx=2, ny=2,
                 variants=['plain', 'qtree', 'brect', 'bpoly', 'guess0', 'guess4', 'guess8', 'cols:even', 'qtree+guess2', 'cols:odd+guess3+brect',
                           # quadtrees built over a column SUBSET: alone, with the subset as column list, with a guess
                           'sqtree:firsthalf', 'sqtree:odd+cols:odd', 'sqtree:lasthalf+guess0'],
                 compare=['plain', 'qtree', 'guess6', 'bpoly', 'cols:firsthalf', 'sqtree:even+cols:even'], block=(2, [False, True])),
            dict(geo='mix5', ncols=None, nx=2, ny=2,
                 variants=['plain', 'qtree', 'brect', 'bpoly', 'guess0', 'guess3', 'guess4', 'cols:odd'] +
                          # a guess together with a column subset that leaves out some of the guess's neighbours
                          # (overlapping bounding boxes on this mesh): every guess x even/odd subset
                          ['cols:%s+guess%d' % (t, g) for g in range(5) for t in ('even', 'odd')] +
                          ['sqtree:even', 'sqtree:lasthalf+cols:lasthalf+guess0'],
                 compare=['plain', 'qtree', 'guess1', 'brect'], block=(2, [False, True])),
            dict(geo='rot37', ncols=None, nx=3, ny=3, variants=['plain', 'qtree', 'guess4'], compare=None, block=None),
            dict(geo='g7sub', ncols=10, nx=3, ny=3, variants=['plain', 'qtree', 'sqtree:firsthalf'], compare=None, block=None),
            # gently curved outer boundary: the boundary polygon as bounding polygon, alone and with other aids
            dict(geo='g2arc', ncols=8, nx=2, ny=2, variants=['bpoly', 'bpoly+guess5'], compare=None, block=None),
        ]
    return [
        dict(geo='rect33', ncols=None, nx=2, ny=2,
             variants=['plain', 'qtree', 'brect', 'bpoly', GUESS_ALL, 'cols:even', 'cols:odd', 'cols:lasthalf', 'qtree+guess2', 'qtree+guess7',
                       'cols:odd+guess3+brect', 'cols:even+guess4+bpoly',
                       'sqtree:firsthalf', 'sqtree:lasthalf', 'sqtree:even', 'sqtree:odd+cols:odd', 'sqtree:lasthalf+guess0', 'sqtree:firsthalf+cols:firsthalf+guess8',
                       'sqtree:odd+brect'],
             compare=['plain', 'qtree', 'guess6', 'bpoly', 'cols:firsthalf', 'brect', 'sqtree:even+cols:even'], block=(3, [False, True])),
        dict(geo='mix5', ncols=None, nx=2, ny=2,
             variants=['plain', 'qtree', 'brect', 'bpoly', GUESS_ALL, 'cols:odd', 'cols:even', 'qtree+guess1', 'cols:even+guess2+brect'] +
                      ['cols:%s+guess%d' % (t, g) for g in range(5) for t in ('even', 'odd', 'firsthalf', 'lasthalf')] +
                      ['sqtree:even', 'sqtree:odd', 'sqtree:firsthalf', 'sqtree:lasthalf+cols:lasthalf+guess0', 'sqtree:odd+guess2'],
             compare=['plain', 'qtree', 'guess1', 'brect', 'bpoly', 'sqtree:firsthalf'], block=(3, [False, True])),
        dict(geo='rot37', ncols=None, nx=4, ny=4,
             variants=['plain', 'qtree', 'brect', 'bpoly', GUESS_ALL, 'cols:even', 'cols:odd', 'qtree+guess0',
                       'sqtree:firsthalf', 'sqtree:lasthalf', 'sqtree:even+cols:even'],
             compare=['plain', 'qtree', 'guess8'], block=(2, [False, True])),
        dict(geo='g7sub', ncols=16, nx=4, ny=4,
             variants=['plain', 'qtree', 'brect', 'bnodes', 'guess0', 'guess9', 'cols:even', 'qtree+guess12', 'sqtree:firsthalf', 'sqtree:lasthalf+cols:lasthalf'] +
                      ['cols:%s+guess%d' % (t, g) for g in (0, 3, 5, 9, 12) for t in ('even', 'odd')],
             compare=None, block=(1, [True])),
        dict(geo='g2sub', ncols=12, nx=4, ny=4,
             variants=['plain', 'qtree', 'bnodes', 'guess0', 'guess6', 'cols:even', 'sqtree:firsthalf'],
             compare=None, block=(3, [False], 'surface')),
        dict(geo='g5sub', ncols=12, nx=4, ny=4,
             variants=['plain', 'qtree', 'bnodes', 'guess7', 'sqtree:lasthalf'],
             compare=None, block=None),
        dict(geo='g2arc', ncols=10, nx=3, ny=3,
             variants=['plain', 'bpoly', 'bpoly+guess6', 'bpoly+qtree', 'brect'],
             compare=['plain', 'bpoly', 'bnodes'], block=None),
    ]


def run(tier, seed, rep):
    _load(); _real()
    tasks = []
    geos = []
    nconf = 0
    import os
    only = os.environ.get('C12_ONLY')
    for p in plan(tier):
        if only and p['geo'] not in only.split(','): continue
        _spec(p['geo'], p['ncols'])
        gd = GeoData(p['geo'], p['ncols'], need_qtree=False)
        areas = sorted(abs(sum(P[i][0] * P[(i + 1) % len(P)][1] - P[(i + 1) % len(P)][0] * P[i][1] for i in range(len(P)))) / 2 for P in gd.polys)
        geos.append('%s: %d columns (%s nodes each), %d layers, column areas %.3g..%.3g, tau=%.3g, tau_z=%.3g' % (
            gd.label, len(gd.cols), '/'.join(str(k) for k in sorted(set(len(P) for P in gd.polys))), len(gd.lbot) - 1,
            float(areas[0]), float(areas[-1]), float(gd.tau), float(gd.tauz)))
        variants = []
        for v in p['variants']:
            if v == GUESS_ALL: variants += ['guess%d' % i for i in range(len(gd.cols))]
            else: variants.append(v)
        nconf += len(variants)
        boxes = split_boxes(gd, p['nx'], p['ny'])
        for bi, box in enumerate(boxes):
            for v in variants:
                tasks.append((task_locate, dict(geo=p['geo'], ncols=p['ncols'], variant=v, box=box, boxid=bi)))
            if p.get('compare'):
                tasks.append((task_compare, dict(geo=p['geo'], ncols=p['ncols'], variants=p['compare'], box=box, boxid=bi)))
            if p.get('block'):
                nz, qts = p['block'][:2]
                zone = p['block'][2] if len(p['block']) > 2 else 'all'
                for zi, zbox in enumerate(split_z(gd, nz, zone)):
                    for uq in qts:
                        tasks.append((task_block, dict(geo=p['geo'], ncols=p['ncols'], use_qtree=uq, box=box, zbox=zbox, boxid='%d.%d' % (bi, zi))))
    nhist = 0
    for (hg, hn, first, fcol, ops, second, nx, ny) in history_plan(tier):
        if only and 'history' not in only.split(',') and hg not in only.split(','): continue
        gdA = GeoData(hg, hn, need_qtree=False)
        gdB = GeoData(hg, hn, need_qtree=False, spec=G.spec_after(gdA.mg, gdA.spec, ops))
        nhist += 1
        for bi, box in enumerate(split_boxes(gdB, nx, ny)):
            tasks.append((task_history, dict(geo=hg, ncols=hn, first=first, firstcol=fcol, ops=ops, second=second, box=box, boxid=bi,
                                             zbox=gdB.outer_z() if second == 'block' else None)))
    if tier == 'thorough' and (not only or 'track' in only.split(',')):
        tasks += track_tasks()
    if not only or 'otrack' in only.split(','):
        tasks += otrack_tasks(tier)
    if seed:
        import random
        random.Random(seed).shuffle(tasks)
    # longest first is not known in advance; the pool hands tasks out one by one
    results = report.run_tasks(tasks)
    rep.add_results(results)
    reached = {}
    for r in results:
        if r.get('error'): continue
        fam = r['name'].split('/box')[0]
        ok = any(k in r.get('outcomes', {}) for k in ('col', 'none', 'block', 'track'))
        reached[fam] = reached.get(fam, False) or ok
    for fam, ok in sorted(reached.items()):
        if not ok: rep.harness_error('%s: no path reached an obligation (vacuous)' % fam)
    fam_cpu = {}
    for r in results:
        if r.get('error'): continue
        fam = '/'.join(r['name'].split('/')[:2])
        a = fam_cpu.setdefault(fam, dict(tasks=0, paths=0, cpu_s=0.0, max_task_cpu_s=0.0))
        a['tasks'] += 1; a['paths'] += r['stats'].get('paths', 0)
        a['cpu_s'] = round(a['cpu_s'] + r['extra'].get('cpu_s', 0.0), 1)
        a['max_task_cpu_s'] = round(max(a['max_task_cpu_s'], r['extra'].get('cpu_s', 0.0)), 1)
    rep.extra['cpu_by_family'] = fam_cpu
    rel = {}
    for r in results:
        for k, v in (r.get('extra', {}).get('guess_relation') or {}).items(): rel[k] = rel.get(k, 0) + v
    rep.extra['guess_relation_paths'] = rel
    if not only and not all(k in rel for k in ('right', 'neighbour', 'far')):
        rep.harness_error('guess classes not all reached: %r' % rel)
    rep.bounds += ['geometries are CONCRETE: ' + '; '.join(geos),
                   'point (x, y): any real point of the geometry\'s bounding box enlarged by 10 %% on each side (cut into sub-boxes that together cover it), '
                   'farther than tau = 1e-6 * (larger side of the bounding box) from every column edge LINE',
                   'elevation z: any real in [lowest layer bottom - 10 % (g2sub: from the third layer bottom below the lowest surface), max(top, highest surface) + 10 %], farther than tau_z = 1e-6 * height from every layer boundary and every column surface',
                   '%d aid configurations in total: none / quadtree / bounding rectangle / boundary polygon / guess (quick: 3 per geometry; thorough: EVERY column of rect33, rot37, mix5 as guess) / '
                   'column subsets / quadtrees built over a column subset with mulgrid.column_quadtree(columns) (alone, with the subset as column list, with a guess, with bounds) / combinations' % nconf,
                   '%d histories on ONE geometry object: first query (aid configuration; symbolic point (x1, y1) within 5 %% of the column size of a named column centre) -> '
                   'real in-place rotate(angle[, centre]) / translate(shift) / both / nothing, with CONCRETE parameters (37 deg about the grid centre, -20 deg about (1, 1), shift (7, -13, 5)) -> '
                   'second query (aid configuration built from the object as it is then, or block_name_containing_point with symbolic z) with a symbolic point anywhere in the '
                   '10 %%-enlarged bounding box of the transformed geometry; both answers decided against the oracle of the node positions after the operations' % nhist]
    rep.bounds += ['column_track, OBLIQUE lines (both tiers): %d families (geometry x direction x end-point shape) on rect22, rect31, rect3c (columns 1x2 .. 100x20 side by side), '
                   'notch3 (an L-shaped NON-CONVEX column with a square column in its notch and a pentagon) and mix5: direction concrete with integer components and integer length '
                   '((3,4), (-4,3), (5,12), (12,-5) ...), length concrete, line family P0 = A + o*N, P1 = P0 + L*D with the offset o SYMBOLIC over a range that sweeps the line across the '
                   'whole geometry and beyond on both sides; end-point shapes: both ends outside the bounding box / start (end) sweeping across the geometry along the normal through the '
                   'centre of the box with the other end outside / both ends inside (short segment).  End points farther than tau from every edge line; lines not along an edge.  '
                   'Obligations per path (an interval of offsets): every listed segment has entry and exit on the line (1e-6 of the smallest column side + 1e-8 of the line length slack) '
                   'and the line is inside the listed column (convex pieces, half-planes) all the way between them; segments ordered by distance from the start, no two overlap; for every '
                   'column the listed length equals the length of the line inside it up to (number of convex pieces) clips of at most 1e-3 of its longest side; a convex column is listed at most once.  '
                   'Non-convex columns only: a segment may span a notch clip shorter than 1e-3 of the column diameter.' % len(otrack_plan(tier))]
    rep.assumptions += ['oblique track tasks: stub norm(v) = |v . D| / |D| for a symbolic vector that the solver proves parallel to the concrete line direction D on the path (|D| integer); '
                        'the 2x2 Cramer solve of the engine with its results expanded to sums of monomials (same values, syntactically linear in the offset); '
                        'round-half-even via ToInt and np.unique(return_index) as for the axis-parallel track tasks',
                        'oblique track oracle: length of the line inside a column = sum over its convex pieces (the polygon itself, or its ear-clipping triangles) of the '
                        'interval cut out by the half-planes of the piece']
    rep.outside += ['symbolic geometries (node positions are concrete numbers; only the point is symbolic)',
                    'points within tau of an edge line, elevations within tau_z of a layer boundary or surface (the quantifier excludes them)',
                    'full shipped geometries (sub-meshes of g2, g5, g7 cut by breadth-first neighbourhood + real reduce())',
                    'IEEE rounding inside in_polygon / norm (exact real arithmetic over the exact values of the float coordinates)',
                    'wells, blockmap argument, naming conventions other than 0',
                    'histories: symbolic rotation angles / shifts (parameters of the operations are concrete); operations other than rotate / translate between two queries '
                    '(refine, node moves, column deletion); a quadtree or bounding polygon BUILT BEFORE an operation and used after it (stale by construction: the caller must rebuild it); '
                    'column_track after an operation (rotated columns are not axis-parallel)',
                    'subset quadtrees as built internally by fit_columns / fit_surface (only column_quadtree(columns) handed to column_containing_point is checked)'] + TRACK_OUTSIDE
    rep.assumptions += ['point farther than tau from every edge line (encoded as |a x + b y + c| > tau * N with N a rational upper bound of |(a,b)|)',
                        'stub: norm() of a symbolic vector is kept as its square, two norms are compared through their squares (vx/snorm.py; sqrt is monotone)',
                        'oracle: a column contains a point iff the point satisfies all half-planes of the (convex) column polygon, or of one ear-clipping triangle for a non-convex one',
                        'oracle: block (layer l, column k) exists iff surface_k > bottom_l and spans bottom_l .. min(top_l, surface_k), the top layer\'s block reaching up to a surface above the top',
                        'set iteration order inside the real code (neighbour sets) varies between processes, so path counts may differ slightly from run to run; verdicts do not',
                        'histories: one object graph per task, reset at the start of every path by restoring the attribute dictionaries of the geometry, its nodes, columns, layers and '
                        'connections to their freshly built state (arrays/containers copied, attributes added since removed) - equivalent to building a new object, but keeps object '
                        'identities (set iteration order) the same on every path; the first point stays near one column centre so that the path count is (few) x (paths of the second query)',
                        'oracle of a subset-quadtree search: the column containing the point if it is one of the columns the quadtree was built over (or the guess / a neighbour of the guess '
                        'inside the column list), else None']
    rep.trusted += ['harness/c12_geos.py builder (assembles a geometry the way mulgrid.read() does) and the exact oracle formulas in harness/C12.py']
    rep.functions.update(['mulgrids.py:mulgrid.column_containing_point', 'mulgrids.py:quadtree.search', 'mulgrids.py:quadtree.leaf',
                          'mulgrids.py:quadtree.search_wave', 'mulgrids.py:column.contains_point', 'mulgrids.py:column.near_point',
                          'geometry.py:in_polygon', 'geometry.py:in_rectangle', 'geometry.py:rectangles_intersect',
                          'mulgrids.py:mulgrid.block_name_containing_point', 'mulgrids.py:mulgrid.layer_containing_elevation',
                          'mulgrids.py:mulgrid.column_quadtree', 'mulgrids.py:mulgrid.column_bounds', 'mulgrids.py:mulgrid.rotate', 'mulgrids.py:mulgrid.translate',
                          'mulgrids.py:column.get_bounding_box', 'mulgrids.py:mulgrid.column_track', 'geometry.py:line_polygon_intersections',
                          'geometry.py:line_intersects_rectangle', 'geometry.py:simplify_polygon', 'mulgrids.py:mulgrid.get_boundary_polygon'])
    rep.process_failures()
    return rep.finish(rule='one obligation per (geometry, aid configuration or query/operation/query history, sub-box, path): pc AND NOT(oracle agrees) must be unsat; '
                           'a path is one cell of the arrangement of the hyperplanes the real code compares the point against; '
                           'distinct = distinct formulas by z3 AST hash per task')


# ---------------------------------------------------------------------------
# column_track (thorough tier): axis-parallel lines on tiny rectangular grids

TRACK_OUTSIDE = ['column_track for lines with SYMBOLIC direction or length (4 symbolic end-point coordinates: Cramer quotients under sqrt and '
                 '3-decimal rounding gave z3 "unknown" on most branch queries: 72 of 200 in 8 paths / 776 s); oblique lines are checked for concrete '
                 'Pythagorean directions and concrete lengths with a symbolic offset only (see bounds); directions with an irrational length (45 degrees)',
                 'column_track on geometries other than rect22 / rect31 (axis-parallel, symbolic end points) and rect22 / rect31 / rect3c / notch3 / mix5 (oblique); '
                 'geometries whose coordinates are not small dyadic numbers (the concrete parts of the crossing computation are then rounded in floating point '
                 'and a crossing point is no longer exactly on the line, which the direction-norm stub needs)',
                 'column_track: columns more than 1000 times longer than wide crossed over their full width (shorter than 1e-3 of their longest side: dropped by the '
                 'same length rule as corner clips); columns with 6 or more nodes whose diameter exceeds twice the longest side (duplicate merging threshold 5e-4 x '
                 'diameter could exceed the 1e-3 x longest side allowance) - none in the catalogue']


def _install_track_stubs(ld):
    """round-half-even of a symbolic real for ndarray.round (numpy calls x.rint()), and
    np.unique(..., return_index=True) on symbolic data.  Local to this check."""
    import numpy as _np
    from vx import npshim
    def _rint(self):
        f = z3.ToInt(self.e + z3.RealVal('1/2'))
        tie = z3.ToReal(f) == self.e + z3.RealVal('1/2')
        return sym.SReal(z3.ToReal(z3.If(z3.And(tie, f % 2 != 0), f - 1, f)))
    sym.SReal.rint = _rint
    def unique(a, *args, **kw):
        if npshim._has_sym(a) and not args and list(kw.keys()) == ['return_index'] and kw['return_index']:
            npshim._hit('np.unique(return_index=True)')
            arr = _np.asarray(a, dtype=object).ravel()
            vals, idx = [], []
            for i in npshim.argsort(arr):          # stable: the first of equal values has the smallest index
                if vals and bool(arr[i] == vals[-1]): continue
                vals.append(arr[i]); idx.append(int(i))
            return _np.array(vals, dtype=object), _np.array(idx)
        return npshim.unique(a, *args, **kw)
    ld.geometry.np.unique = unique


def task_track(geo, orient, obox, sbox, boxid):
    """orient 'h': line (s, o) -> (e, o); 'v': line (o, s) -> (o, e).  o in obox, s in sbox, e anywhere in the outer box."""
    ld = _load()
    _install_track_stubs(ld)
    snorm.install(ld, ['geometry', 'mulgrids'], zero_check=True)
    gd = GeoData(geo, None, need_qtree=False)
    mg = gd.mg
    ax = 0 if orient == 'h' else 1          # axis along the line
    ox = 1 - ax
    outer = gd.outer_box()
    arange = (outer[0], outer[1]) if ax == 0 else (outer[2], outer[3])
    rects = []
    for P in gd.polys:
        lo = (min(p[0] for p in P), min(p[1] for p in P)); hi = (max(p[0] for p in P), max(p[1] for p in P))
        rects.append((lo, hi, max(hi[0] - lo[0], hi[1] - lo[1]) * F(1e-3)))   # exact value of the float constant 1e-3 in column_track
    olines = sorted(set([r[0][ox] for r in rects] + [r[1][ox] for r in rects]))
    failures, samples, distinct = [], [], set()
    O, S, Ee = z3.Real('o'), z3.Real('s'), z3.Real('e')
    zmin = lambda a, b: z3.If(a <= b, a, b)
    zmax = lambda a, b: z3.If(a >= b, a, b)
    lo_, hi_ = zmin(S, Ee), zmax(S, Ee)
    def length(k):
        lo, hi, tol = rects[k]
        ov = zmin(q(hi[ax]), hi_) - zmax(q(lo[ax]), lo_)
        return z3.If(z3.And(O > q(lo[ox]), O < q(hi[ox]), ov > 0), ov, z3.RealVal(0))
    lens = [length(k) for k in range(len(rects))]

    def fail(c, sub, what):
        m = c.failures[-1]['model']
        vals = dict(o=sym.model_value(m, O), s=sym.model_value(m, S), e=sym.model_value(m, Ee))
        failures.append(dict(key='column_track/%s/%s/%s' % (geo, orient, sub), what='%s %s: %s' % (geo, orient, what),
                             replay=dict(fn='track', geo=geo, orient=orient, line=vals)))

    def h(c):
        o = c.real('o', obox[0], obox[1]); s0 = c.real('s', sbox[0], sbox[1]); e0 = c.real('e', arange[0], arange[1])
        for lv in olines:                      # the line does not run along a column edge
            c.add(z3.Or(O > q(lv + gd.tau), O < q(lv - gd.tau)))
        c.add(S != Ee)
        p0 = [None, None]; p1 = [None, None]
        p0[ax], p0[ox], p1[ax], p1[ox] = s0, o, e0, o
        line = [mg.np.array(p0), mg.np.array(p1)]
        try:
            track = gd.geo.column_track(line)
        except Exception as ex:
            if c.refute_path('column_track raises no exception') == 'sat':
                fail(c, type(ex).__name__, 'raised %s: %s' % (type(ex).__name__, ex))
            return 'raised'
        listed = []
        ok_struct = True
        for col, pin, pout in track:
            k = gd.index.get(col.name)
            if k is None or k in listed: ok_struct = False
            else: listed.append(k)
        if c.holds(ok_struct, 'track lists columns of the geometry, each at most once') == 'sat':
            fail(c, 'structure', 'track %r' % [t[0].name for t in track]); return 'track'
        for (col, pin, pout), k in zip(track, listed):
            lo, hi, tol = rects[k]
            ent = z3.If(S <= Ee, zmax(q(lo[ax]), S), zmin(q(hi[ax]), S))
            ext = z3.If(S <= Ee, zmin(q(hi[ax]), Ee), zmax(q(lo[ax]), Ee))
            f1 = z3.And(lens[k] > 0, sym.lift_real(pin[ox]) == O, sym.lift_real(pout[ox]) == O,
                        sym.lift_real(pin[ax]) == ent, sym.lift_real(pout[ax]) == ext)
            distinct.add(('seg', z3.simplify(f1).hash()))
            if c.prove(f1, 'listed column is crossed; entry and exit are the clip points on the line') == 'sat':
                fail(c, 'segment', 'track %r' % [(t[0].name, str(t[1]), str(t[2])) for t in track][:3])
        unl = [k for k in range(len(rects)) if k not in listed]
        for k in unl:
            f2 = lens[k] <= q(rects[k][2])
            distinct.add(('missing', z3.simplify(f2).hash()))
            if c.prove(f2, 'unlisted column is crossed by at most 1e-3 of its longest side') == 'sat':
                fail(c, 'column-missing', 'track %r omits crossed column %r' % ([t[0].name for t in track], gd.cols[k].name))
        zab = lambda e: z3.If(e >= 0, e, -e)
        gap = z3.Sum(*([lens[k] for k in unl] + [z3.RealVal(0)]))
        for i in range(len(track) - 1):
            a_out, b_in = sym.lift_real(track[i][2][ax]), sym.lift_real(track[i + 1][1][ax])
            f3 = z3.And(zab(sym.lift_real(track[i][1][ax]) - S) <= zab(b_in - S), zab(a_out - b_in) <= gap)
            distinct.add(('order', z3.simplify(f3).hash()))
            if c.prove(f3, 'ordered along the line; consecutive segments abut (up to dropped clips)') == 'sat':
                fail(c, 'order-or-length', 'track %r' % [t[0].name for t in track])
        total = z3.Sum(*(lens + [z3.RealVal(0)]))
        got = z3.Sum(*([zab(sym.lift_real(t[2][ax]) - sym.lift_real(t[1][ax])) for t in track] + [z3.RealVal(0)]))
        f4 = got + gap == total
        distinct.add(('length', z3.simplify(f4).hash()))
        if c.prove(f4, 'segment lengths add up to the length of the line inside the domain (minus dropped clips)') == 'sat':
            fail(c, 'order-or-length', 'track %r' % [t[0].name for t in track])
        if len(samples) < 1 and track:
            samples.append(dict(task='track', geo=geo, orient=orient, track=[(t[0].name, str(t[1])[:60], str(t[2])[:60]) for t in track]))
        return 'track'

    cpu0 = time.process_time()
    res = sym.explore(h, fastctx.FastCtx(timeout_ms=20000), max_paths=5000)
    CPU['s'] = time.process_time() - cpu0
    return report.summarize('track/%s/%s/box%s' % (geo, orient, boxid), res, failures, samples,
                            extra=dict(cpu_s=CPU['s'], distinct_obligations=len(distinct)))


def track_tasks():
    tasks = []
    for geo in ('rect22', 'rect31'):
        gd = GeoData(geo, None, need_qtree=False)
        outer = gd.outer_box()
        for orient in ('h', 'v'):
            ax = 0 if orient == 'h' else 1
            oco = gd.nodey if orient == 'h' else gd.nodex
            sco = gd.nodex if orient == 'h' else gd.nodey
            orng = (outer[2], outer[3]) if orient == 'h' else (outer[0], outer[1])
            srng = (outer[0], outer[1]) if orient == 'h' else (outer[2], outer[3])
            ocuts = [orng[0]] + list(oco) + [orng[1]]
            # (also lines that start far outside the grid: up to a million grid widths before it)
            far = srng[0] - (srng[1] - srng[0]) * 10 ** 4
            scuts = ([far] if geo == 'rect31' else []) + [srng[0]] + list(sco) + [srng[1]]
            for i in range(len(ocuts) - 1):
                for j in range(len(scuts) - 1):
                    tasks.append((task_track, dict(geo=geo, orient=orient, obox=(ocuts[i], ocuts[i + 1]), sbox=(scuts[j], scuts[j + 1]),
                                                   boxid='%d.%d' % (i, j))))
    return tasks


# ---------------------------------------------------------------------------
# column_track for OBLIQUE lines: concrete direction with integer components and integer length (3-4-5, 5-12-13 ...),
# concrete length, SYMBOLIC offset across the line direction.  Everything the real code computes is then piecewise
# linear in the one symbol, so every path is an interval of offsets between two events (line through a node, a crossing
# distance passing a rounding threshold, an end point crossing an edge ...).

def convex_pieces(P):
    """P (exact vertices) -> list of convex counter-clockwise polygons with disjoint interiors whose union is P."""
    n = len(P)
    area2 = sum(P[i][0] * P[(i + 1) % n][1] - P[(i + 1) % n][0] * P[i][1] for i in range(n))
    if area2 < 0: P = P[::-1]
    if all(_cross(P[i], P[(i + 1) % n], P[(i + 2) % n]) >= 0 for i in range(n)): return [list(P)]
    return [list(t) for t in _earclip(P)]


def _isqrt_exact(v):
    r = math.isqrt(int(v))
    if r * r != v: raise ValueError('direction must have an integer length')
    return r


OB_SHAPES = ('through', 'startin', 'endin', 'bothin')


def oblique_config(gd, D, shape):
    """Line family  P0(o) = A + o * N,  P1(o) = P0(o) + L * D  with N = (-Dy, Dx) and concrete A, L:
    through: both ends outside the bounding box; startin / endin: that end sweeps across the geometry along N through
    the centre of the bounding box, the other end is outside; bothin: a short segment around that transversal."""
    dx, dy = D
    nD = _isqrt_exact(dx * dx + dy * dy)
    C = ((gd.xmin + gd.xmax) / 2, (gd.ymin + gd.ymax) / 2)
    R = (gd.xmax - gd.xmin) + (gd.ymax - gd.ymin)            # >= the diagonal
    M = F(-((-R) // nD))                                      # integer, M * |D| >= R
    if shape == 'through': A, L = (C[0] - M * dx, C[1] - M * dy), 2 * M
    elif shape == 'startin': A, L = C, M
    elif shape == 'endin': A, L = (C[0] - M * dx, C[1] - M * dy), M
    elif shape == 'bothin': A, L = (C[0] - M * dx / 8, C[1] - M * dy / 8), M / 4
    else: raise KeyError(shape)
    omax = R * F(3, 5) / nD                              # offsets |o| * |N| up to 0.6 R: some lines miss the geometry
    return dict(D=(F(dx), F(dy)), N=(F(-dy), F(dx)), nD=F(nD), A=A, L=F(L), orange=(-omax, omax))


def oblique_cuts(gd, cfg, nseg):
    """cut the offset range at quantiles of the offsets at which the line passes through a node"""
    A, N = cfg['A'], cfg['N']
    nn = N[0] * N[0] + N[1] * N[1]
    lo, hi = cfg['orange']
    ev = sorted(set(((x - A[0]) * N[0] + (y - A[1]) * N[1]) / nn for P in gd.polys for (x, y) in P))
    ev = [v for v in ev if lo < v < hi]
    cs = []
    for j in range(1, nseg):
        v = ev[min(len(ev) - 1, (j * len(ev)) // nseg)]
        if v not in cs: cs.append(v)
    cz = [lo] + sorted(cs) + [hi]
    return [(cz[i], cz[i + 1]) for i in range(len(cz) - 1)]


def _install_dir_norm(ld, D, nD):
    """norm() for the oblique track tasks: a symbolic vector the solver shows to be parallel to the (concrete) line
    direction D on this path has the norm |v . D| / |D| exactly (|D| is an integer); anything else falls back to
    snorm (square kept, zero components dropped)."""
    dx, dy, nd = int(D[0]), int(D[1]), int(nD)
    from vx import npshim
    import numpy as _np
    def norm_dir(x, *a, **kw):
        if not a and not kw and npshim._has_sym(x):
            arr = _np.asarray(x, dtype=object).ravel()
            if len(arr) == 2:
                c = sym.ctx()
                cr = arr[0] * dy - arr[1] * dx
                par = False
                if not isinstance(cr, sym.SReal): par = (cr == 0)
                else:
                    e = z3.simplify(cr.e, som=True)
                    nv = sym.numeral_value(e)
                    if nv is not None: par = (nv == 0)
                    else:
                        r, _ = c.solve(e != 0)
                        par = (r == 'unsat')
                if par:
                    npshim._hit('np.linalg.norm (vector parallel to the concrete line direction by solver lemma: |v.D|/|D|)')
                    dot = arr[0] * dx + arr[1] * dy
                    if not isinstance(dot, sym.SReal): dot = sym.SReal(sym.lift_real(dot))
                    return abs(sym.SReal(z3.simplify(dot.e, som=True))) / nd
        return snorm.norm_zc(x, *a, **kw)
    for m in ('geometry', 'mulgrids'):
        getattr(ld, m).__dict__['norm'] = norm_dir
    def solve_som(Am, b):
        # the engine's 2x2 Cramer solve, with the results expanded to sums of monomials (the matrix is constant on these
        # tasks although built from symbolic differences, so the solution becomes syntactically LINEAR in the offset)
        r = npshim.solve(Am, b)
        out = _np.empty(len(r), dtype=object)
        for i, v in enumerate(r):
            out[i] = sym.SReal(z3.simplify(v.e, som=True)) if isinstance(v, sym.SReal) else v
        return out
    if 'solve' in ld.geometry.__dict__: ld.geometry.__dict__['solve'] = solve_som


def task_otrack(geo, D, shape, orng, boxid):
    ld = _load()
    _install_track_stubs(ld)
    gd = GeoData(geo, None, need_qtree=False)
    cfg = oblique_config(gd, D, shape)
    _install_dir_norm(ld, D, cfg['nD'])
    mg = gd.mg
    (dx, dy), (nx, ny), nD, A, L = cfg['D'], cfg['N'], cfg['nD'], cfg['A'], cfg['L']
    Len = L * nD                                              # length of the line
    O = z3.Real('o')
    P0 = (q(A[0]) + O * q(nx), q(A[1]) + O * q(ny))
    zmin = lambda a, b: z3.If(a <= b, a, b)
    zmax = lambda a, b: z3.If(a >= b, a, b)
    zab = lambda e: z3.If(e >= 0, e, -e)
    ZERO = z3.RealVal(0)
    pieces = [convex_pieces(P) for P in gd.polys]
    sides = []
    for P in gd.polys:
        sides.append([F(math.sqrt(float((P[i][0] - P[(i + 1) % len(P)][0]) ** 2 + (P[i][1] - P[(i + 1) % len(P)][1]) ** 2))) for i in range(len(P))])
    minside = min(min(s) for s in sides)
    eps = minside / 10 ** 6 + Len / 10 ** 8                   # slack on positions (the code accepts crossings 1e-9 beyond edge / line ends)
    tolk = [max(s) * F(1e-3) * (1 + F(1, 10 ** 9)) for s in sides]     # column_track: clips up to 1e-3 of the longest side are dropped
    # NON-CONVEX columns only: a segment may span a clip of the notch at a reflex corner (the crossings either side of it are
    # merged as duplicates) if that clip is shorter than 1e-3 of the column's diameter; 0 for convex columns
    def _diam(P): return F(math.sqrt(float(max((a[0] - b[0]) ** 2 + (a[1] - b[1]) ** 2 for a in P for b in P))))
    notchk = [(len(pieces[k]) - 1) * _diam(gd.polys[k]) * F(1e-3) * (1 + F(1, 10 ** 9)) for k in range(len(gd.polys))]

    def piece_interval(T, a, b):
        """length of the part of the line between positions a, b (distance from the start) that lies in the convex polygon T"""
        lo, hi, conds = a, b, []
        for i in range(len(T)):
            (ax, ay), (bx, by) = T[i], T[(i + 1) % len(T)]
            ex, ey = -(by - ay), bx - ax                      # inward normal (T counter-clockwise)
            g1 = (ex * dx + ey * dy) / nD
            g0 = q(ex) * (P0[0] - q(ax)) + q(ey) * (P0[1] - q(ay))
            if g1 > 0: lo = zmax(lo, -g0 / q(g1))
            elif g1 < 0: hi = zmin(hi, g0 / q(-g1))
            else: conds.append(g0 >= 0)
        return z3.If(z3.And(*(conds + [hi > lo])), hi - lo, ZERO)

    def inside_len(k, a, b):
        return z3.Sum(*([piece_interval(T, a, b) for T in pieces[k]] + [ZERO]))

    lens = [z3.simplify(inside_len(k, ZERO, q(Len))) for k in range(len(gd.polys))]
    # admissible lines: end points farther than tau from every edge line; the line does not run along an edge
    excl = []
    for (a, b, cc), Nn in gd.lines:
        t = gd.tau * Nn
        for (px, py) in (P0, (P0[0] + q(L * dx), P0[1] + q(L * dy))):
            Lf = q(a) * px + q(b) * py + q(cc)
            excl.append(z3.Or(Lf > q(t), Lf < q(-t)))
        if a * dx + b * dy == 0:                              # edge parallel to the line
            Lf = q(a) * P0[0] + q(b) * P0[1] + q(cc)
            excl.append(z3.Or(Lf > q(t), Lf < q(-t)))
    failures, samples, distinct = [], [], set()
    tagD = 'dir%d.%d' % (int(dx), int(dy))

    def fail(c, sub, what, cols=()):
        m = c.failures[-1]['model']
        cls = shape
        if any(k is not None and len(pieces[k]) > 1 for k in cols): cls = 'nonconvex-column'      # one class whatever the end points
        failures.append(dict(key='column_track/%s/oblique/%s/%s' % (geo, cls, sub), what='%s %s %s: %s' % (geo, tagD, shape, what),
                             replay=dict(fn='otrack', geo=geo, D=[int(dx), int(dy)], shape=shape, o=sym.model_value(m, O),
                                         A=[str(A[0]), str(A[1])], L=str(L))))

    def pos(p):
        """(distance from the start along the line, offset across it) of a point returned by the code"""
        vx, vy = sym.lift_real(p[0]) - P0[0], sym.lift_real(p[1]) - P0[1]
        return (vx * q(dx) + vy * q(dy)) / q(nD), (vx * q(dy) - vy * q(dx)) / q(nD)

    def h(c):
        o = c.real('o', orng[0], orng[1])
        for e in excl: c.add(e)
        p0 = [o * int(nx) + float(A[0]), o * int(ny) + float(A[1])]
        p1 = [p0[0] + float(L * dx), p0[1] + float(L * dy)]
        line = [mg.np.array(p0), mg.np.array(p1)]
        try:
            track = gd.geo.column_track(line)
        except Exception as ex:
            if c.refute_path('column_track raises no exception') == 'sat':
                fail(c, type(ex).__name__, 'raised %s: %s' % (type(ex).__name__, ex))
            return 'raised'
        names = [t[0].name for t in track]
        ks = [gd.index.get(nm) for nm in names]
        ok_struct = all(k is not None and gd.cols[k] is t[0] for k, t in zip(ks, track)) and \
            all(names.count(nm) <= len(pieces[gd.index[nm]]) for nm in set(names) if nm in gd.index)
        if c.holds(ok_struct, 'track lists columns of the geometry, a convex column at most once') == 'sat':
            fail(c, 'structure', 'track %r' % names); return 'track'
        segs = []
        for (col, pin, pout), k in zip(track, ks):
            uin, win = pos(pin); uout, wout = pos(pout)
            segs.append((k, uin, uout))
            f1 = z3.And(zab(win) <= q(eps), zab(wout) <= q(eps), uin >= q(-eps), uout <= q(Len + eps), uout > uin,
                        inside_len(k, uin, uout) >= uout - uin - q(eps + notchk[k]))
            distinct.add(('seg', z3.simplify(f1).hash()))
            if c.prove(f1, 'entry and exit lie on the line, and the line runs inside the listed column all the way between them') == 'sat':
                fail(c, 'segment-not-inside-column', 'column %r of track %r' % (col.name, names), [k])
        if len(segs) > 1:
            conj = [segs[i][1] <= segs[i + 1][1] for i in range(len(segs) - 1)]
            for i in range(len(segs)):
                for j in range(i + 1, len(segs)):
                    conj.append(zmin(segs[i][2], segs[j][2]) - zmax(segs[i][1], segs[j][1]) <= q(eps + notchk[segs[i][0]] + notchk[segs[j][0]]))
            f3 = z3.And(*conj)
            distinct.add(('order', z3.simplify(f3).hash()))
            if c.prove(f3, 'ordered by distance from the start; no two segments overlap') == 'sat':
                fail(c, 'order-or-overlap', 'track %r' % names, ks)
        for k in range(len(gd.polys)):
            listed = z3.Sum(*([s[2] - s[1] for s in segs if s[0] == k] + [ZERO]))
            f2 = z3.And(lens[k] - listed <= q(len(pieces[k]) * tolk[k] + eps), lens[k] - listed >= q(-2 * eps - notchk[k]))
            distinct.add(('cover', z3.simplify(f2).hash()))
            if c.prove(f2, 'length listed for a column = length of the line inside it, up to clips of at most 1e-3 of its longest side') == 'sat':
                fail(c, 'column-missing' if k not in ks else 'length', 'track %r, column %r' % (names, gd.cols[k].name), [k])
        if len(samples) < 1 and track:
            samples.append(dict(task='otrack', geo=geo, D=[int(dx), int(dy)], shape=shape, track=[(t[0].name, str(t[1])[:60], str(t[2])[:60]) for t in track]))
        return 'track'

    cpu0 = time.process_time()
    res = sym.explore(h, fastctx.FastCtx(timeout_ms=20000), max_paths=5000)
    CPU['s'] = time.process_time() - cpu0
    return report.summarize('otrack/%s/%s.%s/box%s' % (geo, tagD, shape, boxid), res, failures, samples,
                            extra=dict(cpu_s=CPU['s'], distinct_obligations=len(distinct)))


def otrack_plan(tier):
    """(geometry, direction, end-point shape, number of offset sub-ranges)"""
    quick = [('rect22', (3, 4), 'through', 2), ('rect22', (-4, 3), 'startin', 2), ('rect3c', (3, -4), 'startin', 3),
             ('notch3', (-4, 3), 'bothin', 2)]
    if tier == 'quick': return quick
    return quick + [
        ('rect22', (3, 4), 'startin', 2), ('rect22', (3, 4), 'endin', 2), ('rect22', (3, 4), 'bothin', 2),
        ('rect22', (-4, 3), 'through', 2), ('rect22', (5, 12), 'through', 2), ('rect22', (12, -5), 'endin', 2), ('rect22', (-3, -4), 'bothin', 2),
        ('rect31', (4, 3), 'through', 2), ('rect31', (-3, 4), 'endin', 2), ('rect31', (-12, 5), 'startin', 2),
        ('rect3c', (4, 3), 'through', 3), ('rect3c', (-12, 5), 'through', 3), ('rect3c', (4, 3), 'bothin', 3),
        ('notch3', (-4, 3), 'startin', 2), ('notch3', (-4, 3), 'endin', 2), ('notch3', (-4, 3), 'through', 2),
        ('notch3', (3, 4), 'through', 2), ('notch3', (4, -3), 'bothin', 2), ('notch3', (-3, 4), 'through', 2),
        ('mix5', (3, 4), 'through', 3), ('mix5', (-4, 3), 'through', 3), ('mix5', (4, -3), 'startin', 3),
    ]


def otrack_tasks(tier):
    tasks = []
    import os
    flt = os.environ.get('C12_OT')                            # development aid: only these geometries
    for geo, D, shape, nseg in otrack_plan(tier):
        if flt and geo not in flt.split(','): continue
        gd = GeoData(geo, None, need_qtree=False)
        cfg = oblique_config(gd, D, shape)
        for i, rng in enumerate(oblique_cuts(gd, cfg, nseg)):
            tasks.append((task_otrack, dict(geo=geo, D=D, shape=shape, orng=rng, boxid=i)))
    return tasks
