"""Symbolic-side helpers shared by the C04 and C18 harnesses: number ops for
the oracle, a context with a per-path branch cache, obligation discharge."""
import z3
from vx import sym
from vx.sym import SReal, SInt, SBool


class SymOps(object):
    """Number operations over vx.sym proxies for harness/geo_oracle.py."""
    symbolic = True
    def decide(self, cond):
        return bool(cond)            # forced by the path condition, or forks
    def ite(self, cond, a, b): return sym.ite(cond, a, b)
    def min2(self, a, b): return sym.smin(a, b)
    def abs(self, a): return abs(a)


class FastCtx(sym.Ctx):
    """sym.Ctx with a per-path cache of branch decisions: a condition that was
    already decided on this path (forced by the path condition, or chosen and
    then added to it) is decided the same way again without a solver call.
    Sound because the path condition only grows along a path; deterministic
    because the cache is rebuilt identically on every re-execution."""

    def reset(self, prefix):
        sym.Ctx.reset(self, prefix)
        self._bcache = {}

    def branch(self, e):
        e = z3.simplify(e)
        if z3.is_true(e): return True
        if z3.is_false(e): return False
        h = e.hash()
        for (ee, d) in self._bcache.get(h, ()):
            if ee.eq(e): return d
        d = sym.Ctx.branch(self, e)
        self._bcache.setdefault(h, []).append((e, d))
        ne = z3.simplify(z3.Not(e))
        self._bcache.setdefault(ne.hash(), []).append((ne, not d))
        return d


    # solver front end: the nlsat tactic's solver answers the small polynomial
    # queries of these harnesses ~3x faster than the default portfolio; any
    # answer other than sat/unsat (or an exception: term outside QF_NRA) is
    # re-asked to the stock fresh z3.Solver() of sym.Ctx.solve.
    _tactic = None

    def solve(self, extra, full=False, timeout_ms=None):
        import time
        if FastCtx._tactic is None:
            FastCtx._tactic = z3.Tactic('qfnra-nlsat')
        cons = self.pc if full else self.slice_for(extra)
        return self._solve_cached(extra, cons, full, timeout_ms)

    def _solve_cached(self, extra, cons, full, timeout_ms):
        # cross-path cache of UNSAT answers: the very same query (same formula,
        # same constraint set, compared structurally) need not be asked twice
        ckey = None
        if not full:
            if not hasattr(self, '_qcache'): self._qcache = {}
            items = sorted([extra] + list(cons), key=lambda a: a.hash())
            ckey = tuple(a.hash() for a in items)
            for held in self._qcache.get(ckey, ()):
                if len(held) == len(items) and all(a.eq(b) for a, b in zip(held, items)):
                    self.stats['cache_unsat'] = self.stats.get('cache_unsat', 0) + 1
                    self.stats['unsat'] = self.stats.get('unsat', 0) + 1
                    return 'unsat', None
        r = self._solve_uncached(extra, cons, full, timeout_ms)
        if ckey is not None and r[0] == 'unsat':
            self._qcache.setdefault(ckey, []).append(items)
        return r

    def _solve_uncached(self, extra, cons, full, timeout_ms):
        import time
        t0 = time.time()
        rs = 'unknown'
        try:
            if FastCtx._tactic is None:
                FastCtx._tactic = z3.Tactic('qfnra-nlsat')
            s = FastCtx._tactic.solver()
            s.set('timeout', timeout_ms or self.timeout_ms)
            for cn in cons: s.add(cn)
            s.add(extra)
            rs = str(s.check())
        except z3.Z3Exception:
            rs = 'unknown'
        if rs not in ('sat', 'unsat'):
            self.stats['nlsat_fallback'] = self.stats.get('nlsat_fallback', 0) + 1
            return sym.Ctx.solve(self, extra, full, timeout_ms)
        self.stats['queries'] += 1
        self.stats['solver_s'] += time.time() - t0
        self.stats[rs] = self.stats.get(rs, 0) + 1
        if rs == 'sat':
            return 'sat', s.model()
        return rs, None


def zterm(x):
    """proxy / number -> z3 arithmetic term"""
    if isinstance(x, (SReal, SInt)): return x.e
    if isinstance(x, SBool): return z3.If(x.e, 1, 0)
    return sym.lift_real(x)


def formula(ob):
    """(label, kind, lhs, rhs) -> z3 Bool"""
    label, kind, lhs, rhs = ob
    a, b = zterm(lhs), zterm(rhs)
    if z3.is_int(a) and not z3.is_int(b): a = z3.ToReal(a)
    if z3.is_int(b) and not z3.is_int(a): b = z3.ToReal(b)
    if kind == 'eq': return a == b
    if kind == 'ge': return a >= b
    if kind == 'le': return a <= b
    raise ValueError(kind)


def model_num(m, x):
    if isinstance(x, (SReal, SInt)): return sym.model_value(m, x.e)
    return x
