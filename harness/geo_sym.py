"""Symbolic-side helpers shared by the C04 and C18 harnesses: number ops for
the oracle, a context with a per-path branch cache, obligation discharge."""
import z3
from vx import sym
from vx.sym import SReal, SInt, SBool


class SymOps(object):
    """Number operations over vx.sym proxies for harness/geo_oracle.py."""
    symbolic = True
    def decide(self, cond):
        return bool(cond)            # forced by the path condition, or forks
    def ite(self, cond, a, b): return sym.ite(cond, a, b)
    def min2(self, a, b): return sym.smin(a, b)
    def abs(self, a): return abs(a)


class FastCtx(sym.Ctx):
    """sym.Ctx with a per-path cache of branch decisions: a condition that was
    already decided on this path (forced by the path condition, or chosen and
    then added to it) is decided the same way again without a solver call.
    Sound because the path condition only grows along a path; deterministic
    because the cache is rebuilt identically on every re-execution."""

    def reset(self, prefix):
        sym.Ctx.reset(self, prefix)
        self._bcache = {}

    def branch(self, e):
        e = z3.simplify(e)
        if z3.is_true(e): return True
        if z3.is_false(e): return False
        h = e.hash()
        for (ee, d) in self._bcache.get(h, ()):
            if ee.eq(e): return d
        d = sym.Ctx.branch(self, e)
        self._bcache.setdefault(h, []).append((e, d))
        ne = z3.simplify(z3.Not(e))
        self._bcache.setdefault(ne.hash(), []).append((ne, not d))
        return d


    # -- counterexample validation ------------------------------------------------
    # A 'sat' answer to an obligation is only accepted if the returned model really
    # satisfies the negated obligation and the constraints it was asked with (exact
    # evaluation).  Under heavy machine load a (timed) query was once seen to come
    # back 'sat' with values that satisfy nothing (it did not replay and did not recur);
    # such an answer is re-asked to a fresh stock solver and counted in the evidence.
    def _model_ok(self, m, fs):
        try:
            return all(z3.is_true(m.eval(f, model_completion=True)) for f in fs)
        except z3.Z3Exception:
            return False

    def prove(self, formula, label, info=None):
        r = sym.Ctx.prove(self, formula, label, info)
        if r != 'sat': return r
        f = formula.e if isinstance(formula, SBool) else formula
        if isinstance(f, bool): return r
        neg = z3.simplify(z3.Not(f))
        cons = self.slice_for(neg)
        m = self.failures[-1]['model']
        if self._model_ok(m, [neg]) and (self._model_ok(m, cons) or self._model_ok(m, self.pc)):
            return r
        self.stats['invalid_models'] = self.stats.get('invalid_models', 0) + 1
        self.failures.pop(); self.stats['ob_sat'] -= 1
        s = z3.Solver(); s.set('timeout', self.timeout_ms)
        for cn in cons: s.add(cn)
        s.add(neg)
        rs = str(s.check())
        self.stats['queries'] += 1
        if rs == 'unsat':
            self.stats['ob_unsat'] += 1
            return 'unsat'
        if rs == 'sat' and self._model_ok(s.model(), cons + [neg]):
            self.stats['ob_sat'] += 1
            self.failures.append(dict(label=label, info=info, model=s.model(), formula=f))
            return 'sat'
        self.stats['ob_unknown'] += 1
        self.unknowns.append(dict(label=label, info=info))
        return 'unknown'

    # solver front end: the nlsat tactic's solver answers the small polynomial
    # queries of these harnesses ~3x faster than the default portfolio; any
    # answer other than sat/unsat (or an exception: term outside QF_NRA) is
    # re-asked to the stock fresh z3.Solver() of sym.Ctx.solve.
    _tactic = None

    def solve(self, extra, full=False, timeout_ms=None):
        import time
        if FastCtx._tactic is None:
            FastCtx._tactic = z3.Tactic('qfnra-nlsat')
        cons = self.pc if full else self.slice_for(extra)
        r = self._solve_cached(extra, cons, full, timeout_ms)
        if full and r[0] == 'unknown':
            m = self._model_by_components(extra, timeout_ms)
            if m is not None: return 'sat', m
        return r

    def _model_by_components(self, extra, timeout_ms):
        """A model of the FULL path condition + extra assembled from models of its
        variable-disjoint components (each solved on its own); used only to
        give replays values for every input when the monolithic query is too
        hard.  Returns None unless every component is sat."""
        items = [(c, self.vars_of(c)) for c in list(self.pc) + [extra]]
        comps = []
        for c, vs in items:
            hit = [k for k in comps if k[1] & vs]
            merged = ([c], set(vs))
            for k in hit:
                merged[0].extend(k[0]); merged[1].update(k[1]); comps.remove(k)
            comps.append(merged)
        fix = z3.Solver()
        for cs, vs in comps:
            s = z3.Solver(); s.set('timeout', timeout_ms or self.timeout_ms)
            for c in cs: s.add(c)
            if str(s.check()) != 'sat': return None
            m = s.model()
            for d in m.decls():
                if d.arity() != 0: continue
                v = m[d]
                if z3.is_algebraic_value(v): v = v.approx(30)
                fix.add(d() == v)
        if str(fix.check()) != 'sat': return None
        return fix.model()

    def _solve_cached(self, extra, cons, full, timeout_ms):
        # cross-path cache of UNSAT answers: the very same query (same formula,
        # same constraint set, compared structurally) need not be asked twice
        ckey = None
        if not full:
            if not hasattr(self, '_qcache'): self._qcache = {}
            items = sorted([extra] + list(cons), key=lambda a: a.hash())
            ckey = tuple(a.hash() for a in items)
            for held in self._qcache.get(ckey, ()):
                if len(held) == len(items) and all(a.eq(b) for a, b in zip(held, items)):
                    self.stats['cache_unsat'] = self.stats.get('cache_unsat', 0) + 1
                    self.stats['unsat'] = self.stats.get('unsat', 0) + 1
                    return 'unsat', None
        r = self._solve_uncached(extra, cons, full, timeout_ms)
        if ckey is not None and r[0] == 'unsat':
            self._qcache.setdefault(ckey, []).append(items)
        return r

    def _solve_uncached(self, extra, cons, full, timeout_ms):
        import time
        t0 = time.time()
        rs = 'unknown'
        try:
            if FastCtx._tactic is None:
                FastCtx._tactic = z3.Tactic('qfnra-nlsat')
            s = FastCtx._tactic.solver()
            s.set('timeout', timeout_ms or self.timeout_ms)
            for cn in cons: s.add(cn)
            s.add(extra)
            rs = str(s.check())
        except z3.Z3Exception:
            rs = 'unknown'
        if rs not in ('sat', 'unsat'):
            self.stats['nlsat_fallback'] = self.stats.get('nlsat_fallback', 0) + 1
            return sym.Ctx.solve(self, extra, full, timeout_ms)
        self.stats['queries'] += 1
        self.stats['solver_s'] += time.time() - t0
        self.stats[rs] = self.stats.get(rs, 0) + 1
        if rs == 'sat':
            return 'sat', s.model()
        return rs, None


def zterm(x):
    """proxy / number -> z3 arithmetic term"""
    if isinstance(x, (SReal, SInt)): return x.e
    if isinstance(x, SBool): return z3.If(x.e, 1, 0)
    return sym.lift_real(x)


def formula(ob):
    """(label, kind, lhs, rhs) -> z3 Bool"""
    label, kind, lhs, rhs = ob
    if lhs is None or rhs is None: return z3.BoolVal(False)      # a missing value never equals a number
    a, b = zterm(lhs), zterm(rhs)
    if z3.is_int(a) and not z3.is_int(b): a = z3.ToReal(a)
    if z3.is_int(b) and not z3.is_int(a): b = z3.ToReal(b)
    if kind == 'eq': return a == b
    if kind == 'ge': return a >= b
    if kind == 'le': return a <= b
    raise ValueError(kind)


def model_num(m, x):
    if isinstance(x, (SReal, SInt)): return sym.model_value(m, x.e)
    return x
