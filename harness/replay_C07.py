"""Replay for C07: the navigation kernel of the real t2listing /
toughreact_tecplot classes on a concrete object made with __new__, stub file
and stub table reader; independent expected index computed here."""
from fractions import Fraction
import numpy as np

def num(x):
    if isinstance(x, dict) and 'frac' in x:
        return Fraction(int(x['frac'][0]), int(x['frac'][1]))
    return x

def as_numbers(xs):
    """floats when exactly representable, else Fractions (numpy object array)."""
    import numpy as np
    xs = [num(x) for x in xs]
    if all(Fraction(float(x)) == Fraction(x) for x in xs):
        return np.array([float(x) for x in xs])
    a = np.empty(len(xs), dtype=object)
    for k, x in enumerate(xs): a[k] = Fraction(x)
    return a


class FileStub(object):
    def __init__(self, log): self.log = log; self.pos = None
    def seek(self, pos, *a): self.pos = pos; self.log.append(('seek', pos))
    def tell(self): return self.pos



def with_short_output(times, steps, fullpos):
    """the check's stub has two short-output times after the first full result set
    (more output times than full result sets); only their number matters here"""
    n = len(times)
    t0, s0 = times[0], int(steps[0])
    t1 = times[1] if n > 1 else t0 + 1000
    s1 = int(steps[1]) if n > 1 else s0 + 1000
    xt = [t0 + (t1 - t0) / 3.0, t0 + 2 * (t1 - t0) / 3.0]
    xs = [s0 + max(1, (s1 - s0) // 3), s0 + max(2, 2 * (s1 - s0) // 3)]
    tl = np.array([times[0]] + xt + list(times[1:]))
    sl = np.array([s0] + xs + [int(s) for s in steps[1:]])
    pos = [fullpos[0], fullpos[0] + 11, fullpos[0] + 23] + list(fullpos[1:])
    return tl, sl, pos

def build(T, cls, times, steps, fullpos, k0):
    log = []
    lst = getattr(T, cls).__new__(getattr(T, cls))
    lst._file = FileStub(log)
    lst.fulltimes, lst.fullsteps, lst._fullpos = times, steps, fullpos
    lst.times, lst.steps, lst._pos = with_short_output(times, steps, fullpos)
    def read_tables():
        pos = lst._file.pos
        log.append(('read', pos))
        if pos in fullpos: lst._time, lst._step = times[fullpos.index(pos)], steps[fullpos.index(pos)]
        else: lst._time = lst._step = None
    lst.read_tables = read_tables
    lst._time, lst._step = times[k0], steps[k0]
    lst._index = k0
    return lst, log


def attach_tables(T, lst, rows):
    r0, r1, ca, cb = rows
    lst._table = {'element': T.listingtable(['P', 'T'], [r0, r1]),
                  'connection': T.listingtable(['FLOW'], [(ca, cb)], num_keys=2, allow_reverse_keys=True)}
    lst.short_types = ['ESHORT']
    lst.short_indices = {'ESHORT': {0: 0}}


def bad_selection(variant, names, rows):
    if variant == 'unknown-block': return ('e', names[0], 'P')
    if variant == 'unknown-connection': return ('c', (names[0], names[1]), 'FLOW')
    if variant == 'two-invalid': return [('e', names[0], 'T'), ('c', (names[1], names[2]), 'FLOW')]
    if variant == 'unknown-table-letter': return ('x', rows[0], 'P')
    if variant == 'table-not-in-listing': return ('g', (rows[0], rows[1]), 'P')
    raise ValueError(variant)


def replay_badhist(d):
    import numpy as np
    import t2listing as T
    n, k0 = int(d['n']), int(d['k0'])
    times = as_numbers(d['times']); steps = np.array([int(s) for s in d['steps']])
    fullpos = [1000 + 137 * k * k + 61 * k for k in range(n)]
    lst, log = build(T, 't2listing', times, steps, fullpos, k0)
    attach_tables(T, lst, d['rows'])
    sel = bad_selection(d['variant'], d['names'], d['rows'])
    before = (lst.index, lst.time, lst.step)
    try:
        res = lst.history(sel)
    except Exception as ex:
        return True, 'history(%r) raised %s: %s' % (sel, type(ex).__name__, ex)
    probs = []
    if res is not None: probs.append('returned %r instead of None' % (res,))
    after = (lst.index, lst.time, lst.step)
    if after != before: probs.append('index/time/step were %r, now %r' % (before, after))
    if log: probs.append('file activity although nothing is extracted: %r' % (log[:4],))
    moved = lst.next()
    if bool(moved) != (k0 < n - 1) or int(lst.index) != min(k0 + 1, n - 1):
        probs.append('next() afterwards returned %r and went to index %r (was at %d of %d)' % (moved, lst.index, k0, n))
    if probs: return True, 'history(%r) with no valid specification, listing at index %d of %d: %s' % (sel, k0, n, '; '.join(probs))
    return False, 'invalid history request leaves the listing untouched: %r' % (d,)


def replay_sequence(d):
    import numpy as np
    import t2listing as T
    n, k0 = int(d['n']), int(d['k0'])
    times = as_numbers(d['times']); steps = np.array([int(s) for s in d['steps']])
    fullpos = [1000 + 137 * k * k + 61 * k for k in range(n)]
    lst, log = build(T, 't2listing', times, steps, fullpos, k0)
    if 'rows' in d: attach_tables(T, lst, d['rows'])
    try:
        for a, x in zip(d['sequence'], d['args']):
            if a == 'badhist':
                lst.history(('e', x['names'][0], 'P')); continue
            x = num(x)
            if a == 'index': lst.index = int(x)
            elif a == 'first': lst.first()
            elif a == 'last': lst.last()
            elif a == 'next': lst.next()
            elif a == 'prev': lst.prev()
            elif a == 'time': lst.time = float(x) if (times.dtype != object and Fraction(float(x)) == Fraction(x)) else Fraction(x)
            elif a == 'step': lst.step = int(x)
    except Exception as ex:
        return True, 'sequence %r with %r from index %d raised %s: %s' % (d['sequence'], d['args'], k0, type(ex).__name__, ex)
    k = int(lst.index)
    probs = []
    if not 0 <= k < n: probs.append('reported index %d outside [0, %d)' % (k, n))
    else:
        ref, log2 = build(T, 't2listing', times, steps, fullpos, 0)
        ref.index = k
        if lst.time is None: probs.append('tables were read at an offset that is not the start of a result set')
        elif lst.time != ref.time or lst.step != ref.step: probs.append('time/step %r/%r, directly positioned listing shows %r/%r' % (lst.time, lst.step, ref.time, ref.step))
        r1 = [x for x in log if x[0] == 'read']
        last1 = r1[-1][1] if r1 else fullpos[k0]
        if last1 != fullpos[k]: probs.append('tables on display were read at offset %r, result set %d starts at %d' % (last1, k, fullpos[k]))
    if probs: return True, 'sequence %r args %r from index %d, times %r: %s' % (d['sequence'], d['args'], k0, d['times'], '; '.join(probs))
    return False, 'sequence leaves the listing as if positioned directly: %r' % (d,)


def replay(d):
    import numpy as np
    import t2listing as T
    if 'sequence' in d: return replay_sequence(d)
    if d.get('action') == 'badhist': return replay_badhist(d)
    cls, action, n, k0 = d['cls'], d['action'], int(d['n']), int(d['k0'])
    times = as_numbers(d['times'])
    steps = np.array([int(s) for s in d['steps']])
    fullpos = [1000 + 137 * k * k + 61 * k for k in range(n)]
    log = []
    lst = getattr(T, cls).__new__(getattr(T, cls))
    lst._file = FileStub(log)
    if cls == 't2listing':
        lst.fulltimes, lst.fullsteps, lst._fullpos = times, steps, fullpos
        lst.times, lst.steps, lst._pos = with_short_output(times, steps, fullpos)
        def read_tables():
            pos = lst._file.pos
            log.append(('read', pos))
            if pos in fullpos: lst._time, lst._step = times[fullpos.index(pos)], steps[fullpos.index(pos)]
            else: lst._time = lst._step = None
        lst.read_tables = read_tables
        lst._time, lst._step = times[k0], steps[k0]
    else:
        lst.times, lst._pos = times, fullpos
        lst.read_table = lambda: log.append(('read', lst._file.pos))
    lst._index = k0
    arg = num(d.get('arg'))
    if arg is not None and action == 'time' and Fraction(float(arg)) == Fraction(arg) and times.dtype != object: arg = float(arg)
    moved = None
    try:
        if action == 'index': lst.index = int(arg)
        elif action == 'first': lst.first()
        elif action == 'last': lst.last()
        elif action == 'next': moved = lst.next()
        elif action == 'prev': moved = lst.prev()
        elif action == 'time': lst.time = arg
        elif action == 'step': lst.step = int(arg)
    except Exception as ex:
        return True, '%s(%r) from index %d raised %s: %s' % (action, arg, k0, type(ex).__name__, ex)
    # expected index, computed independently
    if action == 'index': want = int(arg) % n
    elif action == 'first': want = 0
    elif action == 'last': want = n - 1
    elif action == 'next': want = min(k0 + 1, n - 1)
    elif action == 'prev': want = max(k0 - 1, 0)
    else:
        xs = [Fraction(num(x)) for x in (d['times'] if action == 'time' else d['steps'])]
        a = Fraction(num(d['arg']))
        best = min(abs(x - a) for x in xs)
        want = [k for k, x in enumerate(xs) if abs(x - a) == best][0]
    probs = []
    got = lst.index
    if int(got) != want: probs.append('reported index %r, expected %d' % (got, want))
    if action in ('next', 'prev'):
        should = (k0 < n - 1) if action == 'next' else (k0 > 0)
        if bool(moved) != should: probs.append('%s() returned %r from index %d of %d' % (action, moved, k0, n))
    reads = [x for x in log if x[0] == 'read']
    if action in ('next', 'prev') and not reads:
        if want != k0: probs.append('no tables read although the position should change')
        if log: probs.append('file offset moved without a read: %r' % (log,))
    else:
        if len(reads) != 1: probs.append('tables read %d times' % len(reads))
        elif 0 <= want < n and reads[0][1] != fullpos[want]: probs.append('tables read at offset %r, result set %d starts at %d' % (reads[0][1], want, fullpos[want]))
        if log and log[-1][0] != 'read': probs.append('seek after the read: %r' % (log,))
    if cls == 't2listing' and (lst.time is None or lst.step is None):
        probs.append('tables were read at offset %r which is not the start of a result set' % (reads[-1][1] if reads else None,))
    elif 0 <= want < n:
        if Fraction(lst.time) != Fraction(num(d['times'][want])): probs.append('reported time %r is not that of index %d' % (lst.time, want))
        if cls == 't2listing' and int(lst.step) != int(d['steps'][want]): probs.append('reported step %r is not that of index %d' % (lst.step, want))
    if probs:
        return True, '%s %s(%r) from index %d, n=%d, times=%r: %s' % (cls, action, d.get('arg'), k0, n, d['times'], '; '.join(probs))
    return False, 'navigation obligations hold on the real code for %r' % (d,)
