"""Replay for C07: the navigation kernel of the real t2listing /
toughreact_tecplot classes on a concrete object made with __new__, stub file
and stub table reader; independent expected index computed here."""
from fractions import Fraction
import numpy as np

def num(x):
    if isinstance(x, dict) and 'frac' in x:
        return Fraction(int(x['frac'][0]), int(x['frac'][1]))
    return x

def as_numbers(xs):
    """floats when exactly representable, else Fractions (numpy object array)."""
    import numpy as np
    xs = [num(x) for x in xs]
    if all(Fraction(float(x)) == Fraction(x) for x in xs):
        return np.array([float(x) for x in xs])
    a = np.empty(len(xs), dtype=object)
    for k, x in enumerate(xs): a[k] = Fraction(x)
    return a


class FileStub(object):
    def __init__(self, log): self.log = log; self.pos = None
    def seek(self, pos, *a): self.pos = pos; self.log.append(('seek', pos))
    def tell(self): return self.pos



def with_short_output(times, steps, fullpos):
    """the check's stub has two short-output times after the first full result set
    (more output times than full result sets); only their number matters here"""
    n = len(times)
    t0, s0 = times[0], int(steps[0])
    t1 = times[1] if n > 1 else t0 + 1000
    s1 = int(steps[1]) if n > 1 else s0 + 1000
    xt = [t0 + (t1 - t0) / 3.0, t0 + 2 * (t1 - t0) / 3.0]
    xs = [s0 + max(1, (s1 - s0) // 3), s0 + max(2, 2 * (s1 - s0) // 3)]
    tl = np.array([times[0]] + xt + list(times[1:]))
    sl = np.array([s0] + xs + [int(s) for s in steps[1:]])
    pos = [fullpos[0], fullpos[0] + 11, fullpos[0] + 23] + list(fullpos[1:])
    return tl, sl, pos

def build(T, cls, times, steps, fullpos, k0):
    log = []
    lst = getattr(T, cls).__new__(getattr(T, cls))
    lst._table = {}
    lst._file = FileStub(log)
    lst.fulltimes, lst.fullsteps, lst._fullpos = times, steps, fullpos
    lst.times, lst.steps, lst._pos = with_short_output(times, steps, fullpos)
    def read_tables():
        pos = lst._file.pos
        log.append(('read', pos))
        if pos in fullpos: lst._time, lst._step = times[fullpos.index(pos)], steps[fullpos.index(pos)]
        else: lst._time = lst._step = None
    lst.read_tables = read_tables
    lst._time, lst._step = times[k0], steps[k0]
    lst._index = k0
    return lst, log


def attach_tables(T, lst, rows):
    r0, r1, ca, cb = rows
    lst._table = {'element': T.listingtable(['P', 'T'], [r0, r1]),
                  'connection': T.listingtable(['FLOW'], [(ca, cb)], num_keys=2, allow_reverse_keys=True)}
    lst.short_types = ['ESHORT']
    lst.short_indices = {'ESHORT': {0: 0}}


def bad_selection(variant, names, rows):
    if variant == 'unknown-block': return ('e', names[0], 'P')
    if variant == 'unknown-connection': return ('c', (names[0], names[1]), 'FLOW')
    if variant == 'two-invalid': return [('e', names[0], 'T'), ('c', (names[1], names[2]), 'FLOW')]
    if variant == 'unknown-table-letter': return ('x', rows[0], 'P')
    if variant == 'table-not-in-listing': return ('g', (rows[0], rows[1]), 'P')
    raise ValueError(variant)


def replay_badhist(d):
    import numpy as np
    import t2listing as T
    n, k0 = int(d['n']), int(d['k0'])
    times = as_numbers(d['times']); steps = np.array([int(s) for s in d['steps']])
    fullpos = [1000 + 137 * k * k + 61 * k for k in range(n)]
    lst, log = build(T, 't2listing', times, steps, fullpos, k0)
    attach_tables(T, lst, d['rows'])
    sel = bad_selection(d['variant'], d['names'], d['rows'])
    before = (lst.index, lst.time, lst.step)
    try:
        res = lst.history(sel)
    except Exception as ex:
        return True, 'history(%r) raised %s: %s' % (sel, type(ex).__name__, ex)
    probs = []
    if res is not None: probs.append('returned %r instead of None' % (res,))
    after = (lst.index, lst.time, lst.step)
    if after != before: probs.append('index/time/step were %r, now %r' % (before, after))
    if log: probs.append('file activity although nothing is extracted: %r' % (log[:4],))
    moved = lst.next()
    if bool(moved) != (k0 < n - 1) or int(lst.index) != min(k0 + 1, n - 1):
        probs.append('next() afterwards returned %r and went to index %r (was at %d of %d)' % (moved, lst.index, k0, n))
    if probs: return True, 'history(%r) with no valid specification, listing at index %d of %d: %s' % (sel, k0, n, '; '.join(probs))
    return False, 'invalid history request leaves the listing untouched: %r' % (d,)


def replay_sequence(d):
    import numpy as np
    import t2listing as T
    n, k0 = int(d['n']), int(d['k0'])
    times = as_numbers(d['times']); steps = np.array([int(s) for s in d['steps']])
    fullpos = [1000 + 137 * k * k + 61 * k for k in range(n)]
    lst, log = build(T, 't2listing', times, steps, fullpos, k0)
    if 'rows' in d: attach_tables(T, lst, d['rows'])
    try:
        for a, x in zip(d['sequence'], d['args']):
            if a == 'badhist':
                lst.history(('e', x['names'][0], 'P')); continue
            x = num(x)
            if a == 'index': lst.index = int(x)
            elif a == 'first': lst.first()
            elif a == 'last': lst.last()
            elif a == 'next': lst.next()
            elif a == 'prev': lst.prev()
            elif a == 'time': lst.time = float(x) if (times.dtype != object and Fraction(float(x)) == Fraction(x)) else Fraction(x)
            elif a == 'step': lst.step = int(x)
    except Exception as ex:
        return True, 'sequence %r with %r from index %d raised %s: %s' % (d['sequence'], d['args'], k0, type(ex).__name__, ex)
    k = int(lst.index)
    probs = []
    if not 0 <= k < n: probs.append('reported index %d outside [0, %d)' % (k, n))
    else:
        ref, log2 = build(T, 't2listing', times, steps, fullpos, 0)
        ref.index = k
        if lst.time is None: probs.append('tables were read at an offset that is not the start of a result set')
        elif lst.time != ref.time or lst.step != ref.step: probs.append('time/step %r/%r, directly positioned listing shows %r/%r' % (lst.time, lst.step, ref.time, ref.step))
        r1 = [x for x in log if x[0] == 'read']
        last1 = r1[-1][1] if r1 else fullpos[k0]
        if last1 != fullpos[k]: probs.append('tables on display were read at offset %r, result set %d starts at %d' % (last1, k, fullpos[k]))
    if probs: return True, 'sequence %r args %r from index %d, times %r: %s' % (d['sequence'], d['args'], k0, d['times'], '; '.join(probs))
    return False, 'sequence leaves the listing as if positioned directly: %r' % (d,)




# ---------------------------------------------------------------------------
# file-level tier: the real reader on a real temporary file written from the model

def _file_expected(k, kind, arg, n, times, steps):
    if kind == 'first': return 0, None
    if kind == 'last': return n - 1, None
    if kind == 'next': return min(k + 1, n - 1), k < n - 1
    if kind == 'prev': return max(k - 1, 0), k > 0
    if kind == 'index': return int(arg) % n, None
    if kind in ('time', 'step'):
        xs = [Fraction(x) for x in (times if kind == 'time' else steps)]
        a = Fraction(arg)
        best = min(abs(x - a) for x in xs)
        return [i for i, x in enumerate(xs) if abs(x - a) == best][0], None
    return k, None


def replay_file(d):
    """All recorded actions since the reader was opened are repeated on the real t2listing reading a real
    temporary file (shipped listing with the model's digits / signs); after the last one the reader is
    compared with a second reader opened fresh on the same file and positioned with index = k, and with
    the numbers printed in the file for result set k (plain-text scan of c06_common)."""
    import os, sys, shutil, signal, tempfile
    sys.path.insert(0, os.path.dirname(os.path.abspath(__file__)))
    import c05_common as cc
    import c06_common as c6
    import replay_C06 as r6
    import t2listing
    repo = os.environ.get('PYTOUGH_REPO', '/repo')
    path = os.path.join(repo, d['file'])
    raw = cc.read_lines(path)
    lines = c6.apply_substitutions(c6.derive(raw, d.get('derive')), d.get('substitutions') or {})
    fam = cc.family_of(lines)
    skip = list(d.get('skip_tables') or [])
    nsub = sum(len(v) for v in (d.get('substitutions') or {}).values())
    tmp = tempfile.mkdtemp(prefix='c07replay')
    try:
        p2 = os.path.join(tmp, os.path.basename(path))
        with open(p2, 'wb') as fh: fh.write(''.join(lines).encode('latin-1'))
        head = '%s (%d characters substituted%s), clause %s, actions %s: ' % (
            d['file'] + (' derived ' + d['derive'] if d.get('derive') else ''), nsub, ', skip_tables=%r' % skip if skip else '', d.get('clause'),
            ' > '.join('%s%s' % (a[0], '' if a[1] == 'history' or a[2] is None else '=%r' % (a[2],)) for a in d['actions'][-4:]))
        sets = c6.scan_sets(lines, fam)
        fullk = [i for i, s in enumerate(sets) if not s['short']]
        n = len(fullk)
        times = [sets[i]['time'] for i in fullk]; steps = [sets[i]['step'] for i in fullk]
        def alarm(sig, frm): raise c6.NonTermination('no return within 60 s')
        try:
            lst = t2listing.t2listing(p2, skip_tables=list(skip))
        except Exception as ex:
            return True, head + 't2listing() raised %s: %s' % (type(ex).__name__, str(ex)[:100])
        k = 0
        budget = c6.budget(len(lines), len(sets))
        for a in d['actions']:
            label, kind, arg = a
            want, moved_want = _file_expected(k, kind, arg, n, times, steps)
            cf = r6.CountingFile(lst._file, budget)
            lst._file = cf
            old = signal.signal(signal.SIGALRM, alarm); signal.setitimer(signal.ITIMER_REAL, 60)
            try:
                moved = None
                if kind == 'first': lst.first()
                elif kind == 'last': lst.last()
                elif kind == 'next': moved = lst.next()
                elif kind == 'prev': moved = lst.prev()
                elif kind == 'index': lst.index = int(arg)
                elif kind == 'time': lst.time = arg
                elif kind == 'step': lst.step = int(arg)
                elif kind == 'history':
                    sel = [(x[0], tuple(x[1]) if isinstance(x[1], list) else x[1], x[2]) for x in arg['selection']]
                    lst.history(sel[0] if arg.get('form') == 'tuple' else sel, short=arg.get('short', True))
            except c6.NonTermination as ex:
                return True, head + 'terminates: %s from index %d does not return: %s' % (label, k, ex)
            except Exception as ex:
                if not (kind == 'history' and arg.get('may_raise')):
                    return True, head + 'no-exception: %s from index %d raised %s: %s' % (label, k, type(ex).__name__, str(ex)[:100])
            finally:
                signal.setitimer(signal.ITIMER_REAL, 0); signal.signal(signal.SIGALRM, old)
                lst._file = cf.f
            if not (0 <= int(lst.index) < n) or int(lst.index) != want:
                return True, head + 'index: after %s from index %d the reported index is %r, the property prescribes %d of %d' % (label, k, lst.index, want, n)
            if moved_want is not None and bool(moved) != moved_want:
                return True, head + 'moved: %s() from index %d of %d returned %r' % (kind, k, n, moved)
            k = want
        ref = t2listing.t2listing(p2, skip_tables=list(skip))
        ref.index = k
        if (lst.index, lst.time, lst.step) != (ref.index, ref.time, ref.step):
            return True, head + 'time-step: index/time/step %r, a fresh reader positioned at %d shows %r' % ((lst.index, lst.time, lst.step), k, (ref.index, ref.time, ref.step))
        if float(ref.time) != times[k]:
            return True, head + 'time-step: fresh reader at index %d reports time %r, the file prints %r' % (k, ref.time, times[k])
        if sorted(lst._table) != sorted(ref._table):
            return True, head + 'tables: %r versus %r in a fresh reader' % (sorted(lst._table), sorted(ref._table))
        for tn in ref._tablenames:
            a, b = lst._table[tn], ref._table[tn]
            if list(a.row_name) != list(b.row_name) or a._data.shape != b._data.shape:
                return True, head + 'tables: rows of table %s differ from those of a fresh reader' % tn
            if not np.array_equal(a._data, b._data, equal_nan=True):
                i, j = [int(x[0]) for x in np.nonzero((a._data != b._data) & ~(np.isnan(a._data) & np.isnan(b._data)))]
                return True, head + 'tables: table %s row %d (%r) column %s shows %r, a fresh reader positioned at index %d shows %r' % (
                    tn, i, a.row_name[i], a.column_name[j], a._data[i, j], k, b._data[i, j])
        # both readers against the printed numbers of result set k
        P = r6._Printed(lines, fam, ref)
        for tn in ref._tablenames:
            tab = ref._table[tn]
            for r in range(tab.num_rows):
                for col in tab.column_name:
                    pv = P.value(tn, r, fullk[k], col)
                    if pv in ('n/a', None): continue
                    v = tab[r][col]
                    if not (v == pv):
                        return True, head + 'printed-value: table %s row %d (%r) column %s: both readers show %r at index %d, the file prints %r there' % (
                            tn, r, tab.row_name[r], col, v, k, pv)
        return False, head + 'after %d actions the reader equals a fresh reader positioned at index %d and the printed numbers' % (len(d['actions']), k)
    finally:
        shutil.rmtree(tmp, ignore_errors=True)


def replay(d):
    import numpy as np
    if d.get('kind') == 'file': return replay_file(d)
    import t2listing as T
    if 'sequence' in d: return replay_sequence(d)
    if d.get('action') == 'badhist': return replay_badhist(d)
    cls, action, n, k0 = d['cls'], d['action'], int(d['n']), int(d['k0'])
    times = as_numbers(d['times'])
    steps = np.array([int(s) for s in d['steps']])
    fullpos = [1000 + 137 * k * k + 61 * k for k in range(n)]
    log = []
    lst = getattr(T, cls).__new__(getattr(T, cls))
    lst._table = {}
    lst._file = FileStub(log)
    if cls == 't2listing':
        lst.fulltimes, lst.fullsteps, lst._fullpos = times, steps, fullpos
        lst.times, lst.steps, lst._pos = with_short_output(times, steps, fullpos)
        def read_tables():
            pos = lst._file.pos
            log.append(('read', pos))
            if pos in fullpos: lst._time, lst._step = times[fullpos.index(pos)], steps[fullpos.index(pos)]
            else: lst._time = lst._step = None
        lst.read_tables = read_tables
        lst._time, lst._step = times[k0], steps[k0]
    else:
        lst.times, lst._pos = times, fullpos
        lst.read_table = lambda: log.append(('read', lst._file.pos))
    lst._index = k0
    arg = num(d.get('arg'))
    if arg is not None and action == 'time' and Fraction(float(arg)) == Fraction(arg) and times.dtype != object: arg = float(arg)
    moved = None
    try:
        if action == 'index': lst.index = int(arg)
        elif action == 'first': lst.first()
        elif action == 'last': lst.last()
        elif action == 'next': moved = lst.next()
        elif action == 'prev': moved = lst.prev()
        elif action == 'time': lst.time = arg
        elif action == 'step': lst.step = int(arg)
    except Exception as ex:
        return True, '%s(%r) from index %d raised %s: %s' % (action, arg, k0, type(ex).__name__, ex)
    # expected index, computed independently
    if action == 'index': want = int(arg) % n
    elif action == 'first': want = 0
    elif action == 'last': want = n - 1
    elif action == 'next': want = min(k0 + 1, n - 1)
    elif action == 'prev': want = max(k0 - 1, 0)
    else:
        xs = [Fraction(num(x)) for x in (d['times'] if action == 'time' else d['steps'])]
        a = Fraction(num(d['arg']))
        best = min(abs(x - a) for x in xs)
        want = [k for k, x in enumerate(xs) if abs(x - a) == best][0]
    probs = []
    got = lst.index
    if int(got) != want: probs.append('reported index %r, expected %d' % (got, want))
    if action in ('next', 'prev'):
        should = (k0 < n - 1) if action == 'next' else (k0 > 0)
        if bool(moved) != should: probs.append('%s() returned %r from index %d of %d' % (action, moved, k0, n))
    reads = [x for x in log if x[0] == 'read']
    if action in ('next', 'prev') and not reads:
        if want != k0: probs.append('no tables read although the position should change')
        if log: probs.append('file offset moved without a read: %r' % (log,))
    else:
        if len(reads) != 1: probs.append('tables read %d times' % len(reads))
        elif 0 <= want < n and reads[0][1] != fullpos[want]: probs.append('tables read at offset %r, result set %d starts at %d' % (reads[0][1], want, fullpos[want]))
        if log and log[-1][0] != 'read': probs.append('seek after the read: %r' % (log,))
    if cls == 't2listing' and (lst.time is None or lst.step is None):
        probs.append('tables were read at offset %r which is not the start of a result set' % (reads[-1][1] if reads else None,))
    elif 0 <= want < n:
        if Fraction(lst.time) != Fraction(num(d['times'][want])): probs.append('reported time %r is not that of index %d' % (lst.time, want))
        if cls == 't2listing' and int(lst.step) != int(d['steps'][want]): probs.append('reported step %r is not that of index %d' % (lst.step, want))
    if probs:
        return True, '%s %s(%r) from index %d, n=%d, times=%r: %s' % (cls, action, d.get('arg'), k0, n, d['times'], '; '.join(probs))
    return False, 'navigation obligations hold on the real code for %r' % (d,)
